----------------------------- MODULE RoundTrace -----------------------------
(***************************************************************************)
(* Monitor specification for one benchmark run of the real sample loop     *)
(* (src/benchmark/mod.rs sample_recorder / bench_loop_threaded), in the    *)
(* vocabulary of the properties only (layer L1):                           *)
(*   C01  life cycle of every generated input and every output,            *)
(*   C02  nothing but calls inside a sample's timed section; the tally     *)
(*        attributed to a sample is the fold of that thread's allocator    *)
(*        operations between its two timestamps,                           *)
(*   C08  threads enter and leave timed sections together; a panic on any  *)
(*        thread ends the run with a panic on the caller, not a hang.      *)
(* The monitor accepts every order of events and records broken rules in   *)
(* `bad`, so that a violated invariant (not a mere rejection) reports it.  *)
(***************************************************************************)
EXTENDS Integers, Sequences, FiniteSets, TLC, Json, IOUtils, Tally

Rec == ndJsonDeserialize(IOEnv.TRACE)

CONSTANT MaxT
Tid == 0..MaxT

VARIABLES
  l,
  sc,        \* the scenario record of the current run
  lp,        \* "none" | "pre" | "prec" | "run" | "done"
  Tn,        \* threads of the loop (from loop_begin)
  size,      \* sample size of the current round
  round,     \* rounds completed
  genN, callN, dropOutN, dropInN,     \* per-thread counts in this round
  cntN,      \* per-thread count events per kind in this round (ZST inputs)
  cleared, started, ended, snapped,   \* per-thread flags in this round
  win,       \* per-thread fold of allocator ops inside the timed window
  val,       \* input id -> [st, owner, counted]
  outv,      \* output id -> [st, owner, inp]
  panicSeen, \* a scripted panic was raised in this run
  panicked,  \* threads on which a scripted panic was raised in this round
  outcome,
  bad        \* set of broken rule names

vars == <<l, sc, lp, Tn, size, round, genN, callN, dropOutN, dropInN, cntN,
          cleared, started, ended, snapped, win, val, outv, panicSeen,
          panicked, outcome, bad>>

Is(e) == l <= Len(Rec) /\ Rec[l].ev = e /\ l' = l + 1
R == Rec[l]
Get(f, o, d) == IF o \in DOMAIN f THEN f[o] ELSE d
Put(f, o, v) == (o :> v) @@ f
Flag(cond, name) == IF cond THEN {name} ELSE {}

Zero == [t \in Tid |-> 0]
No == [t \in Tid |-> FALSE]

HasInputs == sc.entry \notin {"bench", "bench_local"}
IsRefs == sc.entry \in {"bench_refs", "bench_local_refs"}
IsLocal == sc.entry \in {"bench_local", "bench_local_values", "bench_local_refs"}
InDrop == sc.in_shape \in {"zst_drop", "sized_drop"}
OutDrop == sc.out_shape \in {"zst_drop", "sized_drop"}
InputCounters == {sc.input_counters[i] : i \in DOMAIN sc.input_counters}
Threads == 0..(Tn - 1)
InWindow(t) == started[t] /\ ~ended[t]

FreshRound ==
  /\ genN' = Zero /\ callN' = Zero /\ dropOutN' = Zero /\ dropInN' = Zero
  /\ cntN' = [t \in Tid |-> [k \in 0..3 |-> 0]]
  /\ cleared' = No /\ started' = No /\ ended' = No /\ snapped' = No
  /\ win' = [t \in Tid |-> ZeroTally]
  /\ panicked' = {}

RoundVarsUnchanged ==
  UNCHANGED <<genN, callN, dropOutN, dropInN, cntN, cleared, started, ended,
              snapped, win, panicked>>

Init ==
  /\ l = 1 /\ sc = [entry |-> "none"] /\ lp = "none" /\ Tn = 1 /\ size = 0
  /\ round = 0
  /\ genN = Zero /\ callN = Zero /\ dropOutN = Zero /\ dropInN = Zero
  /\ cntN = [t \in Tid |-> [k \in 0..3 |-> 0]]
  /\ cleared = No /\ started = No /\ ended = No /\ snapped = No
  /\ win = [t \in Tid |-> ZeroTally]
  /\ panicked = {}
  /\ val = <<>> /\ outv = <<>> /\ panicSeen = FALSE /\ outcome = "running"
  /\ bad = {}

TrReset ==
  /\ Is("reset")
  /\ sc' = R.scenario /\ lp' = "none" /\ Tn' = 1 /\ size' = 0 /\ round' = 0
  /\ FreshRound
  /\ val' = <<>> /\ outv' = <<>> /\ panicSeen' = FALSE /\ outcome' = "running"
  /\ bad' = {}

Only(changed) == TRUE  \* documentation aid

TrBenchCall ==
  /\ Is("bench_call") /\ lp' = "pre"
  /\ UNCHANGED <<sc, Tn, size, round, val, outv, panicSeen, outcome, bad>>
  /\ RoundVarsUnchanged

TrPrecBegin ==
  /\ Is("precision_begin") /\ lp' = "prec"
  /\ UNCHANGED <<sc, Tn, size, round, val, outv, panicSeen, outcome, bad>>
  /\ RoundVarsUnchanged

TrPrecEnd ==
  /\ Is("precision_end") /\ lp' = "pre"
  /\ UNCHANGED <<sc, Tn, size, round, val, outv, panicSeen, outcome, bad>>
  /\ RoundVarsUnchanged

TrInitialStart ==
  /\ Is("initial_start")
  /\ UNCHANGED <<sc, lp, Tn, size, round, val, outv, panicSeen, outcome, bad>>
  /\ RoundVarsUnchanged

TrLoopBegin ==
  /\ Is("loop_begin") /\ lp' = "run" /\ Tn' = R.threads /\ size' = R.size
  /\ bad' = bad \cup Flag(IsLocal /\ R.threads # 1, "C01:local_not_single_thread")
  /\ UNCHANGED <<sc, round, val, outv, panicSeen, outcome>>
  /\ RoundVarsUnchanged

\* Timestamps outside the running loop (precision measurement, the initial
\* start) are not sample timestamps.
TrTsOther ==
  /\ Is("ts") /\ lp # "run"
  /\ UNCHANGED <<sc, lp, Tn, size, round, val, outv, panicSeen, outcome, bad>>
  /\ RoundVarsUnchanged

TrTsStart ==
  /\ Is("ts") /\ lp = "run" /\ R.kind = "start"
  /\ LET t == R.tid IN
     /\ started' = [started EXCEPT ![t] = TRUE]
     /\ win' = [win EXCEPT ![t] = ZeroTally]
     /\ bad' = bad
          \cup Flag(\E u \in Threads \ panicked : (HasInputs /\ genN[u] < size) \/ ~cleared[u],
                    "C08:start_before_all_generated_and_cleared")
          \cup Flag(started[t], "C02:second_start_in_round")
          \cup Flag(t \notin Threads, "C01:foreign_thread")
  /\ UNCHANGED <<sc, lp, Tn, size, round, genN, callN, dropOutN, dropInN, cntN,
                 cleared, ended, snapped, val, outv, panicSeen, outcome, panicked>>

TrTsEnd ==
  /\ Is("ts") /\ lp = "run" /\ R.kind = "end"
  /\ LET t == R.tid IN
     /\ ended' = [ended EXCEPT ![t] = TRUE]
     /\ bad' = bad \cup Flag(~started[t] \/ ended[t], "C02:end_without_start")
  /\ UNCHANGED <<sc, lp, Tn, size, round, genN, callN, dropOutN, dropInN, cntN,
                 cleared, started, snapped, win, val, outv, panicSeen, outcome, panicked>>

TrGen ==
  /\ Is("gen")
  /\ LET t == R.tid IN
     /\ genN' = [genN EXCEPT ![t] = @ + 1]
     /\ val' = IF R.id # 0
                 THEN Put(val, R.id, [st |-> "gen", owner |-> t, counted |-> {}])
                 ELSE val
     /\ bad' = bad
          \cup Flag(InWindow(t), "C02:gen_inside_timed_section")
          \cup Flag(R.id # 0 /\ R.id \in DOMAIN val, "C01:duplicate_input_identity")
          \cup Flag(IsLocal /\ t # 0, "C01:local_off_caller")
  /\ UNCHANGED <<sc, lp, Tn, size, round, callN, dropOutN, dropInN, cntN,
                 cleared, started, ended, snapped, win, outv, panicSeen, outcome, panicked>>

TrCount ==
  /\ Is("count")
  /\ LET t == R.tid
         v == Get(val, R.id, [st |-> "none", owner |-> -1, counted |-> {}]) IN
     /\ val' = IF R.id # 0 /\ R.id \in DOMAIN val
                 THEN Put(val, R.id, [v EXCEPT !.counted = @ \cup {R.kind}])
                 ELSE val
     /\ cntN' = [cntN EXCEPT ![t][R.kind] = @ + 1]
     /\ bad' = bad
          \cup Flag(InWindow(t), "C02:count_inside_timed_section")
          \cup Flag(R.id # 0 /\ (v.st # "gen" \/ v.owner # t \/ R.kind \in v.counted),
                    "C01:input_not_shown_once_to_counter")
          \cup Flag(R.id = 0 /\ cntN[t][R.kind] + 1 > genN[t],
                    "C01:input_not_shown_once_to_counter")
  /\ UNCHANGED <<sc, lp, Tn, size, round, genN, callN, dropOutN, dropInN,
                 cleared, started, ended, snapped, win, outv, panicSeen, outcome, panicked>>

TrCall ==
  /\ Is("call")
  /\ LET t == R.tid
         v == Get(val, R.in, [st |-> "none", owner |-> -1, counted |-> {}]) IN
     /\ callN' = [callN EXCEPT ![t] = @ + 1]
     /\ val' = IF R.in # 0 /\ R.in \in DOMAIN val
                 THEN Put(val, R.in, [v EXCEPT !.st = IF v.st = "gen" THEN "called" ELSE "called_again"])
                 ELSE val
     /\ outv' = IF R.out # 0
                  THEN Put(outv, R.out, [st |-> "live", owner |-> t, inp |-> R.in])
                  ELSE outv
     /\ bad' = bad
          \cup Flag(R.in # 0 /\ v.st = "none", "C01:call_with_unknown_input")
          \cup Flag(R.in # 0 /\ v.st \in {"called", "called_again"}, "C01:input_passed_to_two_calls")
          \cup Flag(R.in # 0 /\ v.st = "dropped", "C01:input_used_after_drop")
          \cup Flag(R.in # 0 /\ v.st # "none" /\ v.owner # t, "C01:input_used_on_other_thread")
          \cup Flag(R.in # 0 /\ v.st = "gen" /\ ~(InputCounters \subseteq v.counted),
                    "C01:input_not_shown_once_to_counter")
          \cup Flag(HasInputs /\ R.in = 0 /\ callN[t] + 1 > genN[t], "C01:more_calls_than_inputs")
          \cup Flag(IsLocal /\ t # 0, "C01:local_off_caller")
          \cup Flag(lp = "run" /\ t \notin Threads, "C01:foreign_thread")
  /\ UNCHANGED <<sc, lp, Tn, size, round, genN, dropOutN, dropInN, cntN,
                 cleared, started, ended, snapped, win, panicSeen, outcome, panicked>>

TrCallEnd ==
  /\ Is("call_end")
  /\ UNCHANGED <<sc, lp, Tn, size, round, val, outv, panicSeen, outcome, bad>>
  /\ RoundVarsUnchanged

TrAllocOp ==
  /\ Is("alloc_op")
  /\ LET t == R.tid IN
     /\ win' = IF InWindow(t)
                 THEN [win EXCEPT ![t] = Apply(@, R.op, R.size, R.new)]
                 ELSE win
     /\ bad' = bad \cup Flag(InWindow(t) /\ R.site # "call",
                             "C02:foreign_allocation_inside_timed_section")
  /\ UNCHANGED <<sc, lp, Tn, size, round, genN, callN, dropOutN, dropInN, cntN,
                 cleared, started, ended, snapped, val, outv, panicSeen, outcome, panicked>>

TrTallyClear ==
  /\ Is("tally_clear")
  /\ LET t == R.tid IN
     /\ cleared' = [cleared EXCEPT ![t] = TRUE]
     /\ bad' = bad \cup Flag(InWindow(t), "C02:tally_cleared_inside_timed_section")
                   \cup Flag(HasInputs /\ genN[t] < size, "C02:tally_cleared_before_generation_finished")
  /\ UNCHANGED <<sc, lp, Tn, size, round, genN, callN, dropOutN, dropInN, cntN,
                 started, ended, snapped, win, val, outv, panicSeen, outcome, panicked>>

TrTallySnapshot ==
  /\ Is("tally_snapshot")
  /\ LET t == R.tid IN
     /\ snapped' = [snapped EXCEPT ![t] = TRUE]
     /\ bad' = bad
          \cup Flag(~ended[t], "C02:snapshot_before_end_timestamp")
          \cup Flag(Proj(R.info) # win[t], "C02:sample_tally_differs_from_timed_operations")
          \* C08: with several threads, a sample reports only its own thread's operations
          \cup Flag(Tn > 1 /\ Proj(R.info) # win[t], "C08:sample_tally_is_not_that_threads_own_operations")
  /\ UNCHANGED <<sc, lp, Tn, size, round, genN, callN, dropOutN, dropInN, cntN,
                 cleared, started, ended, win, val, outv, panicSeen, outcome, panicked>>

DropCommon(t) ==
  Flag(InWindow(t), "C02:drop_inside_timed_section")
  \cup Flag(InWindow(t), "C01:value_dropped_before_the_end_of_its_timed_section")
  \cup Flag(lp = "run" /\ started[t] /\ \E u \in Threads \ panicked : ~ended[u],
            "C08:drop_before_all_threads_ended")
  \cup Flag(lp = "run" /\ ~started[t], "C01:drop_before_timed_section")

TrDropOut ==
  /\ Is("drop_out")
  /\ LET t == R.tid
         o == Get(outv, R.id, [st |-> "none", owner |-> -1, inp |-> 0]) IN
     /\ dropOutN' = [dropOutN EXCEPT ![t] = @ + 1]
     /\ outv' = IF R.id # 0 /\ R.id \in DOMAIN outv
                  THEN Put(outv, R.id, [o EXCEPT !.st = "dropped"])
                  ELSE outv
     /\ bad' = bad \cup DropCommon(t)
          \cup Flag(R.id # 0 /\ o.st = "none", "C01:drop_of_unknown_output")
          \cup Flag(R.id # 0 /\ o.st = "dropped", "C01:output_dropped_twice")
          \cup Flag(R.id # 0 /\ o.st = "live" /\ o.owner # t, "C01:output_dropped_on_other_thread")
          \cup Flag(R.id = 0 /\ dropOutN[t] + 1 > callN[t], "C01:output_dropped_twice")
  /\ UNCHANGED <<sc, lp, Tn, size, round, genN, callN, dropInN, cntN, cleared,
                 started, ended, snapped, win, val, panicSeen, outcome, panicked>>

OutputOf(id) == {o \in DOMAIN outv : outv[o].inp = id}

TrDropIn ==
  /\ Is("drop_in")
  /\ LET t == R.tid
         v == Get(val, R.id, [st |-> "none", owner |-> -1, counted |-> {}]) IN
     /\ dropInN' = [dropInN EXCEPT ![t] = @ + 1]
     /\ val' = IF R.id # 0 /\ R.id \in DOMAIN val
                 THEN Put(val, R.id, [v EXCEPT !.st = "dropped"])
                 ELSE val
     /\ bad' = bad \cup DropCommon(t)
          \cup Flag(~IsRefs, "C01:moved_input_dropped_by_divan")
          \cup Flag(R.id # 0 /\ v.st = "none", "C01:drop_of_unknown_input")
          \cup Flag(R.id # 0 /\ v.st = "dropped", "C01:input_dropped_twice")
          \cup Flag(R.id # 0 /\ v.st = "gen", "C01:input_dropped_before_its_call")
          \cup Flag(R.id # 0 /\ v.st # "none" /\ v.owner # t, "C01:input_dropped_on_other_thread")
          \cup Flag(R.id # 0 /\ \E o \in OutputOf(R.id) : OutDrop /\ outv[o].st = "live",
                    "C01:input_dropped_before_its_output")
          \cup Flag(sc.out_shape = "zst_drop" /\ dropOutN[t] < dropInN[t] + 1,
                    "C01:input_dropped_before_its_output")
          \cup Flag(R.id = 0 /\ dropInN[t] + 1 > callN[t], "C01:input_dropped_twice")
  /\ UNCHANGED <<sc, lp, Tn, size, round, genN, callN, dropOutN, cntN, cleared,
                 started, ended, snapped, win, outv, panicSeen, outcome, panicked>>

\* Obligations at the end of a round in which nothing panicked.
RoundObligations ==
  IF panicSeen THEN {}
  ELSE
    Flag(\E t \in Threads : callN[t] # size, "C01:calls_per_sample_differ_from_sample_size")
    \cup Flag(HasInputs /\ \E t \in Threads : genN[t] # size, "C01:inputs_per_sample_differ_from_sample_size")
    \cup Flag(\E t \in Threads : ~started[t] \/ ~ended[t], "C02:sample_without_timestamps")
    \cup Flag(\E t \in Threads : \E k \in InputCounters : HasInputs /\ cntN[t][k] # size,
              "C01:input_not_shown_once_to_counter")
    \cup Flag(\E i \in DOMAIN val : val[i].st = "gen", "C01:input_never_benchmarked")
    \cup Flag(IsRefs /\ InDrop /\ \E i \in DOMAIN val : val[i].st = "called",
              "C01:lent_input_never_dropped")
    \cup Flag(OutDrop /\ \E o \in DOMAIN outv : outv[o].st = "live", "C01:output_never_dropped")
    \cup Flag(sc.out_shape = "zst_drop" /\ \E t \in Threads : dropOutN[t] # size,
              "C01:output_never_dropped")
    \cup Flag(IsRefs /\ sc.in_shape = "zst_drop" /\ \E t \in Threads : dropInN[t] # size,
              "C01:lent_input_never_dropped")
    \cup Flag(\E t \in Tid \ Threads : callN[t] # 0 \/ genN[t] # 0, "C01:foreign_thread")

TrRoundEnd ==
  /\ Is("round_end")
  /\ bad' = bad \cup RoundObligations
  /\ round' = round + 1 /\ size' = R.size
  /\ FreshRound
  \* values of finished rounds are settled; forget them (keeps states small)
  /\ val' = <<>> /\ outv' = <<>>
  /\ UNCHANGED <<sc, lp, Tn, panicSeen, outcome>>

TrTestBreak ==
  /\ Is("test_break")
  /\ bad' = bad \cup RoundObligations
  /\ round' = round + 1
  /\ FreshRound
  /\ val' = <<>> /\ outv' = <<>>
  /\ UNCHANGED <<sc, lp, Tn, size, panicSeen, outcome>>

\* A thread on which user code panicked takes no further part in the sample:
\* the ordering clauses of C08 speak about the threads still running it.
TrUserPanic ==
  /\ Is("user_panic") /\ panicSeen' = TRUE
  /\ panicked' = panicked \cup {R.tid}
  /\ UNCHANGED <<sc, lp, Tn, size, round, val, outv, outcome, bad>>
  /\ UNCHANGED <<genN, callN, dropOutN, dropInN, cntN, cleared, started, ended,
                 snapped, win>>

TrBenchReturn ==
  /\ Is("bench_return") /\ lp' = "done"
  /\ bad' = bad
       \cup Flag(panicSeen /\ sc.panic.where \in {"gen", "call"} /\ ~R.panicked,
                 "C08:panic_not_reported_on_caller")
       \cup Flag(~panicSeen /\ R.panicked, "C08:unexpected_panic")
  /\ UNCHANGED <<sc, Tn, size, round, val, outv, panicSeen, outcome>>
  /\ RoundVarsUnchanged

TrBarrier ==
  /\ (Is("barrier_arrive") \/ Is("barrier_leave"))
  /\ UNCHANGED <<sc, lp, Tn, size, round, val, outv, panicSeen, outcome, bad>>
  /\ RoundVarsUnchanged

TrReport ==
  /\ (Is("report") \/ Is("report_failed"))
  /\ UNCHANGED <<sc, lp, Tn, size, round, val, outv, panicSeen, outcome, bad>>
  /\ RoundVarsUnchanged

TrEnd ==
  /\ Is("sched_end")
  /\ outcome' = R.outcome
  /\ bad' = bad
       \cup Flag(R.outcome = "deadlock" /\ panicSeen, "C08:panic_hangs_the_run")
       \cup Flag(R.outcome = "deadlock" /\ ~panicSeen, "C08:run_deadlocked")
  /\ UNCHANGED <<sc, lp, Tn, size, round, val, outv, panicSeen>>
  /\ RoundVarsUnchanged

TrNext ==
  \/ TrReset \/ TrBenchCall \/ TrPrecBegin \/ TrPrecEnd \/ TrInitialStart
  \/ TrLoopBegin \/ TrTsOther \/ TrTsStart \/ TrTsEnd \/ TrGen \/ TrCount
  \/ TrCall \/ TrCallEnd \/ TrAllocOp \/ TrTallyClear \/ TrTallySnapshot
  \/ TrDropOut \/ TrDropIn \/ TrRoundEnd \/ TrTestBreak \/ TrUserPanic
  \/ TrBenchReturn \/ TrBarrier \/ TrReport \/ TrEnd

TrSpec == Init /\ [][TrNext]_vars

Prefixed(p) == {b \in bad : SubSeq(b, 1, 4) = p}
C01Holds == Prefixed("C01:") = {}
C02Holds == Prefixed("C02:") = {}
C08Holds == Prefixed("C08:") = {}

TraceAccepted ==
  LET d == TLCGet("stats").diameter IN
  IF d - 1 = Len(Rec) THEN TRUE
  ELSE /\ PrintT(<<"TRACE-REJECTED at line", d, "of", Len(Rec)>>)
       /\ IF d <= Len(Rec) THEN PrintT(<<"UNMATCHED", ToJson(Rec[d])>>) ELSE TRUE
       /\ FALSE
=============================================================================
