SPECIFICATION TrSpec
CONSTANTS
  MaxNT = 16
  AllowPanic = TRUE
  Guard = TRUE
INVARIANTS
  NoStartBeforeAllGeneratedAndCleared
  NoDropBeforeAllEnded
  OnlyCallsInTimedSection
POSTCONDITION TraceAccepted
CHECK_DEADLOCK FALSE
