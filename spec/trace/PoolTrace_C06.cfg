SPECIFICATION TrSpec
CONSTANTS
  MaxWorkers = 16
  MaxSpurious = 1000
  ParkLoop = TRUE
  CloneFirst = TRUE
INVARIANTS
  OncePerIndex
  ReturnAfterAllCalls
  ReturnHappensAfterCalls
  NoAccessAfterDrop
  SpawnOnlyMissing
  ResultsInIndexOrder
POSTCONDITION TraceAccepted
CHECK_DEADLOCK FALSE
