----------------------------- MODULE LoopTrace -----------------------------
(***************************************************************************)
(* Trace specification for the round loop: every decision the real         *)
(* bench_loop_threaded takes (initial mode, tuning steps, remaining-sample *)
(* arithmetic, elapsed time, continue / stop, stored durations) is         *)
(* recomputed by Loop.tla from the logged clock readings and compared with *)
(* the state the code logged at the end of each round.                     *)
(*   C03  sample_count / sample_size / threads fix the number of calls     *)
(*   C04  min_time / max_time / skip_ext_time bound sampling               *)
(*   C19  automatic sample size                                            *)
(*   C05  (stored duration: overhead subtraction, precision clamping)      *)
(* Broken rules are collected in `bad` (monitor style).                    *)
(***************************************************************************)
EXTENDS Loop, Json, IOUtils

Rec == ndJsonDeserialize(IOEnv.TRACE)

CONSTANT MaxT

VARIABLES
  l, sc,
  phase,     \* "none" | "called" | "prec" | "running" | "returned"
  p, st,     \* parameters and loop state (Loop.tla)
  initStart, \* initial timestamp, -1 if none was taken
  tsStart, tsEnd,   \* readings of the current round: tid -> value
  cnt,       \* tid -> <<alloc, dealloc, realloc>> counts of the timed section
  calls,     \* tid -> calls in this run
  rounds, panicSeen, bad,
  lastSize,  \* sample size of the last executed round
  curCnt,    \* <<tid, kind>> -> sum of the per-input counter values of this round
  expCnt,    \* kind -> per-iteration counter values the stored samples must carry
  snap,      \* tid -> allocation tally read at the end of this round's timed section
  expAl      \* allocation tallies the stored samples must carry, in stored order

vars == <<l, sc, phase, p, st, initStart, tsStart, tsEnd, cnt, calls, rounds,
          panicSeen, bad, lastSize, curCnt, expCnt, snap, expAl>>

Is(e) == l <= Len(Rec) /\ Rec[l].ev = e /\ l' = l + 1
R == Rec[l]
Get(f, o, d) == IF o \in DOMAIN f THEN f[o] ELSE d
Put(f, o, v) == (o :> v) @@ f
Flag(cond, name) == IF cond THEN {name} ELSE {}
Has(rec, f) == f \in DOMAIN rec

P0 == [test |-> FALSE, n |-> 0, sOpt |-> -1, T |-> 1, min |-> 0, max |-> Huge,
       skip |-> FALSE, precision |-> 0, ov |-> <<0, 0, 0, 0>>]
S0 == [mode |-> "none", size |-> 0, rem |-> -1, elapsed |-> 0, nsamples |-> 0]

\* What the options of the scenario say (documented defaults).
OptN(s) == IF Has(s.options, "sample_count") THEN s.options.sample_count ELSE 100
OptS(s) == IF Has(s.options, "sample_size") THEN s.options.sample_size ELSE -1
OptMin(s) == IF Has(s.options, "min_time_ns") THEN s.options.min_time_ns * 1000 ELSE 0
OptMax(s) == IF Has(s.options, "max_time_max") THEN Huge
             ELSE IF Has(s.options, "max_time_ns") THEN s.options.max_time_ns * 1000 ELSE Huge
OptSkip(s) == IF Has(s.options, "skip_ext_time") THEN s.options.skip_ext_time ELSE FALSE
IsLocal(s) == s.entry \in {"bench_local", "bench_local_values", "bench_local_refs"}
OptT(s) == IF IsLocal(s) THEN 1 ELSE s.threads
OptEarly(s) == OptMax(s) = 0 \/ OptN(s) = 0 \/ OptS(s) = 0
IsTest(s) == s.action = "test"

Init ==
  /\ l = 1 /\ sc = [entry |-> "none"] /\ phase = "none" /\ p = P0 /\ st = S0
  /\ initStart = -1 /\ tsStart = <<>> /\ tsEnd = <<>> /\ cnt = <<>>
  /\ calls = <<>> /\ rounds = 0 /\ panicSeen = FALSE /\ bad = {} /\ lastSize = 0 /\ curCnt = <<>> /\ expCnt = [k \in 0..3 |-> <<>>] /\ snap = <<>> /\ expAl = <<>>

TrReset ==
  /\ Is("reset") /\ sc' = R.scenario /\ phase' = "none" /\ p' = P0 /\ st' = S0
  /\ initStart' = -1 /\ tsStart' = <<>> /\ tsEnd' = <<>> /\ cnt' = <<>> /\ snap' = <<>>
  /\ calls' = <<>> /\ rounds' = 0 /\ panicSeen' = FALSE /\ bad' = {} /\ lastSize' = 0 /\ curCnt' = <<>> /\ expCnt' = [k \in 0..3 |-> <<>>] /\ expAl' = <<>>

TrBenchCall ==
  /\ Is("bench_call") /\ phase' = "called"
  /\ UNCHANGED <<sc, p, st, initStart, tsStart, tsEnd, cnt, snap, calls, rounds, panicSeen, bad, lastSize, curCnt, expCnt, expAl>>

TrPrecBegin ==
  /\ Is("precision_begin") /\ phase' = "prec"
  /\ UNCHANGED <<sc, p, st, initStart, tsStart, tsEnd, cnt, snap, calls, rounds, panicSeen, bad, lastSize, curCnt, expCnt, expAl>>
TrPrecEnd ==
  /\ Is("precision_end") /\ phase' = "called"
  /\ UNCHANGED <<sc, p, st, initStart, tsStart, tsEnd, cnt, snap, calls, rounds, panicSeen, bad, lastSize, curCnt, expCnt, expAl>>

\* Timestamps of the precision measurement are not part of the loop.
TrTsPrec ==
  /\ Is("ts") /\ phase = "prec"
  /\ UNCHANGED <<sc, phase, p, st, initStart, tsStart, tsEnd, cnt, snap, calls, rounds, panicSeen, bad, lastSize, curCnt, expCnt, expAl>>

\* The timestamp read before the loop starts is the initial start.
TrTsInitial ==
  /\ Is("ts") /\ phase = "called"
  /\ initStart' = R.value
  /\ bad' = bad \cup Flag(R.kind # "start" \/ R.tid # 0, "C04:initial_timestamp_kind")
  /\ UNCHANGED <<sc, phase, p, st, tsStart, tsEnd, cnt, snap, calls, rounds, panicSeen, lastSize, curCnt, expCnt, expAl>>

TrInitialStart ==
  /\ Is("initial_start")
  /\ bad' = bad
       \cup Flag(R.taken # (initStart # -1), "C04:initial_start_event_mismatch")
       \* elapsed time includes external time unless skip_ext_time is set
       \cup Flag(R.taken = OptSkip(sc), "C04:initial_start_vs_skip_ext_time")
  /\ UNCHANGED <<sc, phase, p, st, initStart, tsStart, tsEnd, cnt, snap, calls, rounds, panicSeen, lastSize, curCnt, expCnt, expAl>>

(* The one-off measurement of divan's own overheads (first benchmark of a   *)
(* process) takes time that is not benchmarking time: it must be over        *)
(* before the initial timestamp is taken ("elapsed time runs from just       *)
(* before the first sample").                                                *)
TrOverheadsMeasured ==
  /\ Is("overheads_measured")
  /\ bad' = bad \cup Flag(R.cost > 0 /\ initStart # -1,
                          "C04:one_off_overhead_measurement_charged_to_the_time_budget")
  /\ UNCHANGED <<sc, phase, p, st, initStart, tsStart, tsEnd, cnt, snap, calls, rounds, panicSeen, lastSize, curCnt, expCnt, expAl>>

TrLoopBegin ==
  /\ Is("loop_begin")
  /\ LET np == [test |-> IsTest(sc), n |-> OptN(sc), sOpt |-> OptS(sc),
                T |-> R.threads, min |-> R.min, max |-> R.max, skip |-> R.skip,
                precision |-> R.precision,
                ov |-> <<R.overheads[1], R.overheads[2], R.overheads[3], R.overheads[4]>>]
         s0 == InitialState(np)
     IN
     /\ p' = np
     /\ st' = [mode |-> R.mode, size |-> R.size, rem |-> R.rem, elapsed |-> 0, nsamples |-> 0]
     /\ bad' = bad
          \cup Flag(OptEarly(sc), "C03:loop_entered_despite_zero_samples_or_budget")
          \cup Flag(R.threads # OptT(sc), "C03:thread_count_not_as_configured")
          \cup Flag(R.mode # s0.mode \/ R.size # s0.size,
                    IF OptS(sc) = -1 /\ ~IsTest(sc) THEN "C19:tuning_does_not_start_at_one"
                    ELSE "C03:initial_mode_or_size")
          \cup Flag(R.rem # s0.rem, "C03:initial_remaining_samples")
          \* while the sample size is being tuned no sample counts against sample_count (C19: the
          \* round that first passes the threshold is the first recorded one)
          \cup Flag(R.rem # s0.rem /\ OptS(sc) = -1 /\ ~IsTest(sc), "C19:tuning_rounds_counted_against_sample_count")
          \cup Flag(R.min # OptMin(sc) \/ R.max # OptMax(sc) \/ R.skip # OptSkip(sc),
                    "C04:time_options_not_as_configured")
  /\ phase' = "running" /\ tsStart' = <<>> /\ tsEnd' = <<>> /\ cnt' = <<>> /\ snap' = <<>>
  /\ UNCHANGED <<sc, initStart, calls, rounds, panicSeen, lastSize, curCnt, expCnt, expAl>>

TrTsRound ==
  /\ Is("ts") /\ phase = "running"
  /\ IF R.kind = "start"
       THEN tsStart' = Put(tsStart, R.tid, R.value) /\ UNCHANGED tsEnd
       ELSE tsEnd' = Put(tsEnd, R.tid, R.value) /\ UNCHANGED tsStart
  \* a thread starts another sample although the round it already sampled in has not been
  \* closed: the elapsed time was not brought up to date and the stop rule not evaluated
  /\ bad' = bad \cup Flag(R.kind = "start" /\ R.tid \in DOMAIN tsStart /\ ~panicSeen,
                          IF st.mode = "tune" THEN "C04:tuning_round_not_charged_to_the_time_budget"
                          ELSE "C04:round_without_stop_test")
  /\ UNCHANGED <<sc, phase, p, st, initStart, cnt, snap, calls, rounds, panicSeen, lastSize, curCnt, expCnt, expAl>>

TrSnapshot ==
  /\ Is("tally_snapshot")
  /\ cnt' = Put(cnt, R.tid, <<R.info.alloc[1], R.info.dealloc[1],
                              R.info.grow[1] + R.info.shrink[1]>>)
  /\ snap' = Put(snap, R.tid, R.info)
  /\ UNCHANGED <<sc, phase, p, st, initStart, tsStart, tsEnd, calls, rounds, panicSeen, bad, lastSize, curCnt, expCnt, expAl>>

TrCall ==
  /\ Is("call")
  /\ calls' = Put(calls, R.tid, Get(calls, R.tid, 0) + 1)
  /\ UNCHANGED <<sc, phase, p, st, initStart, tsStart, tsEnd, cnt, snap, rounds, panicSeen, bad, lastSize, curCnt, expCnt, expAl>>

TrCount ==
  /\ Is("count")
  /\ curCnt' = Put(curCnt, <<R.tid, R.kind>>, Get(curCnt, <<R.tid, R.kind>>, 0) + R.value)
  /\ UNCHANGED <<sc, phase, p, st, initStart, tsStart, tsEnd, cnt, snap, calls, rounds, panicSeen, bad, lastSize, expCnt, expAl>>

(* The last constant counter of kind k given to the Bencher after its input  *)
(* counters, -1 if none.                                                    *)
LateOf(scn, k) ==
  IF ~Has(scn, "late_counters") THEN -1
  ELSE LET idx == {j \in DOMAIN scn.late_counters : scn.late_counters[j][1] = k} IN
       IF idx = {} THEN -1
       ELSE scn.late_counters[CHOOSE j \in idx : \A m \in idx : m <= j][2]

NoInfo == [alloc |-> <<0, 0>>, dealloc |-> <<0, 0>>, grow |-> <<0, 0>>, shrink |-> <<0, 0>>,
           max_count |-> 0, max_size |-> 0, cur_count |-> 0, cur_size |-> 0]
EmptyInfo(i) == i.alloc = <<0, 0>> /\ i.dealloc = <<0, 0>> /\ i.grow = <<0, 0>> /\ i.shrink = <<0, 0>>
SameInfo(a, b) == /\ a.alloc = b.alloc /\ a.dealloc = b.dealloc /\ a.grow = b.grow /\ a.shrink = b.shrink
                  /\ a.max_count = b.max_count /\ a.max_size = b.max_size
(* The allocation data kept for the stored samples (index -> tally, only    *)
(* non-empty tallies need an entry) is that of the samples' own sections.   *)
AllocDataExact(allocs, exp) ==
  /\ \A j \in 1..Len(allocs) :
        \/ allocs[j].index + 1 \in 1..Len(exp) /\ SameInfo(allocs[j].info, exp[allocs[j].index + 1])
        \/ EmptyInfo(allocs[j].info)
  /\ \A i \in 1..Len(exp) :
        EmptyInfo(exp[i]) \/ \E j \in 1..Len(allocs) : allocs[j].index + 1 = i

Threads == 0..(p.T - 1)
HaveReadings == \A t \in Threads : t \in DOMAIN tsStart /\ t \in DOMAIN tsEnd
StartSeq == [i \in 1..p.T |-> tsStart[i - 1]]
EndSeq == [i \in 1..p.T |-> tsEnd[i - 1]]
CntSeq == [i \in 1..p.T |-> Get(cnt, i - 1, <<0, 0, 0>>)]

TrRoundEnd ==
  /\ Is("round_end") /\ phase = "running"
  /\ LET exp == AfterRound(p, st, StartSeq, EndSeq, initStart)
         stored == StoredOfRound(p, st, StartSeq, EndSeq, CntSeq)
         tuning == st.mode = "tune"
     IN
     bad' = bad
       \* a round ran: the loop condition must have held before it
       \cup Flag(~Continue(p, st),
                 IF Geq(st.elapsed, p.max) THEN "C04:round_after_max_time"
                 ELSE "C04:round_after_count_and_min_time_satisfied")
       \cup Flag(~HaveReadings, "C03:thread_without_sample_in_round")
       \cup (IF ~HaveReadings THEN {} ELSE
            Flag(R.mode # exp.mode \/ R.size # exp.size,
                 IF tuning THEN "C19:tuning_step" ELSE "C03:mode_or_size_changed_while_collecting")
            \cup Flag(R.rem # exp.rem,
                 IF tuning THEN "C19:threshold_round_not_counted_as_first_recorded"
                 ELSE "C03:remaining_samples")
            \cup Flag(R.nsamples # exp.nsamples,
                 IF tuning THEN "C19:earlier_samples_not_discarded" ELSE "C03:recorded_samples")
            \cup Flag(R.elapsed # exp.elapsed /\ ~(R.elapsed = Huge /\ exp.elapsed > 2000000000),
                 "C04:elapsed_time")
            \cup Flag(R.stored_size # st.size, "C19:stored_sample_size")
            \cup Flag(Len(R.stored) # p.T \/ \E i \in 1..p.T : i <= Len(R.stored) /\ R.stored[i] # stored[i],
                 "C05:stored_duration")
            \cup Flag(tuning /\ R.nalloc > p.T, "C19:earlier_allocation_data_not_discarded"))
  /\ st' = [mode |-> R.mode, size |-> R.size, rem |-> R.rem, elapsed |-> R.elapsed,
            nsamples |-> R.nsamples]
  /\ rounds' = rounds + 1 /\ tsStart' = <<>> /\ tsEnd' = <<>> /\ cnt' = <<>> /\ snap' = <<>>
  /\ lastSize' = st.size
  \* per-input counters (C05): per-iteration value = sum over the sample's
  \* inputs divided by the sample size; tuning rounds discard earlier data (C19)
  /\ expCnt' = [k \in 0..3 |->
        (IF st.mode = "tune" THEN <<>> ELSE expCnt[k])
        \o [i \in 1..p.T |-> Get(curCnt, <<i - 1, k>>, 0) \div (IF st.size = 0 THEN 1 ELSE st.size)]]
  /\ curCnt' = <<>>
  \* allocation data (C05): each stored sample carries the tally of its own
  \* timed section; tuning rounds discard earlier data (C19)
  /\ expAl' = (IF st.mode = "tune" THEN <<>> ELSE expAl)
               \o [i \in 1..p.T |-> Get(snap, i - 1, NoInfo)]
  /\ UNCHANGED <<sc, phase, p, initStart, calls, panicSeen>>

TrTestBreak ==
  /\ Is("test_break")
  /\ bad' = bad \cup Flag(~p.test, "C03:test_break_in_bench_mode")
                \cup Flag(rounds # 0, "C03:test_mode_more_than_one_round")
  /\ rounds' = rounds + 1 /\ tsStart' = <<>> /\ tsEnd' = <<>> /\ cnt' = <<>> /\ snap' = <<>>
  /\ UNCHANGED <<sc, phase, p, st, initStart, calls, panicSeen, lastSize, curCnt, expCnt, expAl>>

TrUserPanic ==
  /\ Is("user_panic") /\ panicSeen' = TRUE
  /\ UNCHANGED <<sc, phase, p, st, initStart, tsStart, tsEnd, cnt, snap, calls, rounds, bad, lastSize, curCnt, expCnt, expAl>>

AllCalls(k) == \A t \in Threads : Get(calls, t, 0) = k
NoForeignCalls == \A t \in DOMAIN calls : t \in Threads \/ calls[t] = 0
PlainCounted == ~p.test /\ p.sOpt > 0 /\ p.n > 0 /\ p.min = 0 /\ IsHuge(p.max)

TrBenchReturn ==
  /\ Is("bench_return")
  /\ bad' = bad \cup (IF R.panicked \/ panicSeen THEN {} ELSE
       IF phase = "called"
         THEN Flag(~OptEarly(sc), "C03:returned_without_running")
              \cup Flag(\E t \in DOMAIN calls : calls[t] # 0, "C03:called_despite_zero")
       ELSE
         Flag(p.test /\ rounds # 1, "C03:test_mode_not_exactly_one_round")
         \cup Flag(p.test /\ ~AllCalls(1), "C03:test_mode_not_once_per_thread")
         \cup Flag(~p.test /\ Continue(p, st),
                   IF Lt(st.elapsed, p.min) /\ st.rem = 0 THEN "C04:stopped_before_min_time"
                   ELSE "C03:stopped_before_sample_count")
         \* C19: the size doubles every round UNTIL a sample outlasts the threshold; only the
         \* time budget may end a run that is still tuning
         \cup Flag(~p.test /\ st.mode = "tune" /\ Lt(st.elapsed, p.max),
                   "C19:run_ended_while_still_tuning_within_the_time_budget")
         \* declaratively: s*ceil(n/T) calls on each of the T threads
         \cup Flag(PlainCounted /\ ~AllCalls(p.sOpt * CeilDiv(p.n, p.T)), "C03:calls_per_thread")
         \cup Flag(PlainCounted /\ st.nsamples # p.T * CeilDiv(p.n, p.T), "C03:recorded_samples_total")
         \cup Flag(~NoForeignCalls, "C03:call_on_foreign_thread"))
  /\ phase' = "returned"
  /\ UNCHANGED <<sc, p, st, initStart, tsStart, tsEnd, cnt, snap, calls, rounds, panicSeen, lastSize, curCnt, expCnt, expAl>>

TrReport ==
  /\ Is("report")
  /\ bad' = bad \cup (IF panicSeen THEN {} ELSE
       Flag(phase = "returned" /\ st.mode # "none" /\ Len(R.durations) # st.nsamples,
            "C03:stored_samples_differ_from_recorded")
       \cup Flag(IsTest(sc) /\ Len(R.durations) # 0, "C03:test_mode_stores_samples")
       \cup Flag(R.stats_status = "ok" /\ R.stats.sample_count # Len(R.durations),
                 "C03:reported_samples_figure")
       \cup Flag(R.stats_status = "ok" /\ R.stats.iter_count # Len(R.durations) * R.sample_size,
                 "C03:reported_iters_figure")
       \cup (IF phase = "returned" /\ st.mode # "none" /\ ~p.test /\
                \E i \in DOMAIN sc.input_counters :
                   LET k == sc.input_counters[i] IN
                   \* a constant counter of the same kind given to the Bencher afterwards
                   \* "overrides an existing counter of the same type" (Bencher::counter)
                   IF LateOf(sc, k) >= 0 THEN R.counts[k + 1] # <<LateOf(sc, k)>>
                   ELSE R.counts[k + 1] # expCnt[k]
             THEN {"C05:per_input_counter_values_differ_from_the_samples_inputs"}
                  \cup Flag(p.sOpt = -1, "C19:counter_data_of_earlier_rounds_not_discarded")
             ELSE {})
       \cup (IF phase = "returned" /\ st.mode # "none" /\ ~p.test /\ ~AllocDataExact(R.allocs, expAl)
             THEN {"C05:allocation_figures_of_a_sample_are_not_those_of_its_timed_section"}
                  \cup Flag(p.sOpt = -1, "C19:earlier_allocation_data_not_discarded")
             ELSE {})
       \cup Flag(R.stats_status = "ok" /\ st.mode # "none" /\ Len(R.durations) > 0 /\ R.sample_size # lastSize,
                 "C19:reported_sample_size_is_not_the_final_size"))
  /\ UNCHANGED <<sc, phase, p, st, initStart, tsStart, tsEnd, cnt, snap, calls, rounds, panicSeen, lastSize, curCnt, expCnt, expAl>>

TrOther ==
  /\ l <= Len(Rec) /\ Rec[l].ev \in {"report_failed", "sched_end"} /\ l' = l + 1
  /\ UNCHANGED <<sc, phase, p, st, initStart, tsStart, tsEnd, cnt, snap, calls, rounds, panicSeen, bad, lastSize, curCnt, expCnt, expAl>>

TrNext ==
  \/ TrReset \/ TrBenchCall \/ TrPrecBegin \/ TrPrecEnd \/ TrTsPrec \/ TrTsInitial
  \/ TrInitialStart \/ TrOverheadsMeasured \/ TrLoopBegin \/ TrTsRound \/ TrSnapshot \/ TrCall \/ TrCount
  \/ TrRoundEnd \/ TrTestBreak \/ TrUserPanic \/ TrBenchReturn \/ TrReport
  \/ TrOther

TrSpec == Init /\ [][TrNext]_vars

Prefixed(px) == {b \in bad : SubSeq(b, 1, 4) = px}
C03Holds == Prefixed("C03:") = {}
C04Holds == Prefixed("C04:") = {}
C19Holds == Prefixed("C19:") = {}
C05Holds == Prefixed("C05:") = {}

TraceAccepted ==
  LET d == TLCGet("stats").diameter IN
  IF d - 1 = Len(Rec) THEN TRUE
  ELSE /\ PrintT(<<"TRACE-REJECTED at line", d, "of", Len(Rec)>>)
       /\ IF d <= Len(Rec) THEN PrintT(<<"UNMATCHED", ToJson(Rec[d])>>) ELSE TRUE
       /\ FALSE
=============================================================================
