SPECIFICATION TrSpec
CONSTANTS
  MaxT = 16
INVARIANTS
  ListIsHistory
  NoDuplicates
  EveryEntryExactlyOnce
  PerThreadLifo
  ReaderSeesSnapshot
  C12Holds
POSTCONDITION TraceAccepted
CHECK_DEADLOCK FALSE
