SPECIFICATION TrSpec
INVARIANTS
  C15Holds
POSTCONDITION TraceAccepted
CHECK_DEADLOCK FALSE
