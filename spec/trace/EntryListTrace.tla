-------------------------- MODULE EntryListTrace --------------------------
(***************************************************************************)
(* Binds executions of the real `EntryList` (src/entry/list.rs, run under  *)
(* the deterministic scheduler with the instrumented `AtomicPtr`) to       *)
(* EntryList.tla: every logged atomic operation must be the corresponding  *)
(* action of the specification with the logged operands and results, and   *)
(* the specification's invariants are evaluated in every state.  The       *)
(* plan variable of EntryList.tla (who pushes what) is filled in by the     *)
(* `el_setup` event of each run.                                           *)
(***************************************************************************)
EXTENDS Naturals, Sequences, FiniteSets, TLC, Json, IOUtils

CONSTANT MaxT

Rec == ndJsonDeserialize(IOEnv.TRACE)

VARIABLES l, NodesOf, actor, mode, bad,
          next, pc, idx, old, spur, order, rpc, cur, seen, snap

ReaderIds == {100 + t : t \in 0..MaxT}

EL == INSTANCE EntryList WITH ThreadIds <- 1..MaxT, Readers <- ReaderIds,
                              Plans <- {}, MaxSpurious <- 1000000

elvars == <<next, pc, idx, old, spur, order, rpc, cur, seen, snap>>
tvars == <<l, NodesOf, actor, mode, bad, elvars>>

Is(e) == l <= Len(Rec) /\ Rec[l].ev = e /\ l' = l + 1
R == Rec[l]

Put(f, k, v) == [x \in DOMAIN f \cup {k} |-> IF x = k THEN v ELSE f[x]]
NodesIn(no) == UNION {{no[t][i] : i \in 1..Len(no[t])} : t \in DOMAIN no}
Range(s) == {s[i] : i \in 1..Len(s)}

Fresh(no) ==
  /\ NodesOf' = no
  /\ actor' = <<>>
  /\ mode' = [t \in 0..MaxT |-> "idle"]
  /\ next' = [n \in NodesIn(no) \cup {1} |-> 0]
  /\ pc' = [t \in DOMAIN no |-> IF Len(no[t]) = 0 THEN "done" ELSE "load"]
  /\ idx' = [t \in DOMAIN no |-> 1]
  /\ old' = [t \in DOMAIN no |-> 0]
  /\ spur' = 0
  /\ order' = <<>>
  /\ rpc' = [r \in ReaderIds |-> "start"]
  /\ cur' = [r \in ReaderIds |-> 1]
  /\ seen' = [r \in ReaderIds |-> <<>>]
  /\ snap' = [r \in ReaderIds |-> <<>>]

TrInit ==
  /\ l = 1 /\ bad = {} /\ NodesOf = <<>> /\ actor = <<>>
  /\ mode = [t \in 0..MaxT |-> "idle"]
  /\ next = [n \in {1} |-> 0] /\ pc = <<>> /\ idx = <<>> /\ old = <<>>
  /\ spur = 0 /\ order = <<>>
  /\ rpc = [r \in ReaderIds |-> "start"] /\ cur = [r \in ReaderIds |-> 1]
  /\ seen = [r \in ReaderIds |-> <<>>] /\ snap = [r \in ReaderIds |-> <<>>]

TrReset == Is("reset") /\ Fresh(<<>>) /\ bad' = {}
TrSetup == Is("el_setup") /\ Fresh(R.pushers) /\ UNCHANGED bad

Pusher(t) == actor[t]

TrPushBegin ==
  /\ Is("el_push_begin")
  /\ R.as \in DOMAIN NodesOf
  /\ mode[R.tid] = "idle"
  /\ pc[R.as] = "load" /\ EL!Node(R.as) = R.node
  /\ \A t \in DOMAIN actor : mode[t] = "push" => actor[t] # R.as
  /\ actor' = Put(actor, R.tid, R.as)
  /\ mode' = [mode EXCEPT ![R.tid] = "push"]
  /\ UNCHANGED <<NodesOf, bad, elvars>>

TrLoad ==
  /\ Is("aptr_load")
  /\ \/ /\ mode[R.tid] = "push"
        /\ R.at = 1
        /\ EL!Load(Pusher(R.tid))
        /\ old'[Pusher(R.tid)] = R.val
     \/ /\ mode[R.tid] = "read"
        /\ cur[100 + R.tid] = R.at
        /\ R.at # 0
        /\ EL!RStep(100 + R.tid)
        /\ cur'[100 + R.tid] = R.val
  /\ UNCHANGED <<NodesOf, actor, mode, bad>>

TrStore ==
  /\ Is("aptr_store")
  /\ mode[R.tid] = "push"
  /\ LET p == Pusher(R.tid) IN
       /\ pc[p] = "store"
       /\ R.at = EL!Node(p) /\ R.val = old[p]
       /\ EL!StoreNext(p)
  /\ UNCHANGED <<NodesOf, actor, mode, bad>>

TrCas ==
  /\ Is("aptr_cas")
  /\ mode[R.tid] = "push"
  /\ LET p == Pusher(R.tid) IN
       /\ pc[p] = "cas"
       /\ R.at = 1 /\ R.exp = old[p] /\ R.new = EL!Node(p) /\ R.old = next[1]
       /\ \/ R.ok /\ EL!CasOk(p)
          \/ ~R.ok /\ EL!CasFail(p)
          \/ ~R.ok /\ R.weak /\ EL!CasSpurious(p)
  /\ UNCHANGED <<NodesOf, actor, mode, bad>>

TrPushEnd ==
  /\ Is("el_push_end")
  /\ mode[R.tid] = "push" /\ Pusher(R.tid) = R.as
  /\ R.node \in Range(order)
  /\ pc[R.as] \in {"load", "done"}
  /\ mode' = [mode EXCEPT ![R.tid] = "idle"]
  /\ UNCHANGED <<NodesOf, actor, bad, elvars>>

TrIterBegin ==
  /\ Is("el_iter_begin")
  /\ mode[R.tid] = "idle"
  /\ mode' = [mode EXCEPT ![R.tid] = "read"]
  /\ rpc' = [rpc EXCEPT ![100 + R.tid] = "start"]
  /\ cur' = [cur EXCEPT ![100 + R.tid] = 1]
  /\ seen' = [seen EXCEPT ![100 + R.tid] = <<>>]
  /\ snap' = [snap EXCEPT ![100 + R.tid] = <<>>]
  /\ UNCHANGED <<NodesOf, actor, bad, next, pc, idx, old, spur, order>>

(* The iterator returned: its last load saw null, and what it yielded is   *)
(* the entries of the nodes it walked.                                     *)
TrIter ==
  /\ Is("el_iter")
  /\ mode[R.tid] = "read"
  /\ LET r == 100 + R.tid IN
       /\ rpc[r] = "walk" /\ cur[r] = 0
       /\ EL!RStep(r)
       /\ bad' = bad \cup
            (IF R.entries # seen[r]
               THEN {"C12:iteration_does_not_yield_the_entries_of_the_nodes_it_walked"} ELSE {})
  /\ mode' = [mode EXCEPT ![R.tid] = "idle"]
  /\ UNCHANGED <<NodesOf, actor>>

TrDone ==
  /\ Is("el_done")
  /\ \A t \in DOMAIN pc : pc[t] = "done"
  /\ UNCHANGED <<NodesOf, actor, mode, bad, elvars>>

TrNext == TrReset \/ TrSetup \/ TrPushBegin \/ TrLoad \/ TrStore \/ TrCas \/ TrPushEnd
          \/ TrIterBegin \/ TrIter \/ TrDone

TrSpec == TrInit /\ [][TrNext]_tvars

---------------------------------------------------------------------------
ListIsHistory == EL!ListIsHistory
NoDuplicates == EL!NoDuplicates
EveryEntryExactlyOnce == EL!EveryEntryExactlyOnce
PerThreadLifo == EL!PerThreadLifo
ReaderSeesSnapshot == EL!ReaderSeesSnapshot
C12Holds == bad = {}

TraceAccepted ==
  LET d == TLCGet("stats").diameter IN
  IF d - 1 = Len(Rec) THEN TRUE
  ELSE /\ PrintT(<<"TRACE-REJECTED at line", d, "of", Len(Rec)>>)
       /\ IF d <= Len(Rec) THEN PrintT(<<"UNMATCHED", ToJson(Rec[d])>>) ELSE TRUE
       /\ FALSE
=============================================================================
