SPECIFICATION TrSpec
CONSTANTS
  MaxWorkers = 16
  MaxSpurious = 1000
  ParkLoop = TRUE
  CloneFirst = TRUE
INVARIANTS
  NoDeadlockObserved
  NoLeakObserved
  NoAbortObserved
POSTCONDITION TraceAccepted
CHECK_DEADLOCK FALSE
