----------------------------- MODULE StatsTrace -----------------------------
(***************************************************************************)
(* C05: every Stats value computed by the real code (after scripted runs   *)
(* and from injected sample collections) is recomputed by Stats.tla from   *)
(* the logged samples.  A panic inside the statistics code or a non-finite *)
(* figure is a broken rule.                                                *)
(***************************************************************************)
EXTENDS Stats, Json, IOUtils

Rec == ndJsonDeserialize(IOEnv.TRACE)

VARIABLES l, bad, sid
vars == <<l, bad, sid>>

R == Rec[l]
Flag(cond, name) == IF cond THEN {name} ELSE {}
NonFinite == -999999

\* allocation info of sample i (1-based), zero if none was stored
Zero2 == <<0, 0>>
InfoOf(r, i) ==
  LET hits == {k \in DOMAIN r.allocs : r.allocs[k].index = i - 1}
  IN IF hits = {} THEN [grow |-> Zero2, shrink |-> Zero2, alloc |-> Zero2,
                        dealloc |-> Zero2, max_count |-> 0, max_size |-> 0]
     ELSE r.allocs[CHOOSE k \in hits : TRUE].info

OpInfo(info, op) == CASE op = 1 -> info.grow [] op = 2 -> info.shrink
                      [] op = 3 -> info.alloc [] OTHER -> info.dealloc

AllFigures(s) ==
  {s.max_alloc_count[j] : j \in 1..4} \cup {s.max_alloc_size[j] : j \in 1..4}
  \cup UNION {{s.tally_count[op][j] : j \in 1..4} : op \in 1..4}
  \cup UNION {{s.tally_size[op][j] : j \in 1..4} : op \in 1..4}

\* One figure row <<fastest, slowest, median, mean>> against per-sample
\* values f(i), for the choice c of supplying samples.
RowOK(row, f, c, d, size, total) ==
  /\ Close(row[1], f[c[1]], size)
  /\ Close(row[2], f[c[2]], size)
  /\ Close(row[3], IF Odd(d) THEN f[c[3]] ELSE f[c[3]] + f[c[4]], MedianCount(d) * size)
  /\ Close(row[4], SumSeq(f), total)

CounterOK(r, k, c, d) ==
  LET cs == r.counts[k]
      got == r.stats.counts[k]
      perSample == r.input_counted[k]
      present == cs # <<>> /\ (perSample => Len(cs) >= N(d))
      at(i) == IF perSample THEN cs[i] ELSE cs[1]
  IN IF ~present THEN got = <<>>
     ELSE /\ Len(got) = 4
          /\ got[1] = at(c[1])
          /\ got[2] = at(c[2])
          /\ got[3] = (IF Odd(d) THEN at(c[3]) ELSE at(c[3]) + at(c[4])) \div MedianCount(d)
          /\ got[4] = SumSeq(cs) \div Len(cs)

Check(r) ==
  LET d == r.durations
      size == r.sample_size
      n == Len(d)
      total == n * size
  IN
  IF r.stats_status = "none" THEN {}
  ELSE IF r.stats_status = "panic" THEN {"C05:statistics_panicked"}
  ELSE
    LET s == r.stats IN
    Flag(s.sample_count # n, "C05:sample_count")
    \cup Flag(s.iter_count # total, "C05:iter_count")
    \cup Flag(NonFinite \in AllFigures(s), "C05:non_finite_figure")
    \cup Flag(s.time[1] # Fastest(d, size), "C05:fastest")
    \cup Flag(s.time[2] # Slowest(d, size), "C05:slowest")
    \cup Flag(s.time[3] # Median(d, size), "C05:median")
    \cup Flag(s.time[4] # Mean(d, size), "C05:mean")
    \cup Flag(~(s.time[1] <= s.time[3] /\ s.time[3] <= s.time[2]), "C05:fastest_median_slowest_order")
    \cup Flag(~(s.time[1] <= s.time[4] /\ s.time[4] <= s.time[2]), "C05:fastest_mean_slowest_order")
    \cup (IF n = 0 \/ size = 0
          THEN Flag(\E x \in AllFigures(s) : x # 0, "C05:figures_of_empty_collection")
               \cup Flag(\E k \in 1..4 : s.counts[k] # <<>>, "C05:figures_of_empty_collection")
          ELSE
            LET maxCount == [i \in 1..n |-> InfoOf(r, i).max_count]
                maxSize == [i \in 1..n |-> InfoOf(r, i).max_size]
                opCount(op) == [i \in 1..n |-> OpInfo(InfoOf(r, i), op)[1]]
                opSize(op) == [i \in 1..n |-> OpInfo(InfoOf(r, i), op)[2]]
            IN
            \* figures under fastest / slowest / median come from the very
            \* samples that supplied the time: one consistent choice
            Flag(~\E c \in Choices(d) :
                    /\ RowOK(s.max_alloc_count, maxCount, c, d, size, total)
                    /\ RowOK(s.max_alloc_size, maxSize, c, d, size, total)
                    /\ \A op \in 1..4 :
                         /\ RowOK(s.tally_count[op], opCount(op), c, d, size, total)
                         /\ RowOK(s.tally_size[op], opSize(op), c, d, size, total)
                    /\ \A k \in 1..4 : CounterOK(r, k, c, d),
                 "C05:alloc_or_counter_figures_not_of_the_supplying_samples"))

Init == l = 1 /\ bad = {} /\ sid = "none"

TrRecord ==
  /\ l <= Len(Rec) /\ R.ev \in {"report", "stats_rec"}
  /\ bad' = Check(R) /\ l' = l + 1 /\ UNCHANGED sid

TrReset ==
  /\ l <= Len(Rec) /\ R.ev = "reset"
  /\ sid' = R.scenario.id /\ bad' = {} /\ l' = l + 1

TrOther ==
  /\ l <= Len(Rec) /\ R.ev \in {"report_failed", "sched_end"}
  /\ l' = l + 1 /\ UNCHANGED <<bad, sid>>

TrNext == TrRecord \/ TrReset \/ TrOther
TrSpec == Init /\ [][TrNext]_vars

C05Holds == bad = {}

TraceAccepted ==
  LET dd == TLCGet("stats").diameter IN
  IF dd - 1 = Len(Rec) THEN TRUE
  ELSE /\ PrintT(<<"TRACE-REJECTED at line", dd, "of", Len(Rec)>>)
       /\ IF dd <= Len(Rec) THEN PrintT(<<"UNMATCHED", ToJson(Rec[dd])>>) ELSE TRUE
       /\ FALSE
=============================================================================
