SPECIFICATION TrSpec
CONSTANTS
  MaxT = 16
INVARIANTS
  PrimitivesSound
  NoDeadlockObserved
  NoLeakObserved
  NoAbortObserved
POSTCONDITION TraceAccepted
CHECK_DEADLOCK FALSE
