SPECIFICATION TrSpec
INVARIANTS
  C10Holds
POSTCONDITION TraceAccepted
CHECK_DEADLOCK FALSE
