SPECIFICATION TrSpec
CONSTANTS
  MaxT = 16
INVARIANTS
  C12Holds
POSTCONDITION TraceAccepted
CHECK_DEADLOCK FALSE
