SPECIFICATION TrSpec
INVARIANTS
  C11Holds
POSTCONDITION TraceAccepted
CHECK_DEADLOCK FALSE
