SPECIFICATION TrSpec
INVARIANTS
  C05Holds
POSTCONDITION TraceAccepted
CHECK_DEADLOCK FALSE
