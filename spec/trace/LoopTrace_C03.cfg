SPECIFICATION TrSpec
CONSTANTS
  MaxT = 16
INVARIANTS
  C03Holds
POSTCONDITION TraceAccepted
CHECK_DEADLOCK FALSE
