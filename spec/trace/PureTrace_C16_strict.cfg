SPECIFICATION TrSpec
CONSTANTS
  MaxTransitivityN = 80
  Strict = TRUE
INVARIANTS
  SpecHolds
  C16Holds
POSTCONDITION TraceAccepted
CHECK_DEADLOCK FALSE
