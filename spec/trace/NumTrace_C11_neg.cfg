SPECIFICATION TrSpec
INVARIANTS
  EveryRecordFlaggedC11
POSTCONDITION TraceAccepted
CHECK_DEADLOCK FALSE
