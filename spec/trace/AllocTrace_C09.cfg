SPECIFICATION TrSpec
INVARIANTS
  C09Holds
POSTCONDITION TraceAccepted
CHECK_DEADLOCK FALSE
