----------------------------- MODULE AllocTrace -----------------------------
(***************************************************************************)
(* C10: after every allocator operation issued through the real            *)
(* AllocProfiler the thread's tally (read back in-crate) must equal        *)
(* Tally.tla's Apply of the operation to the thread's previous tally;      *)
(* operations of other threads interleave freely and must not change it.   *)
(* C09: per thread, the event language of requests to AllocProfiler and    *)
(* calls reaching the wrapped allocator is (req inner ret)* with equal     *)
(* arguments and equal result, null included.                              *)
(***************************************************************************)
EXTENDS Tally, FiniteSets, TLC, Json, IOUtils

Rec == ndJsonDeserialize(IOEnv.TRACE)

VARIABLES l, tal, fw, bad
\* tal: tid -> tally ; fw: tid -> [st, req]  (forwarding automaton)
vars == <<l, tal, fw, bad>>

R == Rec[l]
Is(e) == l <= Len(Rec) /\ Rec[l].ev = e /\ l' = l + 1
Get(f, o, d) == IF o \in DOMAIN f THEN f[o] ELSE d
Put(f, o, v) == (o :> v) @@ f
Flag(cond, name) == IF cond THEN {name} ELSE {}

Init == l = 1 /\ tal = <<>> /\ fw = <<>> /\ bad = {}

TrReset == Is("reset") /\ tal' = <<>> /\ fw' = <<>> /\ bad' = {}

TrClear ==
  /\ Is("alloc_clear")
  /\ tal' = Put(tal, R.tid, ZeroTally)
  /\ bad' = bad \cup Flag(Proj(R.tally) # ZeroTally, "C10:clear_does_not_zero_the_tally")
  /\ UNCHANGED fw

\* An equal-size reallocation is one operation of 0 bytes, grow or shrink.
Candidates(t, op, size, new) ==
  IF op = "realloc" /\ new = size
    THEN {ApplyRealloc(t, size, new, TRUE), ApplyRealloc(t, size, new, FALSE)}
    ELSE {Apply(t, op, size, new)}

TrStep ==
  /\ Is("alloc_step")
  /\ LET prev == Get(tal, R.tid, ZeroTally)
         got == Proj(R.tally)
     IN /\ bad' = bad \cup Flag(got \notin Candidates(prev, R.op, R.size, R.new),
                                "C10:tally_differs_from_operation_history")
        /\ tal' = Put(tal, R.tid, got)
  /\ UNCHANGED fw

\* A read of the tally without an operation of this thread in between.
TrPeek ==
  /\ Is("alloc_peek")
  /\ bad' = bad \cup Flag(Proj(R.tally) # Get(tal, R.tid, ZeroTally),
                          "C10:tally_changed_by_another_thread")
  /\ UNCHANGED <<tal, fw>>

\* ---------------------------------------------------------------- C09
Idle == [st |-> "idle"]
Args(r) == [op |-> r.op, size |-> r.size, align |-> r.align, new |-> r.new, ptr |-> r.ptr]

TrReq ==
  /\ Is("req")
  /\ bad' = bad \cup Flag(Get(fw, R.tid, Idle).st # "idle", "C09:nested_or_unfinished_request")
  /\ fw' = Put(fw, R.tid, [st |-> "requested", args |-> Args(R)])
  /\ UNCHANGED tal

TrInner ==
  /\ Is("inner")
  /\ LET s == Get(fw, R.tid, Idle) IN
     /\ bad' = bad
          \cup Flag(s.st = "idle", "C09:call_to_wrapped_allocator_without_request")
          \cup Flag(s.st = "forwarded", "C09:more_than_one_call_to_wrapped_allocator")
          \cup Flag(s.st = "requested" /\ s.args # Args(R), "C09:arguments_changed")
     /\ fw' = Put(fw, R.tid, [st |-> "forwarded", args |-> Args(R), result |-> R.result])
  /\ UNCHANGED tal

TrRet ==
  /\ Is("ret")
  /\ LET s == Get(fw, R.tid, Idle) IN
     /\ bad' = bad
          \cup Flag(s.st = "requested", "C09:request_not_forwarded")
          \cup Flag(s.st = "forwarded" /\ s.args.op # "dealloc" /\ s.result # R.result,
                    "C09:result_changed")
          \cup Flag(s.st = "idle", "C09:return_without_request")
     /\ fw' = Put(fw, R.tid, Idle)
  /\ UNCHANGED tal

TrOther ==
  /\ l <= Len(Rec) /\ Rec[l].ev \in {"sched_end", "thread_start", "thread_exit", "spawn", "join"}
  /\ l' = l + 1 /\ UNCHANGED <<tal, fw, bad>>

TrNext == TrReset \/ TrClear \/ TrStep \/ TrPeek \/ TrReq \/ TrInner \/ TrRet \/ TrOther
TrSpec == Init /\ [][TrNext]_vars

Prefixed(px) == {b \in bad : SubSeq(b, 1, 4) = px}
C10Holds == Prefixed("C10:") = {}
C09Holds == Prefixed("C09:") = {}

TraceAccepted ==
  LET d == TLCGet("stats").diameter IN
  IF d - 1 = Len(Rec) THEN TRUE
  ELSE /\ PrintT(<<"TRACE-REJECTED at line", d, "of", Len(Rec)>>)
       /\ IF d <= Len(Rec) THEN PrintT(<<"UNMATCHED", ToJson(Rec[d])>>) ELSE TRUE
       /\ FALSE
=============================================================================
