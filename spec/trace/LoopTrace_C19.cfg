SPECIFICATION TrSpec
CONSTANTS
  MaxT = 16
INVARIANTS
  C19Holds
POSTCONDITION TraceAccepted
CHECK_DEADLOCK FALSE
