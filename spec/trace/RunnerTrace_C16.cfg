SPECIFICATION TrSpec
INVARIANTS
  C16Holds
POSTCONDITION TraceAccepted
CHECK_DEADLOCK FALSE
