SPECIFICATION TrSpec
CONSTANTS
  MaxT = 16
INVARIANTS
  PrimitivesSound
  OncePerIndex
  ReturnAfterAllCalls
  ReturnHappensAfterCalls
  NoAccessAfterDrop
  ResultsInIndexOrder
  SpawnOnlyMissing
POSTCONDITION TraceAccepted
CHECK_DEADLOCK FALSE
