SPECIFICATION TrSpec
CONSTANTS
  MaxTransitivityN = 80
  Strict = FALSE
INVARIANTS
  SpecHolds
  C15Holds
POSTCONDITION TraceAccepted
CHECK_DEADLOCK FALSE
