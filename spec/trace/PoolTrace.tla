----------------------------- MODULE PoolTrace -----------------------------
(***************************************************************************)
(* Trace specification: checks that an execution of the real ThreadPool    *)
(* (recorded by the instrumented std shim under the deterministic          *)
(* scheduler) is a behaviour of Pool.tla, evaluating every invariant of    *)
(* Pool.tla in every state of it.  One ndjson file holds many scenarios    *)
(* separated by `reset` events.                                            *)
(***************************************************************************)
EXTENDS Pool, Json, IOUtils

Rec == ndJsonDeserialize(IOEnv.TRACE)

VARIABLES l,        \* position in Rec
          outcome,  \* what the scheduler reported at the end of a scenario
          slotsBad  \* a broadcast returned results that do not match the calls

tvars == <<vars, l, outcome, slotsBad>>

Is(e) == l <= Len(Rec) /\ Rec[l].ev = e /\ l' = l + 1
R == Rec[l]
Same == UNCHANGED <<outcome, slotsBad>>

TrInit == Init /\ l = 1 /\ outcome = "running" /\ slotsBad = FALSE

TrReset == Is("reset") /\ Reset /\ outcome' = "running" /\ slotsBad' = FALSE

TrEnd ==
  /\ Is("sched_end")
  /\ outcome' = IF R.outcome = "completed" /\ ~AllDone THEN "incomplete"
                ELSE R.outcome
  /\ UNCHANGED <<vars, slotsBad>>

TrThreadStart == Is("thread_start") /\ ThreadStart(R.tid) /\ Same
TrThreadExit  == Is("thread_exit") /\ ThreadExit(R.tid) /\ Same
TrBcastCall   == Is("bcast_call") /\ R.tid = 0 /\ BcastCall(R.n) /\ Same
TrHandleNew   == Is("handle_new") /\ R.tid = 0 /\ HandleNew /\ Same
TrMutexLock   == Is("mutex_lock") /\ R.tid = 0 /\ MutexLock /\ Same
TrChanNew     == Is("chan_new") /\ R.tid = 0 /\ ChanNew /\ Same
TrSpawn       == Is("spawn") /\ R.tid = 0 /\ R.child = spawned + 1 /\ Spawn /\ Same
TrSendOffer   == Is("send_offer") /\ R.tid = 0 /\ R.ok /\ SendOffer /\ Same
TrSendDone    == Is("send_done") /\ R.tid = 0 /\ R.ok /\ SendDone /\ Same
TrMutexUnlock == Is("mutex_unlock") /\ R.tid = 0 /\ MutexUnlock /\ Same
TrTaskBegin   == Is("task_begin") /\ TaskBegin(R.tid, R.index) /\ Same
TrTaskEnd     == Is("task_end") /\ TaskEnd(R.tid, R.index, FALSE) /\ Same
TrTaskPanic   == Is("task_panic") /\ TaskEnd(R.tid, R.index, TRUE) /\ Same
TrLoad        == /\ Is("atomic_load") /\ R.tid = 0
                 /\ R.val = rc          \* the value the code saw is the model's
                 /\ LoadCount(R.ord) /\ Same
TrPark        == Is("park") /\ R.tid = 0 /\ Park(R.spurious) /\ Same
TrHandleDrop  == /\ Is("handle_drop")
                 /\ IF R.tid = 0 THEN HandleDrop0 ELSE HandleDropW(R.tid)
                 /\ Same
TrAtomDrop    == Is("atomic_drop") /\ R.tid = 0 /\ AtomDrop /\ Same
TrBcastReturn == /\ Is("bcast_return") /\ R.tid = 0
                 \* C06: per-index results in index order, an empty entry
                 \* exactly for the calls that panicked.
                 /\ slotsBad' = (slotsBad \/ Len(R.slots) # curN + 1 \/
                      \E i \in 0..curN : i + 1 <= Len(R.slots) /\
                         ~((R.slots[i + 1] = 1) <=> (ended[i] = "ok")))
                 /\ BcastReturn /\ UNCHANGED outcome
TrBcastUnwound == Is("bcast_unwound") /\ R.tid = 0 /\ BcastUnwind /\ Same
TrPoolDrop    == Is("pool_drop") /\ R.tid = 0 /\ PoolDrop /\ Same
TrSenderDrop  == Is("sender_drop") /\ R.tid = 0 /\ SenderDrop /\ Same
TrRecv        == Is("recv") /\ R.tid \in W /\ Recv(R.tid, R.ok) /\ Same
TrHandleClone == Is("handle_clone") /\ R.tid \in W /\ HandleClone(R.tid) /\ Same
TrFetchSub    == /\ Is("atomic_rmw") /\ R.tid \in W
                 /\ R.op = "fetch_sub" /\ R.arg = 1
                 /\ R.old = rc
                 /\ FetchSub(R.tid, R.ord) /\ Same
TrUnpark      == Is("unpark") /\ R.tid \in W /\ R.target = 0 /\ Unpark(R.tid) /\ Same
TrReceiverDrop == Is("receiver_drop") /\ R.tid \in W /\ ReceiverDrop(R.tid) /\ Same

\* An access to the dropped task block is not an action of the model: it is
\* recorded in the monitor and the event consumed, so that the invariant
\* (not a mere rejection) reports it.
TrAccessDropped ==
  /\ Is("access_dropped")
  /\ badAccess' = TRUE
  /\ UNCHANGED <<pc, bidx, curN, spawned, sendi, lockHeld, lockK, chan, chanK,
                 senderLive, rc, rcRel, token, tokenK, handleLive, atomLive,
                 knows, calls, ended, wtask, spur, lateCall, wrongIdx,
                 retEarly, retNoHB, maxN>>
  /\ Same

TrNext ==
  \/ TrReset \/ TrEnd \/ TrThreadStart \/ TrThreadExit \/ TrBcastCall
  \/ TrHandleNew \/ TrMutexLock \/ TrChanNew \/ TrSpawn \/ TrSendOffer
  \/ TrSendDone \/ TrMutexUnlock \/ TrTaskBegin \/ TrTaskEnd \/ TrTaskPanic
  \/ TrLoad \/ TrPark \/ TrHandleDrop \/ TrAtomDrop \/ TrBcastReturn \/ TrBcastUnwound
  \/ TrPoolDrop \/ TrSenderDrop \/ TrRecv \/ TrHandleClone \/ TrFetchSub
  \/ TrUnpark \/ TrReceiverDrop \/ TrAccessDropped

TrSpec == TrInit /\ [][TrNext]_tvars

\* C07: no scenario of the real code ended in a deadlock, with workers still
\* alive after the pool was dropped, or short of the final state.
\* C06: per-index results land in index order, empty exactly for panicked calls.
ResultsInIndexOrder == ~slotsBad

NoDeadlockObserved == outcome # "deadlock"
NoLeakObserved == outcome \notin {"main_done_others_blocked", "incomplete"}
NoAbortObserved == outcome # "aborted"

\* Acceptance: every line was consumed.
TraceAccepted ==
  LET d == TLCGet("stats").diameter IN
  IF d - 1 = Len(Rec) THEN TRUE
  ELSE /\ PrintT(<<"TRACE-REJECTED at line", d, "of", Len(Rec)>>)
       /\ IF d <= Len(Rec) THEN PrintT(<<"UNMATCHED", ToJson(Rec[d])>>) ELSE TRUE
       /\ FALSE
=============================================================================
