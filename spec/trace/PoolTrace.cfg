SPECIFICATION TrSpec
CONSTANTS
  MaxWorkers = 8
  MaxSpurious = 1000
  ParkLoop = TRUE
  CloneFirst = TRUE
INVARIANTS
  OncePerIndex
  ReturnAfterAllCalls
  ReturnHappensAfterCalls
  NoAccessAfterDrop
  SpawnOnlyMissing
  NoDeadlockObserved
  NoLeakObserved
  NoAbortObserved
POSTCONDITION TraceAccepted
CHECK_DEADLOCK FALSE
