SPECIFICATION TrSpec
CONSTANTS
  MaxT = 16
INVARIANTS
  C01Holds
POSTCONDITION TraceAccepted
CHECK_DEADLOCK FALSE
