------------------------- MODULE EntryListL1Trace -------------------------
(***************************************************************************)
(* Layer L1 for the registration list: only calls and results of the       *)
(* public operations (`push` begins / returns, what `iter` yielded), in    *)
(* the vocabulary of C12: every pushed entry is in the list exactly once,  *)
(* nothing else is.  It does not look at the atomic operations, so it      *)
(* still gives a verdict when the code no longer follows EntryList.tla.    *)
(*                                                                         *)
(* Sound for any linearizable implementation: an iteration must yield      *)
(* every entry whose push returned before the iteration began, may yield   *)
(* entries whose push had begun before it ended, nothing else, nothing     *)
(* twice, entries of one pushing thread most recent first and without      *)
(* gaps.                                                                   *)
(***************************************************************************)
EXTENDS Naturals, Sequences, FiniteSets, TLC, Json, IOUtils

CONSTANT MaxT

Rec == ndJsonDeserialize(IOEnv.TRACE)

VARIABLES l, plan, begun, returned, mustSee, lastIter, bad

tvars == <<l, plan, begun, returned, mustSee, lastIter, bad>>

Is(e) == l <= Len(Rec) /\ Rec[l].ev = e /\ l' = l + 1
R == Rec[l]
Range(s) == {s[i] : i \in 1..Len(s)}
AllNodes(p) == UNION {Range(p[t]) : t \in DOMAIN p}

(* Position of node n in its thread's program, 0 if none.                  *)
Owner(n) == CHOOSE t \in DOMAIN plan : n \in Range(plan[t])
Pos(n) == CHOOSE i \in 1..Len(plan[Owner(n)]) : plan[Owner(n)][i] = n

TrInit == l = 1 /\ plan = <<>> /\ begun = {} /\ returned = {} /\ mustSee = <<>>
          /\ lastIter = <<>> /\ bad = {}

Clear == begun' = {} /\ returned' = {} /\ mustSee' = [t \in 0..MaxT |-> {}] /\ lastIter' = <<0>>

TrReset == Is("reset") /\ plan' = <<>> /\ Clear /\ bad' = {}
TrSetup == Is("el_setup") /\ plan' = R.pushers /\ Clear /\ UNCHANGED bad

TrPushBegin ==
  /\ Is("el_push_begin")
  /\ begun' = begun \cup {R.node}
  /\ bad' = bad \cup (IF R.node \notin AllNodes(plan) \/ R.node \in begun
                        THEN {"harness:push_outside_the_plan"} ELSE {})
  /\ UNCHANGED <<plan, returned, mustSee, lastIter>>

TrPushEnd ==
  /\ Is("el_push_end")
  /\ returned' = returned \cup {R.node}
  /\ UNCHANGED <<plan, begun, mustSee, lastIter, bad>>

TrIterBegin ==
  /\ Is("el_iter_begin")
  /\ mustSee' = [mustSee EXCEPT ![R.tid] = returned]
  /\ UNCHANGED <<plan, begun, returned, lastIter, bad>>

OutOfOrder(es) ==
  \E i, j \in 1..Len(es) :
     /\ i < j /\ es[i] \in AllNodes(plan) /\ es[j] \in AllNodes(plan)
     /\ Owner(es[i]) = Owner(es[j]) /\ Pos(es[i]) < Pos(es[j])

Gap(es) ==
  \E n \in Range(es) \cap AllNodes(plan) :
     \E i \in 1..(Pos(n) - 1) : plan[Owner(n)][i] \notin Range(es)

TrIter ==
  /\ Is("el_iter")
  /\ LET es == R.entries IN
       /\ lastIter' = es
       /\ bad' = bad
            \cup (IF ~(mustSee[R.tid] \subseteq Range(es))
                    THEN {"C12:registered_entry_missing_from_the_list"} ELSE {})
            \cup (IF Cardinality(Range(es)) # Len(es)
                    THEN {"C12:entry_listed_more_than_once"} ELSE {})
            \cup (IF ~(Range(es) \subseteq begun)
                    THEN {"C12:list_contains_an_entry_nobody_registered"} ELSE {})
            \cup (IF OutOfOrder(es) \/ Gap(es)
                    THEN {"C12:entries_of_one_thread_out_of_order_or_with_gaps"} ELSE {})
  /\ UNCHANGED <<plan, begun, returned, mustSee>>

(* The run is over: the iteration the main thread made after every push    *)
(* returned lists every planned node exactly once.                         *)
TrDone ==
  /\ Is("el_done")
  /\ bad' = bad \cup
       (IF Range(lastIter) # AllNodes(plan) \/ Len(lastIter) # Cardinality(AllNodes(plan))
          THEN {"C12:final_list_is_not_every_registered_entry_exactly_once"} ELSE {})
  /\ UNCHANGED <<plan, begun, returned, mustSee, lastIter>>

TrNext == TrReset \/ TrSetup \/ TrPushBegin \/ TrPushEnd \/ TrIterBegin \/ TrIter \/ TrDone
TrSpec == TrInit /\ [][TrNext]_tvars

C12Holds == bad = {}

TraceAccepted ==
  LET d == TLCGet("stats").diameter IN
  IF d - 1 = Len(Rec) THEN TRUE
  ELSE /\ PrintT(<<"TRACE-REJECTED at line", d, "of", Len(Rec)>>)
       /\ IF d <= Len(Rec) THEN PrintT(<<"UNMATCHED", ToJson(Rec[d])>>) ELSE TRUE
       /\ FALSE
=============================================================================
