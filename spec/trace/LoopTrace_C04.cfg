SPECIFICATION TrSpec
CONSTANTS
  MaxT = 16
INVARIANTS
  C04Holds
POSTCONDITION TraceAccepted
CHECK_DEADLOCK FALSE
