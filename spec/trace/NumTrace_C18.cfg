SPECIFICATION TrSpec
INVARIANTS
  C18Holds
POSTCONDITION TraceAccepted
CHECK_DEADLOCK FALSE
