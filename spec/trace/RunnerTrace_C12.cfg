SPECIFICATION TrSpec
INVARIANTS
  C12Holds
POSTCONDITION TraceAccepted
CHECK_DEADLOCK FALSE
