---------------------------- MODULE RunnerTrace ----------------------------
(***************************************************************************)
(* One record per execution of the real runner on a generated program      *)
(* (back-end R: harness/runprog; back-end M: generated crates): what was   *)
(* printed (lexed into glyph groups, branch, name, cells), what was        *)
(* invoked (with received argument, effective loop parameters, call        *)
(* counts, statistics), what was listed.  Runner.tla says what should have *)
(* happened; broken rules are collected per property:                      *)
(*   C12  tree independent of registration order, nothing else registered  *)
(*   C13  selection by filters       C14  listing                          *)
(*   C15  option resolution          C16  sibling order                    *)
(*   C17  argument / const / type identity                                 *)
(*   C20  well-formed, faithful tree output                                *)
(***************************************************************************)
EXTENDS Runner, Json, IOUtils

Rec == ndJsonDeserialize(IOEnv.TRACE)

VARIABLES l, bad, rid
vars == <<l, bad, rid>>

Flag(cond, name) == IF cond THEN {name} ELSE {}

(***************************************************************************)
(* The printed tree, parsed back from the lexed lines alone.               *)
(***************************************************************************)
RowIdx(r) == {i \in 1..Len(r.lines) : r.lines[i].t = "row"}
DepthOf(ln) == Len(ln.prefix) + (IF ln.branch = "none" THEN 0 ELSE 1)

\* the closest earlier row at depth d (0 if none)
Anc(r, i, d) ==
  LET S == {j \in RowIdx(r) : j < i /\ DepthOf(r.lines[j]) = d}
  IN IF S = {} THEN 0 ELSE CHOOSE j \in S : \A k \in S : k <= j

RECURSIVE PathTo(_, _, _)
PathTo(r, i, d) ==    \* names of the ancestors at depths 0..d-1, then nothing
  IF d = 0 THEN <<>>
  ELSE LET a == Anc(r, i, d - 1)
       IN IF a = 0 THEN <<>> ELSE PathTo(r, a, d - 1) \o <<r.lines[a].name_cp>>
RowPath(r, i) == PathTo(r, i, DepthOf(r.lines[i])) \o <<r.lines[i].name_cp>>

\* next row after i that is not deeper than depth d (0 if none)
NextUpTo(r, i, d) ==
  LET S == {j \in RowIdx(r) : j > i /\ DepthOf(r.lines[j]) <= d}
  IN IF S = {} THEN 0 ELSE CHOOSE j \in S : \A k \in S : j <= k
HasLaterSibling(r, i) ==
  LET d == DepthOf(r.lines[i]) n == NextUpTo(r, i, d)
  IN n # 0 /\ DepthOf(r.lines[n]) = d

PrevRow(r, i) ==
  LET S == {j \in RowIdx(r) : j < i} IN IF S = {} THEN 0 ELSE CHOOSE j \in S : \A k \in S : k <= j

WellFormed(r) ==
  UNION {
    LET ln == r.lines[i] d == DepthOf(ln) p == PrevRow(r, i) IN
    \* the first row is a root; depth grows by at most one
    Flag(p = 0 /\ d # 0, "C20:first_row_not_at_top_level")
    \cup Flag(p # 0 /\ d > DepthOf(r.lines[p]) + 1, "C20:indentation_skips_a_level")
    \* roots carry no branch glyph, everything else does
    \cup Flag((d = 0) # (ln.branch = "none"), "C20:branch_glyph_vs_depth")
    \* branch for non-last, corner for last children
    \cup Flag(d > 0 /\ ((ln.branch = "tee") # HasLaterSibling(r, i)), "C20:branch_or_corner_does_not_match_position")
    \* a vertical bar exactly under ancestors that have later siblings
    \cup Flag(\E j \in 1..Len(ln.prefix) :
                 LET a == Anc(r, i, j) IN
                 a = 0 \/ ((ln.prefix[j] = "bar") # (r.lines[a].branch = "tee")),
              "C20:vertical_bars_do_not_match_ancestors")
    : i \in RowIdx(r)}
  \* continuation rows belong to the statistics row above them
  \cup Flag(\E i \in 1..Len(r.lines) : r.lines[i].t = "cont" /\
               (i = 1 \/ r.lines[i - 1].t = "empty"), "C20:continuation_row_without_benchmark")
  \* ... and carry that row's glyphs: the same bars under the ancestors and a
  \* bar in the row's own column exactly when the row has later siblings
  \cup Flag(\E i \in 1..Len(r.lines) : r.lines[i].t = "cont" /\
               LET S == {j \in RowIdx(r) : j < i} IN
               S # {} /\
               LET j == CHOOSE x \in S : \A y \in S : y <= x
                   row == r.lines[j]
                   d == DepthOf(row)
                   g == r.lines[i].groups
               IN d >= 1 /\
                  (Len(g) < d
                   \/ (\E k \in 1..Len(row.prefix) : g[k] # row.prefix[k])
                   \/ ((g[d] = "bar") # (row.branch = "tee"))),
             "C20:continuation_row_glyphs_do_not_match_its_benchmark")

ObservedPaths(r) == [i \in RowIdx(r) |-> RowPath(r, i)]

(***************************************************************************)
(* Columns.  Every line that carries cells (column headings, statistics    *)
(* rows, throughput / allocation rows) puts them under the headings: the   *)
(* first cell starts where "fastest" starts (two further right for the     *)
(* figures of an allocation block), and as long as no cell so far          *)
(* was wider than the column the heading line laid out, the separators are *)
(* where the heading line has them.  Positions are counted in characters.  *)
(***************************************************************************)
ColLines(r) == {i \in 1..Len(r.lines) : r.lines[i].t \in {"row", "cont"} /\ Len(r.lines[i].seps) = 5}
Aligned(r) ==
  LET H == ColLines(r) IN
  IF H = {} THEN {} ELSE
  LET h == CHOOSE i \in H : \A j \in H : i <= j
      hd == r.lines[h]
      colW(k) == IF k = 1 THEN hd.seps[1] - hd.c1_at - 1 ELSE hd.seps[k] - hd.seps[k - 1] - 3
      fits(i) == \A k \in 1..5 : Len(r.lines[i].cells_cp[k]) + (IF k = 1 /\ r.lines[i].t = "cont" THEN 2 ELSE 0) <= colW(k)
  IN IF hd.c1_at < 0 THEN {} ELSE
     \* (the figures of an allocation block are indented by two under their label)
     Flag(\E i \in H : r.lines[i].c1_at >= 0 /\ r.lines[i].c1_at # hd.c1_at /\
                        ~(r.lines[i].t = "cont" /\ r.lines[i].c1_at = hd.c1_at + 2),
          "C20:statistics_do_not_start_under_the_first_heading")
     \cup Flag(\E i \in H : (\A j \in H : j <= i => fits(j)) /\ r.lines[i].seps # hd.seps,
               "C20:column_separators_not_under_those_of_the_headings")

(***************************************************************************)
(* Cells.                                                                  *)
(***************************************************************************)
Ignored == <<40, 105, 103, 110, 111, 114, 101, 100, 41>>   \* "(ignored)"
IsNumberCp(c) == c # <<>> /\ \A k \in 1..Len(c) : IsDigit(c[k])
RECURSIVE NumOf(_)
NumOf(c) == IF c = <<>> THEN 0 ELSE 10 * NumOf(SubSeq(c, 1, Len(c) - 1)) + (c[Len(c)] - 48)
CellsEmpty(ln) == \A k \in 1..Len(ln.cells_cp) : ln.cells_cp[k] = <<>>
IsIgnoredRow(ln) == Len(ln.cells_cp) >= 1 /\ ln.cells_cp[1] = Ignored
Headings == <<"fastest", "slowest", "median", "mean", "samples", "iters">>
HeadingsCp == << <<102, 97, 115, 116, 101, 115, 116>>, <<115, 108, 111, 119, 101, 115, 116>>,
                 <<109, 101, 100, 105, 97, 110>>, <<109, 101, 97, 110>>,
                 <<115, 97, 109, 112, 108, 101, 115>>, <<105, 116, 101, 114, 115>> >>

(* The documented formatting of durations and throughputs (C18's reference) *)
(* decides what a cell must read for the statistic of its column.           *)
F == INSTANCE Fmt
CounterUnit == <<"bytes/s", "chars/s", "cycles/s", "items/s">>

(* Continuation rows that follow line i.                                    *)
RECURSIVE ContRowsFrom(_, _)
ContRowsFrom(r, i) ==
  IF i > Len(r.lines) \/ r.lines[i].t # "cont" THEN <<>>
  ELSE <<r.lines[i]>> \o ContRowsFrom(r, i + 1)

NoAllocFigures(st) ==
  /\ \A k \in 1..4 : st.max_alloc_count[k] = 0 /\ st.max_alloc_size[k] = 0
  /\ \A o \in 1..4 : \A k \in 1..4 : st.tally_count[o][k] = 0 /\ st.tally_size[o][k] = 0

(* Allocation data: after the throughput rows, one block for the peak ("max  *)
(* alloc:") and one per kind of operation in the order alloc, dealloc, grow, *)
(* shrink - each a label row, a row of counts and a row of byte sizes -       *)
(* exactly for the blocks that have a non-zero figure.  `txt` is the          *)
(* documented rendering (C18) of every figure, indexed [max, grow, shrink,    *)
(* alloc, dealloc]; a cell must read the figure of its block, row and column. *)
LabelCp(b) ==
  CASE b = 1 -> <<109, 97, 120, 32, 97, 108, 108, 111, 99, 58>>        \* "max alloc:"
    [] b = 4 -> <<97, 108, 108, 111, 99, 58>>                          \* "alloc:"
    [] b = 5 -> <<100, 101, 97, 108, 108, 111, 99, 58>>                \* "dealloc:"
    [] b = 2 -> <<103, 114, 111, 119, 58>>                             \* "grow:"
    [] b = 3 -> <<115, 104, 114, 105, 110, 107, 58>>                   \* "shrink:"
BlockNonZero(st, b) ==
  IF b = 1 THEN \E k \in 1..4 : st.max_alloc_count[k] # 0 \/ st.max_alloc_size[k] # 0
  ELSE \E k \in 1..4 : st.tally_count[b - 1][k] # 0 \/ st.tally_size[b - 1][k] # 0
AllocBlocks(st) == SelectSeq(<<1, 4, 5, 2, 3>>, LAMBDA b : BlockNonZero(st, b))
AllocRowsExact(rows, st, txt) ==
  LET blocks == AllocBlocks(st) IN
  /\ Len(rows) = 3 * Len(blocks)
  /\ \A j \in 1..Len(blocks) :
        LET b == blocks[j]
            lab == rows[3 * j - 2]
            cnt == rows[3 * j - 1]
            siz == rows[3 * j]
        IN /\ Len(lab.cells_cp) = 6 /\ Len(cnt.cells_cp) = 6 /\ Len(siz.cells_cp) = 6
           /\ lab.cells_cp[1] = LabelCp(b) /\ \A k \in 2..6 : lab.cells_cp[k] = <<>>
           /\ \A k \in 1..4 : cnt.cells_cp[k] = txt[b].count[k] /\ siz.cells_cp[k] = txt[b].size[k]
           /\ \A k \in 5..6 : cnt.cells_cp[k] = <<>> /\ siz.cells_cp[k] = <<>>

(* One throughput row per counter kind in force, in the order bytes, chars, *)
(* cycles, items; each cell is the count of its column over the time of its *)
(* column.                                                                  *)
CounterRowsExact(rows, st) ==
  LET kinds == SelectSeq(<<1, 2, 3, 4>>, LAMBDA q : st.counts[q] # <<>>) IN
  /\ Len(rows) = Len(kinds)
  /\ \A j \in 1..Len(kinds) :
        /\ Len(rows[j].cells_cp) = 6
        /\ rows[j].cells_cp[5] = <<>> /\ rows[j].cells_cp[6] = <<>>
        /\ \A k \in 1..4 :
              st.time[k] < 0 \/
              F!AcceptsThroughput(rows[j].cells_cp[k], F!FromInt(st.counts[kinds[j]][k]),
                                  F!FromInt(st.time[k]), CounterUnit[kinds[j]], FALSE)

(***************************************************************************)
(* The check of one run.                                                   *)
(***************************************************************************)
LeafOfPath(P, dp) == {leaf \in Leaves(P) : DispPath(P, leaf) = dp}

(***************************************************************************)
(* Back-end M (generated crates using the real attribute macros): records  *)
(* carry backend = "M"; records of back-end R have no such field.  A body  *)
(* generated for M cannot know an instance number: it logs what it         *)
(* RECEIVED - the function it belongs to (`fn`: index of the benchmark, or *)
(* of the generic function's group), std::any::type_name of its type       *)
(* parameter, the value of its const parameter, its argument.  Which       *)
(* instance that is, is resolved here.                                     *)
(***************************************************************************)
IsM(r) == "backend" \in DOMAIN r /\ r.backend = "M"

InstOf(P, inv) ==
  IF inv.what = "b" THEN inv.fn
  ELSE LET S == {j \in 1..Len(P.ginst) :
                   /\ P.ginst[j].group = inv.fn
                   /\ P.ginst[j].has_type = (inv.type_raw_cp # <<>>)
                   /\ (P.ginst[j].has_type => P.ginst[j].type_raw_cp = inv.type_raw_cp)
                   /\ P.ginst[j].has_const = inv.has_const
                   /\ (inv.has_const => P.ginst[j].const = inv.const)}
       IN IF S = {} THEN -1 ELSE (CHOOSE j \in S : TRUE) - 1
InvId(r, inv) == IF IsM(r) THEN InstOf(r.program, inv) ELSE inv.id

\* the function whose argument list an args_eval event belongs to
EvalKey(r, a) ==
  IF IsM(r) THEN <<a.what, a.fn>>
  ELSE IF a.what = "g" THEN <<"g", r.program.ginst[a.id + 1].group>> ELSE <<"b", a.id>>

\* M: every benchmarked call of a row received what the row's function received
SameReceived(inv, c) ==
  /\ c.what = inv.what /\ c.fn = inv.fn /\ c.type_raw_cp = inv.type_raw_cp
  /\ c.has_const = inv.has_const /\ c.const = inv.const
  /\ c.has_arg = inv.has_arg /\ c.arg_cp = inv.arg_cp

(***************************************************************************)
(* C12 on the registry dump of a compiled program (back-end M).            *)
(***************************************************************************)
RegistryRules(P, reg) ==
  LET db == [k \in 1..Len(reg.benches) |-> DumpedBench(reg.benches[k])]
      wb == [i \in 1..Len(P.benches) |-> WrittenBench(P.benches[i])]
      dg == [k \in 1..Len(reg.groups) |-> DumpedGroup(reg.groups[k])]
      wg == [g \in 1..Len(P.groups) |-> WrittenGroup(P, g)]
      Count(q, v) == Cardinality({k \in DOMAIN q : q[k] = v})
      \* (the internal raw_name may or may not carry the r# of a raw identifier: same identifier)
      SameItem(a, b) == a.meta.mp = b.meta.mp /\ StripRaw(a.meta.raw) = StripRaw(b.meta.raw)
      \* what differs, for the report (only items that are not registered as written)
      Diag(w, d) ==
        Flag(d.meta.disp # w.meta.disp, "C12:display_name_differs_from_what_was_written")
        \cup Flag(d.meta.file # w.meta.file \/ d.meta.line # w.meta.line \/ d.meta.col # w.meta.col,
                  "C12:source_location_differs_from_the_attribute_position")
        \cup Flag(d.meta.opts # w.meta.opts, "C12:option_values_differ_from_what_was_written")
  IN
  \* RegistryEqualsCases: benchmarks
  Flag(\E i \in DOMAIN wb : Count(db, wb[i]) = 0, "C12:written_benchmark_not_registered_as_written")
  \cup Flag(\E i \in DOMAIN wb : Count(db, wb[i]) > 1, "C12:benchmark_registered_more_than_once")
  \cup Flag(\E k \in DOMAIN db : \A i \in DOMAIN wb : db[k] # wb[i], "C12:registered_benchmark_that_was_not_written")
  \cup UNION {UNION {Diag(wb[i], db[k])
                     \cup Flag(db[k].kind # wb[i].kind \/ db[k].cases # wb[i].cases,
                               "C12:argument_cases_differ_from_the_args_list")
                     : k \in {k \in DOMAIN db : SameItem(wb[i], db[k])}}
              : i \in {i \in DOMAIN wb : Count(db, wb[i]) = 0}}
  \* RegistryEqualsCases: groups and generic instances (types x consts)
  \cup Flag(\E g \in DOMAIN wg : MustBeRegistered(P, g) /\ Count(dg, wg[g]) = 0,
            "C12:written_group_or_generic_function_not_registered_as_written")
  \cup Flag(\E g \in DOMAIN wg : Count(dg, wg[g]) > 1, "C12:group_registered_more_than_once")
  \cup Flag(\E k \in DOMAIN dg : \A g \in DOMAIN wg : dg[k] # wg[g], "C12:registered_group_that_was_not_written")
  \cup Flag(\E k \in DOMAIN dg : Cardinality(dg[k].instances) # Len(reg.groups[k].instances),
            "C12:generic_instance_registered_more_than_once")
  \cup UNION {UNION {Diag(wg[g], dg[k])
                     \cup Flag(dg[k].instances # wg[g].instances,
                               "C12:generic_instances_differ_from_types_x_consts")
                     \* EmptyListsRegisterNothing
                     \cup Flag(wg[g].instances = {} /\ dg[k].instances # {},
                               "C12:empty_types_or_consts_list_registered_an_instance")
                     : k \in {k \in DOMAIN dg : SameItem(wg[g], dg[k])}}
              : g \in {g \in DOMAIN wg : Count(dg, wg[g]) = 0}}

CheckRun(r) ==
  LET P == r.program
      C == r.config
      par == r.parallelism
      listing == C.action \in {"list", "list_terse"}
      expected == ExpectedRows(P, C, par)
      obs == ObservedPaths(r)
      \* A row is identified by its display path AND by whether it has rows
      \* below it: a module and a benchmark of the same display name may be
      \* siblings (`mod alpha {..}` next to `fn alpha()`).
      nextRow(i) == LET S == {j \in RowIdx(r) : j > i} IN IF S = {} THEN 0 ELSE CHOOSE j \in S : \A q \in S : j <= q
      obsIsParent(i) == LET n == nextRow(i) IN n # 0 /\ DepthOf(r.lines[n]) = DepthOf(r.lines[i]) + 1
      keyOf(i) == <<obs[i], obsIsParent(i)>>
      expPaths == {<<e[1], e[2] = "parent">> : e \in expected}
      kindOf(k) == (CHOOSE e \in expected : e[1] = k[1] /\ (e[2] = "parent") = k[2])[2]
      obsSet == {keyOf(i) : i \in RowIdx(r)}
      sel == SelectedLeaves(P, C)
      \* a benchmark that is printed with rows below it (argument cases, thread counts)
      leafAsParent(dp) == \E lf \in LeafOfPath(P, dp) :
                            Runs(P, C, lf) /\ C.action # "list" /\ (lf.isArgs \/ Len(ThreadsOf(P, C, lf, par)) > 1)
      \* runnable rows in printed order
      runnable == {i \in RowIdx(r) : keyOf(i) \in expPaths /\ kindOf(keyOf(i)) = "leaf"}
      RECURSIVE Ordered(_)
      Ordered(S) == IF S = {} THEN <<>> ELSE LET m == CHOOSE x \in S : \A y \in S : x <= y IN <<m>> \o Ordered(S \ {m})
      runRows == Ordered(runnable)
      \* the leaf and argument a runnable row stands for
      caseOf(dp) ==
        LET asLeaf == LeafOfPath(P, dp)
            asArg == LeafOfPath(P, Front(dp))
            isT(x) == Len(x) >= 2 /\ x[1] = 116 /\ x[2] = 61
            base == IF isT(Last(dp)) THEN Front(dp) ELSE dp
            leafA == LeafOfPath(P, base)
            leafB == IF Len(base) >= 2 THEN LeafOfPath(P, Front(base)) ELSE {}
        IN IF leafA # {} /\ ~(CHOOSE x \in leafA : TRUE).isArgs
             THEN [leaf |-> CHOOSE x \in leafA : TRUE, hasArg |-> FALSE, arg |-> <<>>,
                   threads |-> IF isT(Last(dp)) THEN NumOf(SubSeq(Last(dp), 3, Len(Last(dp)))) ELSE 0]
             ELSE [leaf |-> CHOOSE x \in leafB : TRUE, hasArg |-> TRUE, arg |-> Last(base),
                   threads |-> IF isT(Last(dp)) THEN NumOf(SubSeq(Last(dp), 3, Len(Last(dp)))) ELSE 0]
  IN
  IF C.action = "list_terse" THEN
    \* ---------------------------------------------------------------- C14
    LET suffix == <<58, 32, 98, 101, 110, 99, 104, 109, 97, 114, 107>>   \* ": benchmark"
        would == UNION {
                   IF ~Runs(P, C, leaf) THEN {}
                   ELSE IF leaf.isArgs THEN {CasePath(P, leaf, k) \o suffix : k \in SelectedArgs(P, C, leaf)}
                   ELSE {JoinAll(DispPath(P, leaf)) \o suffix}
                   : leaf \in sel}
        got == {r.terse[i].text_cp : i \in 1..Len(r.terse)}
    IN Flag(got # would, "C14:terse_listing_differs_from_what_a_test_run_executes")
       \cup Flag(Cardinality(got) # Len(r.terse), "C14:terse_line_repeated")
       \cup Flag(Len(r.invokes) # 0 \/ r.stray_calls # 0, "C14:listing_invoked_a_benchmark")
       \cup Flag(r.panicked \/ ~r.exit_seen, "ALL:runner_panicked")
  ELSE
    Flag(r.panicked \/ ~r.exit_seen, "ALL:runner_panicked")
    \* ---------------------------------------------------------------- C20
    \cup WellFormed(r)
    \cup (IF C.action = "bench" THEN Aligned(r) ELSE {})
    \cup Flag(Cardinality(obsSet) # Cardinality(RowIdx(r)), "C20:row_printed_twice")
    \* C15: duplicate thread counts collapse (after 0 became the available parallelism)
    \cup Flag(\E i, j \in RowIdx(r) : i # j /\ keyOf(i) = keyOf(j) /\ Len(obs[i]) >= 1 /\
                 LET nm == obs[i][Len(obs[i])] IN Len(nm) >= 3 /\ nm[1] = 116 /\ nm[2] = 61,
              "C15:thread_count_branch_repeated")
    \* ------------------------------------------------- C13 (and C20, C12)
    \cup Flag(obsSet \ expPaths # {}, "C13:unselected_or_unknown_node_shown")
    \cup Flag(expPaths \ obsSet # {}, "C13:selected_node_missing")
    \cup Flag(\E i \in RowIdx(r) : keyOf(i) \in expPaths /\
                 (IsIgnoredRow(r.lines[i]) # (kindOf(keyOf(i)) = "ignored")), "C15:ignored_mark")
    \cup Flag(C.action = "bench" /\ \E i \in RowIdx(r) : keyOf(i) \in expPaths /\ kindOf(keyOf(i)) = "parent" /\
                 DepthOf(r.lines[i]) > 0 /\ ~CellsEmpty(r.lines[i]), "C20:cells_on_a_group_row")
    \* the column headings, in the documented order, on every top-level row
    \cup Flag(C.action = "bench" /\ \E i \in RowIdx(r) : keyOf(i) \in expPaths /\ kindOf(keyOf(i)) = "parent" /\
                 DepthOf(r.lines[i]) = 0 /\ r.lines[i].cells_cp # HeadingsCp, "C20:column_headings")
    \* ---------------------------------------------------------------- C16
    \cup Flag(\E i \in RowIdx(r) : HasLaterSibling(r, i) /\ keyOf(i) \in expPaths /\
          LET n == NextUpTo(r, i, DepthOf(r.lines[i]))
              x == obs[i] y == obs[n]
              isT(z) == Len(z) >= 2 /\ z[1] = 116 /\ z[2] = 61
              \* the argument-case rows of a benchmark with args
              argLeaf(z) == IF Len(z) < 2 THEN {}
                            ELSE {q \in LeafOfPath(P, Front(z)) : q.isArgs /\ \E k \in 1..Len(q.args) : q.args[k] = Last(z)}
              sibOf(j) ==
                LET dp == obs[j] lf == LeafOfPath(P, dp) IN
                IF lf # {} /\ (~obsIsParent(j) \/ leafAsParent(dp)) THEN LeafSib(CHOOSE q \in lf : TRUE)
                ELSE \* a module / group: find its raw path through any selected leaf below it
                  LET below == {q \in sel : Len(DispPath(P, q)) > Len(dp) /\ SubSeq(DispPath(P, q), 1, Len(dp)) = dp}
                      q0 == CHOOSE q \in below : TRUE
                  IN ParentSib(P, C, SubSeq(q0.parents, 1, Len(dp)))
          IN keyOf(n) \in expPaths /\
             IF isT(Last(x)) /\ isT(Last(y))
               THEN NumOf(SubSeq(Last(x), 3, Len(Last(x)))) >= NumOf(SubSeq(Last(y), 3, Len(Last(y))))
             ELSE IF LeafOfPath(P, x) = {} /\ argLeaf(x) # {} /\ argLeaf(x) = argLeaf(y)
               THEN \* two argument rows of one benchmark
                 LET lf == CHOOSE q \in argLeaf(x) : TRUE
                     pa == CHOOSE k \in 1..Len(lf.args) : lf.args[k] = Last(x)
                     pb == CHOOSE k \in 1..Len(lf.args) : lf.args[k] = Last(y)
                 IN ~\E c \in ArgNameCmpDirSet(C.sort_key, C.reverse, Last(x), Last(y), pa, pb) : c <= 0
             ELSE ~\E c \in SibCmpSet(C, sibOf(i), sibOf(n)) : c <= 0,
          "C16:siblings_not_in_the_documented_order")
    \* ------------------------------------------ C13 / C14 / C17 / C15: invocations
    \cup Flag(listing /\ (Len(r.invokes) # 0 \/ r.stray_calls # 0), "C14:listing_invoked_a_benchmark")
    \cup Flag(r.stray_calls # 0, "C17:call_outside_an_invocation")
    \cup (IF listing THEN {} ELSE
          Flag(Len(r.invokes) # Len(runRows), "C13:executed_cases_differ_from_selected_cases")
          \cup UNION {
             LET inv == r.invokes[k]
                 dp == obs[runRows[k]]
                 cs == caseOf(dp)
                 leaf == cs.leaf
                 eff == EffectiveOf(P, C, leaf)
                 tcounts == ThreadsOf(P, C, leaf, par)
                 T == IF cs.threads # 0 THEN cs.threads ELSE tcounts[1]
                 n == ValueOr(eff.sample_count, DefaultSampleCount)
                 sSet == IsSet(eff.sample_size)
                 s == ValueOr(eff.sample_size, 1)
                 zero == n = 0 \/ (sSet /\ s = 0) \/ (IsSet(eff.max_time) /\ eff.max_time[1] = 0)
                 timeLimited == IsSet(eff.min_time) \/ IsSet(eff.max_time)
                 bc == leaf.bcounter
                 kindKey(q) == CASE q = 1 -> "bytes" [] q = 2 -> "chars" [] q = 3 -> "cycles" [] OTHER -> "items"
             IN
             \* C17: the row is measured with the argument / const / type it names
             Flag(inv.what # leaf.what \/ InvId(r, inv) # leaf.id, "C17:row_ran_another_benchmark_instance")
             \cup Flag(IsM(r) /\ \E q \in 1..Len(inv.recv) : ~SameReceived(inv, inv.recv[q]),
                       "C17:call_received_another_value_than_its_row")
             \cup Flag(inv.has_arg # cs.hasArg \/ (cs.hasArg /\ inv.arg_cp # cs.arg), "C17:row_ran_with_another_argument")
             \* C15: effective options as seen by the loop
             \cup (IF ~inv.has_loop THEN Flag(~zero, "C15:benchmark_loop_did_not_run")
                   ELSE
                     Flag(zero, "C15:loop_ran_despite_zero_samples_or_budget")
                     \cup Flag(inv.loop.threads # T, "C15:thread_count")
                     \cup Flag(inv.loop.skip # ValueOr(eff.skip_ext_time, DefaultSkipExtTime), "C15:skip_ext_time")
                     \cup Flag(inv.loop.min # ValueOr(eff.min_time, 0), "C15:min_time")
                     \cup Flag(inv.loop.max # ValueOr(eff.max_time, -1), "C15:max_time")
                     \cup Flag(C.action = "bench" /\ sSet /\ (inv.loop.mode # "collect" \/ inv.loop.size # s), "C15:sample_size")
                     \cup Flag(C.action = "bench" /\ ~sSet /\ inv.loop.mode # "tune", "C15:sample_size")
                     \cup Flag(C.action = "bench" /\ sSet /\ inv.loop.rem # n, "C15:sample_count")
                     \cup Flag(C.action = "test" /\ inv.loop.mode # "test", "C15:action"))
             \* call counts: s * T * ceil(n / T), once per thread when testing
             \cup Flag(C.action = "test" /\ ~zero /\ inv.calls # T, "C15:test_mode_call_count")
             \cup Flag(C.action = "bench" /\ ~zero /\ sSet /\ ~timeLimited /\
                       inv.calls # s * T * ((n + T - 1) \div T), "C15:call_count")
             \cup Flag(zero /\ inv.calls # 0, "C15:called_despite_zero")
             \* counters: each kind independently; Bencher::counter replaces its own kind only
             \cup (IF ~inv.has_stats THEN {} ELSE
                   UNION {
                     LET want == IF bc # <<>> /\ bc[1] + 1 = q THEN <<bc[2]>> ELSE eff[kindKey(q)]
                         got == inv.stats.counts[q]
                     IN Flag((got # <<>>) # IsSet(want), "C15:counter_presence")
                        \cup Flag(got # <<>> /\ IsSet(want) /\ got[1] # want[1], "C15:counter_value")
                     : q \in 1..4})
             \* C20: the samples / iters cells show the figures computed for that benchmark
             \cup (IF C.action # "bench" \/ ~inv.has_stats THEN {} ELSE
                   LET ln == r.lines[runRows[k]] IN
                   Flag(Len(ln.cells_cp) # 6, "C20:statistics_row_shape")
                   \* each time cell is the documented text of the statistic of its column
                   \cup Flag(Len(ln.cells_cp) = 6 /\ \E c \in 1..4 : inv.stats.time[c] >= 0 /\
                                ln.cells_cp[c] # F!FormatDur(F!FromInt(inv.stats.time[c])),
                             "C20:time_cell_is_not_the_statistic_of_its_column")
                   \* throughput rows: one per counter kind, computed column by column
                   \cup (LET conts == ContRowsFrom(r, runRows[k] + 1)
                              nk == Cardinality({q \in 1..4 : inv.stats.counts[q] # <<>>})
                          IN Flag(~CounterRowsExact(SubSeq(conts, 1, IF nk <= Len(conts) THEN nk ELSE Len(conts)), inv.stats)
                                  \/ nk > Len(conts),
                                  "C20:throughput_rows_are_not_those_of_the_benchmark_above")
                             \cup Flag(nk <= Len(conts) /\
                                       ~AllocRowsExact(SubSeq(conts, nk + 1, Len(conts)), inv.stats, inv.alloc_text),
                                       "C20:allocation_rows_are_not_those_of_the_benchmark_above"))
                   \cup Flag(Len(ln.cells_cp) = 6 /\ (~IsNumberCp(ln.cells_cp[5]) \/ ~IsNumberCp(ln.cells_cp[6])),
                             "C20:samples_or_iters_cell_not_a_number")
                   \cup Flag(Len(ln.cells_cp) = 6 /\ IsNumberCp(ln.cells_cp[5]) /\ IsNumberCp(ln.cells_cp[6]) /\
                             (NumOf(ln.cells_cp[5]) # inv.stats.sample_count \/ NumOf(ln.cells_cp[6]) # inv.stats.iter_count),
                             "C20:samples_or_iters_cell_differs_from_statistics"))
             : k \in 1..(IF Len(r.invokes) < Len(runRows) THEN Len(r.invokes) ELSE Len(runRows))})
    \* C17: the argument list is evaluated once per process and shared
    \cup Flag(\E i, j \in 1..Len(r.args_evals) : i # j /\
                 EvalKey(r, r.args_evals[i]) = EvalKey(r, r.args_evals[j]),
              "C17:argument_list_evaluated_more_than_once")

\* a run of back-end M that carries the registry dump of its program is also judged on it
Check(r) ==
  CheckRun(r) \cup (IF "registry" \in DOMAIN r THEN RegistryRules(r.program, r.registry) ELSE {})

Init == l = 1 /\ bad = {} /\ rid = "none"
TrRun ==
  /\ l <= Len(Rec) /\ Rec[l].ev = "run"
  /\ bad' = Check(Rec[l]) /\ rid' = Rec[l].id /\ l' = l + 1
\* C12, "for any program": a crate whose items are legal Rust (it compiles with the divan
\* attributes removed) must also compile with them, and then list exactly the written
\* benchmarks (display paths; `written` and `listed` are sorted sequences of code-point strings)
CheckCompile(r) ==
  Flag(r.legal /\ ~r.compiled, "C12:program_of_legal_items_does_not_compile_with_the_attributes")
  \cup Flag(r.legal /\ r.compiled /\ r.listed # r.written, "C12:listed_benchmarks_differ_from_the_written_ones")
TrCompile ==
  /\ l <= Len(Rec) /\ Rec[l].ev = "compile"
  /\ bad' = CheckCompile(Rec[l]) /\ rid' = Rec[l].id /\ l' = l + 1
TrNext == TrRun \/ TrCompile
TrSpec == Init /\ [][TrNext]_vars

Prefixed(px) == {b \in bad : SubSeq(b, 1, 4) = px}
Holds(px) == Prefixed(px) = {} /\ Prefixed("ALL:") = {}
\* C12: the registry equals what was written (C12:), every registered case and nothing else
\* appears in the tree under its display path (C13:, C20:), and each bench_group contributes
\* its options to the benchmarks below it (ignored marks, thread counts, loop parameters: C15:)
C12Holds == Holds("C12:") /\ Prefixed("C13:") = {} /\ Prefixed("C20:") = {} /\ Prefixed("C15:") = {}
C13Holds == Holds("C13:")
C14Holds == Holds("C14:")
C15Holds == Holds("C15:")
C16Holds == Holds("C16:")
C17Holds == Holds("C17:")
C20Holds == Holds("C20:")

TraceAccepted ==
  LET d == TLCGet("stats").diameter IN
  IF d - 1 = Len(Rec) THEN TRUE
  ELSE /\ PrintT(<<"TRACE-REJECTED at line", d, "of", Len(Rec)>>)
       /\ FALSE
=============================================================================
