---------------------------- MODULE PoolL1Trace ----------------------------
(***************************************************************************)
(* Layer L1 for the pool properties: VStd primitive semantics plus         *)
(* monitors phrased in the vocabulary of C06/C07 only.  It accepts any     *)
(* code built from the primitives, so it still yields a verdict when the   *)
(* implementation no longer follows the pc structure of Pool.tla.          *)
(***************************************************************************)
EXTENDS VStd, Json, IOUtils

Rec == ndJsonDeserialize(IOEnv.TRACE)

VARIABLES
  l, outcome,
  bIdx,      \* number of broadcasts started
  bN,        \* aux threads of the open broadcast, -1 if none is open
  calls,     \* index -> number of task_begin events in the open broadcast
  callTid,   \* index -> thread of the call
  ended,     \* index -> "ok" | "panic"
  dropped,   \* the open broadcast's task block was (partly) dropped
  spawnedN, maxN,
  \* monitors
  badAccess, dupCall, wrongThread, strayCall, retEarly, retNoHB, slotsBad,
  overSpawn

mvars == <<bIdx, bN, calls, callTid, ended, dropped, spawnedN, maxN, badAccess,
           dupCall, wrongThread, strayCall, retEarly, retNoHB, slotsBad,
           overSpawn>>
tvars == <<vvars, mvars, l, outcome>>

Is(e) == l <= Len(Rec) /\ Rec[l].ev = e /\ l' = l + 1
R == Rec[l]
GhostEv(b, i) == <<b, i>>

MInit ==
  /\ bIdx = 0 /\ bN = -1 /\ calls = <<>> /\ callTid = <<>> /\ ended = <<>>
  /\ dropped = FALSE /\ spawnedN = 0 /\ maxN = 0
  /\ badAccess = FALSE /\ dupCall = FALSE /\ wrongThread = FALSE
  /\ strayCall = FALSE /\ retEarly = FALSE /\ retNoHB = FALSE
  /\ slotsBad = FALSE /\ overSpawn = FALSE

MReset ==
  /\ bIdx' = 0 /\ bN' = -1 /\ calls' = <<>> /\ callTid' = <<>> /\ ended' = <<>>
  /\ dropped' = FALSE /\ spawnedN' = 0 /\ maxN' = 0
  /\ badAccess' = FALSE /\ dupCall' = FALSE /\ wrongThread' = FALSE
  /\ strayCall' = FALSE /\ retEarly' = FALSE /\ retNoHB' = FALSE
  /\ slotsBad' = FALSE /\ overSpawn' = FALSE

TrInit == VInit /\ MInit /\ l = 1 /\ outcome = "running"
TrReset == Is("reset") /\ VReset /\ MReset /\ outcome' = "running"
TrEnd == Is("sched_end") /\ outcome' = R.outcome /\ UNCHANGED <<vvars, mvars>>

Keep == UNCHANGED outcome

TrBcastCall ==
  /\ Is("bcast_call") /\ VNone /\ Keep
  /\ bIdx' = bIdx + 1 /\ bN' = R.n
  /\ maxN' = IF R.n > maxN THEN R.n ELSE maxN
  /\ calls' = <<>> /\ callTid' = <<>> /\ ended' = <<>> /\ dropped' = FALSE
  /\ UNCHANGED <<spawnedN, badAccess, dupCall, wrongThread, strayCall,
                 retEarly, retNoHB, slotsBad, overSpawn>>

TrTaskBegin ==
  /\ Is("task_begin") /\ VNone /\ Keep
  /\ calls' = Put(calls, R.index, Get(calls, R.index, 0) + 1)
  /\ callTid' = Put(callTid, R.index, R.tid)
  /\ dupCall' = (dupCall \/ Get(calls, R.index, 0) >= 1)
  /\ strayCall' = (strayCall \/ bN = -1 \/ R.index > bN \/ R.index < 0)
  /\ wrongThread' = (wrongThread
                     \/ (R.index = 0) # (R.tid = 0)
                     \/ \E j \in DOMAIN callTid : j # R.index /\ callTid[j] = R.tid)
  /\ badAccess' = (badAccess \/ dropped)
  /\ UNCHANGED <<bIdx, bN, ended, dropped, spawnedN, maxN, retEarly, retNoHB,
                 slotsBad, overSpawn>>

TaskDone(kind) ==
  /\ VGhost(R.tid, GhostEv(bIdx, R.index)) /\ Keep
  /\ ended' = Put(ended, R.index, kind)
  /\ UNCHANGED <<bIdx, bN, calls, callTid, dropped, spawnedN, maxN, badAccess,
                 dupCall, wrongThread, strayCall, retEarly, retNoHB, slotsBad,
                 overSpawn>>
TrTaskEnd == Is("task_end") /\ TaskDone("ok")
TrTaskPanic == Is("task_panic") /\ TaskDone("panic")

TrBcastReturn ==
  /\ Is("bcast_return") /\ VNone /\ Keep
  /\ retEarly' = (retEarly \/ \E i \in 0..bN : i \notin DOMAIN ended)
  /\ retNoHB' = (retNoHB \/ \E i \in 0..bN : GhostEv(bIdx, i) \notin knows[0])
  /\ slotsBad' = (slotsBad \/ Len(R.slots) # bN + 1 \/
                  \E i \in 0..bN : i + 1 <= Len(R.slots) /\
                     ~((R.slots[i + 1] = 1) <=> (Get(ended, i, "none") = "ok")))
  /\ bN' = -1
  /\ overSpawn' = (overSpawn \/ spawnedN # maxN)
  /\ UNCHANGED <<bIdx, calls, callTid, ended, dropped, spawnedN, maxN,
                 badAccess, dupCall, wrongThread, strayCall>>

\* The broadcast unwound instead of returning (a panicking panic payload):
\* the same obligations as for a return, except the result slots.
TrBcastUnwound ==
  /\ Is("bcast_unwound") /\ VNone /\ Keep
  /\ retEarly' = (retEarly \/ \E i \in 0..bN : i \notin DOMAIN ended)
  /\ retNoHB' = (retNoHB \/ \E i \in 0..bN : GhostEv(bIdx, i) \notin knows[0])
  /\ bN' = -1
  /\ UNCHANGED <<bIdx, calls, callTid, ended, dropped, spawnedN, maxN,
                 badAccess, dupCall, wrongThread, strayCall, slotsBad, overSpawn>>

\* The task block of the open broadcast starts to be dropped.
TrBlockDrop ==
  /\ (Is("atomic_drop") \/ (Is("handle_drop") /\ R.tid = 0))
  /\ VNone /\ Keep
  /\ dropped' = TRUE
  /\ UNCHANGED <<bIdx, bN, calls, callTid, ended, spawnedN, maxN, badAccess,
                 dupCall, wrongThread, strayCall, retEarly, retNoHB, slotsBad,
                 overSpawn>>

TrAccessDropped ==
  /\ Is("access_dropped") /\ VNone /\ Keep
  /\ badAccess' = TRUE
  /\ UNCHANGED <<bIdx, bN, calls, callTid, ended, dropped, spawnedN, maxN,
                 dupCall, wrongThread, strayCall, retEarly, retNoHB, slotsBad,
                 overSpawn>>

TrSpawn ==
  /\ Is("spawn") /\ VSpawn(R.tid, R.child) /\ Keep
  /\ spawnedN' = spawnedN + 1
  /\ UNCHANGED <<bIdx, bN, calls, callTid, ended, dropped, maxN, badAccess,
                 dupCall, wrongThread, strayCall, retEarly, retNoHB, slotsBad,
                 overSpawn>>

M == UNCHANGED mvars /\ Keep
TrAtomLoad  == Is("atomic_load") /\ VAtomLoad(R.tid, R.o, R.ord) /\ M
TrAtomRmw   == Is("atomic_rmw") /\ VAtomRmw(R.tid, R.o, R.ord) /\ M
TrAtomStore == Is("atomic_store") /\ VAtomStore(R.tid, R.o, R.ord) /\ M
TrLock      == Is("mutex_lock") /\ VLock(R.tid, R.o) /\ M
TrUnlock    == Is("mutex_unlock") /\ VUnlock(R.tid, R.o) /\ M
TrSendOffer == Is("send_offer") /\ VSendOffer(R.tid, R.o, R.ok) /\ M
TrSendDone  == Is("send_done") /\ VSendDone(R.tid, R.o, R.ok) /\ M
TrRecv      == Is("recv") /\ VRecv(R.tid, R.o, R.ok) /\ M
TrUnpark    == Is("unpark") /\ VUnpark(R.tid, R.target) /\ M
TrPark      == Is("park") /\ VPark(R.tid, R.spurious) /\ M
TrBarArrive == Is("barrier_arrive") /\ VBarArrive(R.tid, R.o, R.n, R.gen, R.arrived) /\ M
TrBarLeave  == Is("barrier_leave") /\ VBarLeave(R.tid, R.o, R.gen) /\ M

\* Events without a meaning at this layer (logged state, no action).
Silent == {"thread_start", "thread_exit", "handle_new", "handle_clone",
           "chan_new", "sender_drop", "receiver_drop", "pool_drop", "join",
           "abort"}
TrSilent ==
  /\ l <= Len(Rec) /\ Rec[l].ev \in Silent /\ l' = l + 1
  /\ VNone /\ M
TrWorkerHandleDrop == Is("handle_drop") /\ R.tid # 0 /\ VNone /\ M

TrNext ==
  \/ TrReset \/ TrEnd \/ TrBcastCall \/ TrTaskBegin \/ TrTaskEnd \/ TrTaskPanic
  \/ TrBcastReturn \/ TrBcastUnwound \/ TrBlockDrop \/ TrAccessDropped \/ TrSpawn \/ TrAtomLoad
  \/ TrAtomRmw \/ TrAtomStore \/ TrLock \/ TrUnlock \/ TrSendOffer
  \/ TrSendDone \/ TrRecv \/ TrUnpark \/ TrPark \/ TrBarArrive \/ TrBarLeave
  \/ TrSilent \/ TrWorkerHandleDrop

TrSpec == TrInit /\ [][TrNext]_tvars

\* ---- C06
OncePerIndex == ~dupCall /\ ~strayCall /\ ~wrongThread
ReturnAfterAllCalls == ~retEarly
ReturnHappensAfterCalls == ~retNoHB
NoAccessAfterDrop == ~badAccess
ResultsInIndexOrder == ~slotsBad
SpawnOnlyMissing == ~overSpawn
\* ---- C07
NoDeadlockObserved == outcome # "deadlock"
NoLeakObserved == outcome # "main_done_others_blocked"
NoAbortObserved == outcome # "aborted"

TraceAccepted ==
  LET d == TLCGet("stats").diameter IN
  IF d - 1 = Len(Rec) THEN TRUE
  ELSE /\ PrintT(<<"TRACE-REJECTED at line", d, "of", Len(Rec)>>)
       /\ IF d <= Len(Rec) THEN PrintT(<<"UNMATCHED", ToJson(Rec[d])>>) ELSE TRUE
       /\ FALSE
=============================================================================
