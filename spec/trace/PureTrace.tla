----------------------------- MODULE PureTrace -----------------------------
(***************************************************************************)
(* Monitor for the pure-function level of C13 (filters), C15 (option       *)
(* resolution) and C16 (sort orders).  Every record of the trace is ONE    *)
(* call of a crate-private function of the real code, logged by the driver *)
(* (harness/driver/src/pure.rs) as {inputs..., out}; the specification     *)
(* operators of Names.tla / Filters.tla / Options.tla are the judge.       *)
(*                                                                         *)
(*  op            inputs                              compared             *)
(*  cmp_nat       a, a_cp, b, b_cp                    out (sign)           *)
(*  cmp_arg       attr, names, names_cp, i, j         out (sign)           *)
(*  cmp_grid      attr | "natural", names, names_cp   out (n x n signs)    *)
(*  sort_args     attr, reverse, names, names_cp      perm | panic, and    *)
(*                                                    perm_opposite        *)
(*  is_match      calls [{inclusive, kind, text,      out                  *)
(*                text_cp, ast}], path, path_cp                            *)
(*  overwrite     self, other                         out                  *)
(*  resolve       levels [runner, bench, groups...]   out                  *)
(*  should_run    run_ignored, ignore                 out                  *)
(*  classify      s, s_cp                             what std's parsers   *)
(*                                                    accept (calibration  *)
(*                                                    of Names!Num)        *)
(* Indices i, j and perm are 0-based as the code sees them.  Options are   *)
(* records of [] (unset) / [v] (set).                                      *)
(*                                                                         *)
(* Broken rules are collected as strings in `bad` (reset by every record,  *)
(* each record being a run of its own); `witness` names the offending      *)
(* pair / field for the report.                                            *)
(***************************************************************************)
EXTENDS Names, Options, Filters, Json, IOUtils, TLC

Rec == ndJsonDeserialize(IOEnv.TRACE)

CONSTANTS MaxTransitivityN,  \* largest list on which all triples are examined
          Strict             \* TRUE: accept only the canonical result (used to
                             \* chart where the code uses a freedom the
                             \* statement leaves; never for verdicts)

VARIABLES l, bad, witness
vars == <<l, bad, witness>>

Has(rec, f) == f \in DOMAIN rec
Flag(cond, name) == IF cond THEN {name} ELSE {}
Verdict(b, w) == [bad |-> b, w |-> IF b = {} THEN <<>> ELSE w]
Plus1(s) == [k \in 1..Len(s) |-> s[k] + 1]
Reversed(s) == [k \in 1..Len(s) |-> s[Len(s) + 1 - k]]

\* ---------------------------------------------------------------- C16
JudgeCmpNat(r) ==
  IF Has(r, "panic") THEN Verdict({"C16:natural_cmp_panicked"}, <<r.panic>>) ELSE
  LET S == NaturalCmpSet(r.a_cp, r.b_cp)
  IN Verdict(Flag(r.out \notin S, "C16:natural_cmp_differs_from_documented_order"),
             <<"permitted", S, "got", r.out>>)

JudgeCmpArg(r) ==
  IF Has(r, "panic") THEN Verdict({"C16:arg_comparator_panicked"}, <<r.panic>>) ELSE
  LET S == ArgNameCmpSet(r.attr, r.names_cp[r.i + 1], r.names_cp[r.j + 1], r.i + 1, r.j + 1)
  IN Verdict(Flag(r.out \notin S, "C16:arg_order_differs_from_documented_order"),
             <<"i", r.i, "j", r.j, "permitted", S, "got", r.out>>)

GridSet(r, i, j) ==
  IF Strict
    THEN {IF r.attr = "natural" THEN NaturalCmp(r.names_cp[i], r.names_cp[j])
          ELSE ArgNameCmp(r.attr, r.names_cp[i], r.names_cp[j], i, j)}
  ELSE IF r.attr = "natural" THEN NaturalCmpSet(r.names_cp[i], r.names_cp[j])
  ELSE ArgNameCmpSet(r.attr, r.names_cp[i], r.names_cp[j], i, j)

\* Is the documented relation a total preorder on the list of this record?
GridSpecTotal(r) ==
  IF r.attr = "natural" THEN TRUE ELSE ArgOrderIsTotalOn(r.attr, r.names_cp)

JudgeCmpGrid(r) ==
  IF Has(r, "panic") THEN Verdict({"C16:arg_comparator_panicked"}, <<r.panic>>) ELSE
  LET n == Len(r.names_cp)
      M == r.out
      wrong == {p \in (1..n) \X (1..n) : M[p[1]][p[2]] \notin GridSet(r, p[1], p[2])}
      w == CHOOSE p \in wrong : \A q \in wrong : p[1] < q[1] \/ (p[1] = q[1] /\ p[2] <= q[2])
      small == n <= MaxTransitivityN
      cyc == {t \in (1..n) \X (1..n) \X (1..n) :
                M[t[1]][t[2]] <= 0 /\ M[t[2]][t[3]] <= 0 /\ M[t[1]][t[3]] > 0}
      asym == {p \in (1..n) \X (1..n) : M[p[1]][p[2]] # 0 - M[p[2]][p[1]]}
  IN Verdict(
       Flag(wrong # {}, IF r.attr = "natural" THEN "C16:natural_cmp_differs_from_documented_order"
                        ELSE "C16:arg_order_differs_from_documented_order")
       \* the real comparator itself must be a consistent total order
       \* wherever the documented one is
       \cup Flag(\E i \in 1..n : M[i][i] # 0, "C16:comparator_not_reflexive")
       \cup Flag(asym # {}, "C16:comparator_not_antisymmetric")
       \cup Flag(small /\ asym = {} /\ cyc # {} /\ GridSpecTotal(r), "C16:comparator_not_transitive"),
       IF wrong # {}
         THEN <<"i", w[1] - 1, "j", w[2] - 1, "permitted", GridSet(r, w[1], w[2]), "got", M[w[1]][w[2]],
                "pairs_wrong", Cardinality(wrong),
                "all_wrong_1based", IF Cardinality(wrong) <= 60 THEN wrong ELSE {}>>
       ELSE IF asym # {} THEN <<"asymmetric_pair_1based", CHOOSE p \in asym : TRUE>>
       ELSE IF small /\ cyc # {} THEN <<"cycle_1based", CHOOSE t \in cyc : TRUE>>
       ELSE <<>>)

JudgeSortArgs(r) ==
  LET n == Len(r.names_cp)
      total == ArgOrderIsTotalOn(r.attr, r.names_cp)
      okA == Has(r, "perm") /\ IsPermutationOf(Plus1(r.perm), n)
      okB == Has(r, "perm_opposite") /\ IsPermutationOf(Plus1(r.perm_opposite), n)
      pa == Plus1(r.perm)
      pb == Plus1(r.perm_opposite)
      unsortedAt(p, rev) ==
        {k \in 1..(n - 1) :
           \A c \in ArgNameCmpDirSet(r.attr, rev, r.names_cp[p[k]], r.names_cp[p[k + 1]], p[k], p[k + 1]) :
             c > 0}
  IN Verdict(
       \* it never panics
       Flag(Has(r, "panic") \/ Has(r, "panic_opposite"), "C16:sort_panicked")
       \* sorting only permutes
       \cup Flag(Has(r, "perm") /\ ~okA, "C16:sort_lost_or_duplicated_an_argument")
       \cup Flag(Has(r, "perm_opposite") /\ ~okB, "C16:sort_lost_or_duplicated_an_argument")
       \* ascending in the documented order (ties in any order); demanded
       \* where the documented relation orders the list at all
       \cup Flag(total /\ okA /\ unsortedAt(pa, r.reverse) # {}, "C16:arguments_not_in_documented_order")
       \cup Flag(total /\ okB /\ unsortedAt(pb, ~r.reverse) # {}, "C16:arguments_not_in_documented_order")
       \* --sortr shows exactly the reverse
       \cup Flag(total /\ okA /\ okB /\ pb # Reversed(pa), "C16:reverse_is_not_the_exact_reverse"),
       <<"documented_order_total_on_list", total,
         "first_unsorted_adjacent_pair_at",
           IF total /\ okA /\ unsortedAt(pa, r.reverse) # {}
             THEN (CHOOSE k \in unsortedAt(pa, r.reverse) : \A k2 \in unsortedAt(pa, r.reverse) : k <= k2) - 1
             ELSE -1>>)

\* ---------------------------------------------------------------- C13
JudgeIsMatch(r) ==
  IF Has(r, "panic") THEN Verdict({"C13:filter_set_panicked"}, <<r.panic>>) ELSE
  IF Has(r, "regex_error") THEN Verdict({"SPEC:pattern_rejected_by_the_regex_engine"}, <<r.regex_error>>) ELSE
  LET fs == r.calls
      s == r.path_cp
      exp == IsMatch(fs, s)
      skipHit == \E i \in 1..Len(fs) : ~fs[i].inclusive /\ FilterMatches(fs[i], s)
  IN Verdict(
       Flag(r.out /\ ~exp /\ skipHit, "C13:selected_despite_matching_skip_filter")
       \cup Flag(r.out /\ ~exp /\ ~skipHit, "C13:selected_without_matching_positive_filter")
       \cup Flag(~r.out /\ exp, "C13:not_selected_although_the_filters_pass"),
       <<"expected", exp, "got", r.out,
         "filters_matching_1based", {i \in 1..Len(fs) : FilterMatches(fs[i], s)}>>)

\* ---------------------------------------------------------------- C15
SameOption(x, y) == Len(x) = Len(y) /\ (Len(x) = 1 => x[1] = y[1])
WrongKeys(got, exp) == {k \in OptKeys : ~(k \in DOMAIN got /\ SameOption(got[k], exp[k]))}

JudgeOverwrite(r) ==
  IF Has(r, "panic") THEN Verdict({"C15:overwrite_panicked"}, <<r.panic>>) ELSE
  LET exp == Overwrite(r.self, r.other)
      wrong == WrongKeys(r.out, exp)
  IN Verdict({"C15:overwrite_wrong_" \o k : k \in wrong}
             \cup Flag(~IsOptions(r.self) \/ ~IsOptions(r.other), "SPEC:malformed_options_record"),
             <<"fields", wrong>>)

JudgeResolve(r) ==
  IF Has(r, "panic") THEN Verdict({"C15:overwrite_panicked"}, <<r.panic>>) ELSE
  LET L == r.levels
      exp == Effective(L[1], IF Len(L) >= 2 THEN L[2] ELSE NoOptions, SubSeq(L, 3, Len(L)))
      wrong == WrongKeys(r.out, exp)
  IN Verdict({"C15:resolved_wrong_" \o k : k \in wrong}, <<"fields", wrong>>)

JudgeShouldRun(r) ==
  IF Has(r, "panic") THEN Verdict({"C15:ignore_rule_panicked"}, <<r.panic>>) ELSE
  Verdict(Flag(r.out # ShouldRun(r.run_ignored, r.ignore), "C15:ignore_rule"),
          <<"expected", ShouldRun(r.run_ignored, r.ignore)>>)

\* ------------------------------------------------- calibration of Names!Num
JudgeClassify(r) ==
  LET x == Num(r.s_cp)
  IN Verdict(
       Flag((r.u128 \/ r.i128) # (x.k = "int"), "SPEC:integer_reading_differs_from_str_parse")
       \cup Flag(r.f64 # (x.k # "other"), "SPEC:decimal_reading_differs_from_f64_from_str")
       \cup Flag(r.nan /\ x.k # "unp", "SPEC:nan_not_recognised")
       \cup Flag(x.k = "dec" /\ x.inf /\ ~r.inf, "SPEC:infinity_misread")
       \cup Flag(x.k = "unp" /\ ~r.f64, "SPEC:unpinned_reading_not_a_float"),
       <<"kind", x.k>>)

\* ------------------------------------------------------------------ monitor
AllProps(name) == {"C13:" \o name, "C15:" \o name, "C16:" \o name}

Judge(r) ==
  IF r.ev = "sched_end"
    THEN Verdict(IF r.outcome \in {"crashed", "hung"} THEN AllProps("process_" \o r.outcome) ELSE {},
                 <<r.outcome>>)
  ELSE
  CASE r.op = "cmp_nat" -> JudgeCmpNat(r)
    [] r.op = "cmp_arg" -> JudgeCmpArg(r)
    [] r.op = "cmp_grid" -> JudgeCmpGrid(r)
    [] r.op = "sort_args" -> JudgeSortArgs(r)
    [] r.op = "is_match" -> JudgeIsMatch(r)
    [] r.op = "overwrite" -> JudgeOverwrite(r)
    [] r.op = "resolve" -> JudgeResolve(r)
    [] r.op = "should_run" -> JudgeShouldRun(r)
    [] r.op = "classify" -> JudgeClassify(r)
    [] r.op = "begin" -> Verdict({}, <<>>)

KnownOps == {"cmp_nat", "cmp_arg", "cmp_grid", "sort_args", "is_match", "overwrite",
             "resolve", "should_run", "classify", "begin"}

Init == l = 1 /\ bad = {} /\ witness = <<>>

Step ==
  /\ l <= Len(Rec)
  /\ Rec[l].ev = "sched_end" \/ (Rec[l].ev = "reset" /\ Rec[l].op \in KnownOps)
  /\ l' = l + 1
  /\ LET v == Judge(Rec[l]) IN bad' = v.bad /\ witness' = v.w

TrSpec == Init /\ [][Step]_vars

Prefixed(px) == {b \in bad : SubSeq(b, 1, 4) = px}
C13Holds == Prefixed("C13:") = {}
C15Holds == Prefixed("C15:") = {}
C16Holds == Prefixed("C16:") = {}
\* the specification's own assumptions (std parsers, regex engine accepting
\* the generated patterns, well-formed logs)
SpecHolds == Prefixed("SPEC") = {}

TraceAccepted ==
  LET d == TLCGet("stats").diameter IN
  IF d - 1 = Len(Rec) THEN TRUE
  ELSE /\ PrintT(<<"TRACE-REJECTED at line", d, "of", Len(Rec)>>)
       /\ IF d <= Len(Rec) THEN PrintT(<<"UNMATCHED", ToJson(Rec[d])>>) ELSE TRUE
       /\ FALSE
=============================================================================
