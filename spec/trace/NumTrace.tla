------------------------------ MODULE NumTrace ------------------------------
(***************************************************************************)
(* Trace specification for the stateless numeric stages of divan:          *)
(*   C11  time conversions (Time.tla)                                      *)
(*   C18  text of durations, byte sizes and throughputs (Fmt.tla)          *)
(* The trace holds one record per call of the real code, written by the    *)
(* harness (driver/src/num.rs): the inputs it passed and what came back.   *)
(* Each record is judged on its own by evaluating the specification on the *)
(* logged inputs; broken rules are collected in `bad` (monitor style) and  *)
(* the invariants C11Holds / C18Holds say that none was broken.            *)
(*                                                                         *)
(* Wide numbers are BigNat limb arrays (little endian, base 10^4), texts   *)
(* are arrays of Unicode code points.  A record with a `panic` field means *)
(* the real code panicked on these inputs.                                 *)
(*                                                                         *)
(*   conv      {a, b, f, out}          duration_since: earlier a, later b  *)
(*   dur       {secs, nanos, out}      FineDuration::from(Duration)        *)
(*   precision {freq, step, quantum, [reads], out}                         *)
(*                                     Timer::precision under a clock that *)
(*                                     costs `step` ticks per read and, if *)
(*                                     quantum > 0, shows multiples of it  *)
(*   fmt_dur   {picos, [prec], [width], out_cp}                            *)
(*   fmt_bytes {m, e, binary, out_cp}  the f64 m * 2^e passed to           *)
(*   fmt_f64   {m, e, out_cp}          format_bytes / format_f64           *)
(*   fmt_tput  {kind, count, picos, binary, out_cp}                        *)
(***************************************************************************)
EXTENDS Time, Fmt, Json, IOUtils, TLC

Rec == ndJsonDeserialize(IOEnv.TRACE)

VARIABLES l, bad
vars == <<l, bad>>

Is(e) == l <= Len(Rec) /\ Rec[l].ev = e /\ l' = l + 1
R == Rec[l]
Has(rec, f) == f \in DOMAIN rec
Flag(cond, name) == IF cond THEN {name} ELSE {}

Init == l = 1 /\ bad = {}

\* Records are independent; a reset line carries the scenario (for replay).
TrReset == Is("reset") /\ bad' = {}
TrOther == Is("sched_end") /\ UNCHANGED bad

(* --------------------------------- C11 --------------------------------- *)
TrConv ==
  /\ Is("conv")
  /\ bad' = bad \cup (
       IF Has(R, "panic") THEN {"C11:duration_since_panicked"}
       ELSE Flag(R.out # Elapsed(R.a, R.b, R.f),
                 IF Lt(R.b, R.a) THEN "C11:backwards_difference_is_not_zero"
                 ELSE "C11:elapsed_is_not_floor_of_ticks_times_1e12_over_frequency"))

TrDur ==
  /\ Is("dur")
  /\ bad' = bad \cup (
       IF Has(R, "panic") THEN {"C11:duration_conversion_panicked"}
       ELSE Flag(R.out # FromDuration(R.secs, R.nanos),
                 "C11:duration_is_not_nanoseconds_times_1000"))

\* The logged clock readings advance in uniform steps: a plain clock moves
\* `step` ticks per read; a quantised one shows multiples of the quantum and
\* never skips one between consecutive reads.
UniformReads(reads, step, quantum) ==
  \A i \in 1..(Len(reads) - 1) :
    IF quantum = 0 THEN reads[i + 1] - reads[i] = step
    ELSE /\ reads[i] % quantum = 0 /\ reads[i + 1] % quantum = 0
         /\ reads[i + 1] - reads[i] \in {0, quantum}

TrPrecision ==
  /\ Is("precision")
  /\ Has(R, "reads") => UniformReads(R.reads, R.step, R.quantum)
  /\ LET tick == IF R.quantum = 0 THEN R.step ELSE R.quantum IN
     bad' = bad \cup (
       IF Has(R, "panic") THEN {"C11:precision_measurement_panicked_or_did_not_finish"}
       ELSE Flag(R.out # PrecisionOfUniformClock(FromInt(tick), R.freq),
                 "C11:precision_is_not_the_step_of_the_uniform_clock")
            \* the measuring loop of Time.tla run over the readings the code took
            \cup (IF ~Has(R, "reads") THEN {}
                  ELSE LET run == PrecRun(R.reads, R.freq)
                       IN Flag(run.done /\ run.result # R.out,
                               "C11:precision_is_not_the_smallest_difference_seen_100_times")))

(* --------------------------------- C18 --------------------------------- *)
UnitOfText(cps) == SplitText(StripSpacesRight(cps)).unit

TrFmtDur ==
  /\ Is("fmt_dur")
  /\ Has(R, "prec") => R.prec = SigDigits      \* the table prints 4 figures
  /\ bad' = bad \cup (
       IF Has(R, "panic") THEN {"C18:duration_formatting_panicked"}
       ELSE LET text == FormatDur(R.picos)
                width == IF Has(R, "width") THEN R.width ELSE 0
            IN IF PaddedTo(R.out_cp, text, width) THEN {}
               ELSE IF StripSpacesRight(R.out_cp) = text THEN {"C18:duration_padding"}
               ELSE IF UnitOfText(R.out_cp) # UnitOfText(text)
                 THEN {"C18:duration_unit_is_not_the_largest_not_exceeding_the_value"}
               ELSE {"C18:duration_number_is_not_the_exact_truncation"})

\* The exact value of the double m * 2^e as a ratio.
F64Num(m, e) == IF e >= 0 THEN Mul(m, Pow2(e)) ELSE m
F64Den(e) == IF e >= 0 THEN One ELSE Pow2(0 - e)

TrFmtBytes ==
  /\ Is("fmt_bytes")
  /\ bad' = bad \cup (
       IF Has(R, "panic") THEN {"C18:byte_size_formatting_panicked"}
       ELSE Flag(~AcceptsRat(R.out_cp, F64Num(R.m, R.e), F64Den(R.e), "bytes", R.binary),
                 "C18:byte_size_text"))

TrFmtF64 ==
  /\ Is("fmt_f64")
  /\ bad' = bad \cup (
       IF Has(R, "panic") THEN {"C18:number_formatting_panicked"}
       ELSE Flag(~AcceptsRat(R.out_cp, F64Num(R.m, R.e), F64Den(R.e), "plain", FALSE),
                 "C18:number_text"))

TputKinds == <<"bytes/s", "chars/s", "cycles/s", "items/s">>

TrFmtTput ==
  /\ Is("fmt_tput")
  /\ bad' = bad \cup (
       IF Has(R, "panic") THEN {"C18:throughput_formatting_panicked"}
       ELSE LET kind == TputKinds[R.kind + 1]
            IN Flag(~AcceptsThroughput(R.out_cp, R.count, R.picos, kind, R.binary),
                    IF R.count = Zero THEN "C18:zero_count_is_not_printed_as_0"
                    ELSE IF R.picos = Zero THEN "C18:zero_duration_is_not_printed_as_inf"
                    ELSE "C18:throughput_text"))

TrNext == TrReset \/ TrOther \/ TrConv \/ TrDur \/ TrPrecision
          \/ TrFmtDur \/ TrFmtBytes \/ TrFmtF64 \/ TrFmtTput

TrSpec == Init /\ [][TrNext]_vars

Prefixed(px) == {b \in bad : SubSeq(b, 1, 4) = px}
C11Holds == Prefixed("C11:") = {}
C18Holds == Prefixed("C18:") = {}

\* For the negative control (a trace of deliberately wrong outputs): every
\* record consumed so far was flagged (`bad` restarts at each reset line).
Flagged(px) ==
  (l > 1 /\ Rec[l - 1].ev \notin {"reset", "sched_end"}) => Prefixed(px) # {}
EveryRecordFlaggedC11 == Flagged("C11:")
EveryRecordFlaggedC18 == Flagged("C18:")

TraceAccepted ==
  LET d == TLCGet("stats").diameter IN
  IF d - 1 = Len(Rec) THEN TRUE
  ELSE /\ PrintT(<<"TRACE-REJECTED at line", d, "of", Len(Rec)>>)
       /\ IF d <= Len(Rec) THEN PrintT(<<"UNMATCHED", ToJson(Rec[d])>>) ELSE TRUE
       /\ FALSE
=============================================================================
