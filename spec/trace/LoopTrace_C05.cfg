SPECIFICATION TrSpec
CONSTANTS
  MaxT = 16
INVARIANTS
  C05Holds
POSTCONDITION TraceAccepted
CHECK_DEADLOCK FALSE
