SPECIFICATION TrSpec
CONSTANTS
  MaxT = 16
INVARIANTS
  C02Holds
POSTCONDITION TraceAccepted
CHECK_DEADLOCK FALSE
