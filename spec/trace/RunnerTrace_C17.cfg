SPECIFICATION TrSpec
INVARIANTS
  C17Holds
POSTCONDITION TraceAccepted
CHECK_DEADLOCK FALSE
