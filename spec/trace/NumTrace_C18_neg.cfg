SPECIFICATION TrSpec
INVARIANTS
  EveryRecordFlaggedC18
POSTCONDITION TraceAccepted
CHECK_DEADLOCK FALSE
