SPECIFICATION TrSpec
INVARIANTS
  C14Holds
POSTCONDITION TraceAccepted
CHECK_DEADLOCK FALSE
