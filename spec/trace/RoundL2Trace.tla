---------------------------- MODULE RoundL2Trace ----------------------------
(***************************************************************************)
(* Layer L2 for the sample loop: checks that an execution of the real      *)
(* sample loop follows Round.tla step by step (one action per logged       *)
(* event), so that what TLC established exhaustively for the model's       *)
(* interleavings transfers to the code.  Verdicts about C01/C02/C08 on     *)
(* executions come from RoundTrace.tla (L1); a rejection here is model     *)
(* drift, not a violation.                                                 *)
(***************************************************************************)
EXTENDS Round, Json, IOUtils

Rec == ndJsonDeserialize(IOEnv.TRACE)

VARIABLES l, sc, active   \* active: a round is being executed
tvars == <<vars, l, sc, active>>

Is(e) == l <= Len(Rec) /\ Rec[l].ev = e /\ l' = l + 1
R == Rec[l]
Keep == UNCHANGED <<sc, active>>
Idle == UNCHANGED vars

ScHasInputs(s) == s.entry \notin {"bench", "bench_local"}
C0 == [nt |-> 1, s |-> 0, hasInputs |-> FALSE]

TrInit == InitWith(C0) /\ l = 1 /\ sc = [entry |-> "none"] /\ active = FALSE

TrReset ==
  /\ Is("reset") /\ sc' = R.scenario /\ active' = FALSE
  /\ ResetRoundWith(C0)

\* Events before the loop runs and after it returned carry no round action.
TrOutside ==
  /\ l <= Len(Rec) /\ l' = l + 1
  /\ \/ Rec[l].ev \in {"bench_call", "precision_begin", "precision_end",
                       "initial_start", "bench_return", "report",
                       "report_failed", "sched_end"}
     \/ (Rec[l].ev = "ts" /\ ~active)
  /\ Idle /\ Keep

TrLoopBegin ==
  /\ Is("loop_begin") /\ active' = TRUE /\ UNCHANGED sc
  /\ ResetRoundWith([nt |-> R.threads, s |-> R.size, hasInputs |-> ScHasInputs(sc)])

\* End of a round: every thread of the round is in its drop phase (or done).
RoundOver == \A t \in Th : pc[t] \in {"drop", "done"}
TrRoundEnd ==
  /\ Is("round_end") /\ RoundOver /\ Keep
  /\ ResetRoundWith([cfg EXCEPT !.s = R.size])
TrTestBreak ==
  /\ Is("test_break") /\ RoundOver /\ UNCHANGED sc /\ active' = FALSE
  /\ ResetRoundWith(cfg)

T == R.tid
TrGen      == Is("gen") /\ active /\ T \in Th /\ Gen(T) /\ Keep
\* input counters run between two generations: logged state, no action
TrCount    == Is("count") /\ active /\ T \in Th /\ pc[T] \in {"gen", "syncA", "clear"} /\ Idle /\ Keep
TrArrive   == /\ Is("barrier_arrive") /\ active /\ T \in Th /\ Keep
              /\ (SyncA(T) \/ SyncB(T) \/ SyncC(T) \/ UnwindArrive(T))
              /\ R.arrived = (IF arrived' = 0 THEN NT ELSE arrived')
TrLeave    == Is("barrier_leave") /\ active /\ T \in Th /\ (Leave(T) \/ UnwindLeave(T)) /\ Keep
TrClear    == Is("tally_clear") /\ active /\ T \in Th
              /\ Clear(T) /\ Keep
TrTsStart  == Is("ts") /\ active /\ R.kind = "start" /\ T \in Th /\ TsStart(T) /\ Keep
TrCall     == Is("call") /\ active /\ T \in Th /\ Call(T) /\ Keep
TrTsEnd    == Is("ts") /\ active /\ R.kind = "end" /\ T \in Th /\ TsEnd(T) /\ Keep
TrSnap     == Is("tally_snapshot") /\ active /\ T \in Th /\ Snap(T) /\ Keep
TrDrop     == (Is("drop_out") \/ Is("drop_in")) /\ active /\ T \in Th /\ Drop(T) /\ Keep
TrPanic    == Is("user_panic") /\ active /\ T \in Th
              /\ R.site \in {"gen", "call"} /\ (GenPanics(T) \/ CallPanics(T)) /\ Keep
\* Panics raised by destructors / counters are outside Round.tla's alphabet.
TrPanicOther == Is("user_panic") /\ R.site \notin {"gen", "call"} /\ Idle /\ active' = FALSE /\ UNCHANGED sc

TrNext ==
  \/ TrReset \/ TrOutside \/ TrLoopBegin \/ TrRoundEnd \/ TrTestBreak \/ TrGen
  \/ TrCount \/ TrArrive \/ TrLeave \/ TrClear \/ TrTsStart \/ TrCall \/ TrTsEnd
  \/ TrSnap \/ TrDrop \/ TrPanic \/ TrPanicOther

TrSpec == TrInit /\ [][TrNext]_tvars

TraceAccepted ==
  LET d == TLCGet("stats").diameter IN
  IF d - 1 = Len(Rec) THEN TRUE
  ELSE /\ PrintT(<<"TRACE-REJECTED at line", d, "of", Len(Rec)>>)
       /\ IF d <= Len(Rec) THEN PrintT(<<"UNMATCHED", ToJson(Rec[d])>>) ELSE TRUE
       /\ FALSE
=============================================================================
