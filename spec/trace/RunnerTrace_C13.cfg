SPECIFICATION TrSpec
INVARIANTS
  C13Holds
POSTCONDITION TraceAccepted
CHECK_DEADLOCK FALSE
