SPECIFICATION TrSpec
INVARIANTS
  C20Holds
POSTCONDITION TraceAccepted
CHECK_DEADLOCK FALSE
