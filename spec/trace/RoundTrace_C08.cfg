SPECIFICATION TrSpec
CONSTANTS
  MaxT = 16
INVARIANTS
  C08Holds
POSTCONDITION TraceAccepted
CHECK_DEADLOCK FALSE
