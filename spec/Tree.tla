------------------------------- MODULE Tree -------------------------------
(***************************************************************************)
(* How the runner builds its tree of benchmarks (Divan::run_action,        *)
(* src/entry/tree.rs) from the two registration lists, step by step, for   *)
(* every order in which the lists may have been filled:                    *)
(*                                                                         *)
(*   1. InsertBench     every plain benchmark, in list order               *)
(*   2. InsertGeneric   every instance of every generic function, group by *)
(*                      group in list order (`from_benches` over the       *)
(*                      chained iterators)                                 *)
(*   3. AttachGroup     every group entry (bench_group module or generic   *)
(*                      function) to the parent node with its raw path, if *)
(*                      that node exists (`insert_group`)                  *)
(*   4. Retain          drop the leaves whose DISPLAY path fails the       *)
(*                      filter, then the parents left without leaves       *)
(*                                                                         *)
(* The declarative meaning (Runner.tla) does not mention any order: a leaf *)
(* is shown under the display names declared for the modules / functions   *)
(* on its path and is kept iff that display path passes the filter.  The   *)
(* invariant `ResultIsDeclarative` states that the algorithm computes      *)
(* exactly that, whatever the list orders.  The constants `Mode` select    *)
(* three reorderings of the steps that look harmless and are not.          *)
(***************************************************************************)
EXTENDS Naturals, Sequences, FiniteSets, TLC

CONSTANTS
  Plain,      \* set of raw paths (sequences of names) of plain benchmarks
  Generic,    \* set of records [path, display, insts]: generic functions
  Modules,    \* set of records [path, display]: bench_group modules
  Filters,    \* set of filter names (see Passes)
  Mode        \* "as_coded" | "one_pass" | "retain_first" | "skip_generic_groups"

VARIABLES pc, benchTodo, groupTodo, leaves, attach, filter

vars == <<pc, benchTodo, groupTodo, leaves, attach, filter>>

GroupEntries == {[path |-> g.path, display |-> g.display, gen |-> TRUE, insts |-> g.insts] : g \in Generic}
           \cup {[path |-> m.path, display |-> m.display, gen |-> FALSE, insts |-> {}] : m \in Modules}

Perms(S) == {f \in [1..Cardinality(S) -> S] : \A i, j \in 1..Cardinality(S) : f[i] = f[j] => i = j}

Prefixes(p) == {SubSeq(p, 1, i) : i \in 1..(Len(p) - 1)}
Parents(ls) == UNION {Prefixes(l) : l \in ls}

(* The display path of a raw path under a set of <<path, name>> attachments. *)
Display(p, att) ==
  [i \in 1..Len(p) |->
     IF \E a \in att : a[1] = SubSeq(p, 1, i) THEN (CHOOSE a \in att : a[1] = SubSeq(p, 1, i))[2]
     ELSE p[i]]

Has(dp, name) == \E i \in 1..Len(dp) : dp[i] = name
Passes(f, dp) ==
  CASE f = "all" -> TRUE
    [] f = "has_M" -> Has(dp, "M")
    [] f = "has_m" -> Has(dp, "m")
    [] f = "skip_G" -> ~Has(dp, "G")
    [] f = "has_g" -> Has(dp, "g")

InstLeaves(g) == {g.path \o <<i>> : i \in g.insts}

Init ==
  /\ pc = "benches"
  /\ benchTodo \in Perms(Plain)
  /\ groupTodo \in Perms(GroupEntries)
  /\ leaves = {} /\ attach = {}
  /\ filter \in Filters

InsertBench ==
  /\ pc = "benches" /\ benchTodo # <<>>
  /\ leaves' = leaves \cup {Head(benchTodo)}
  /\ benchTodo' = Tail(benchTodo)
  /\ UNCHANGED <<pc, groupTodo, attach, filter>>

BenchesDone ==
  /\ pc = "benches" /\ benchTodo = <<>>
  /\ pc' = IF Mode = "one_pass" THEN "one_pass" ELSE "generic"
  /\ UNCHANGED <<benchTodo, groupTodo, leaves, attach, filter>>

(* as coded: all generic instances of all groups first ...                  *)
InsertGenerics ==
  /\ pc = "generic"
  /\ leaves' = leaves \cup UNION {InstLeaves(g) : g \in {x \in GroupEntries : x.gen}}
  /\ pc' = IF Mode = "retain_first" THEN "retain" ELSE "groups"
  /\ UNCHANGED <<benchTodo, groupTodo, attach, filter>>

Attached(g, ls, att) ==
  IF g.path \in Parents(ls) /\ ~(Mode = "skip_generic_groups" /\ g.gen)
    THEN att \cup {<<g.path, g.display>>} ELSE att

(* ... then every group entry is attached, in list order                    *)
AttachGroup ==
  /\ pc = "groups" /\ groupTodo # <<>>
  /\ attach' = Attached(Head(groupTodo), leaves, attach)
  /\ groupTodo' = Tail(groupTodo)
  /\ UNCHANGED <<pc, benchTodo, leaves, filter>>

GroupsDone ==
  /\ pc = "groups" /\ groupTodo = <<>>
  /\ pc' = IF Mode = "retain_first" THEN "done" ELSE "retain"
  /\ UNCHANGED <<benchTodo, groupTodo, leaves, attach, filter>>

(* variant: one walk over the group list, inserting a group's instances and *)
(* attaching it in the same step                                            *)
OnePassStep ==
  /\ pc = "one_pass" /\ groupTodo # <<>>
  /\ LET g == Head(groupTodo)
         ls == leaves \cup (IF g.gen THEN InstLeaves(g) ELSE {})
     IN leaves' = ls /\ attach' = Attached(g, ls, attach)
  /\ groupTodo' = Tail(groupTodo)
  /\ UNCHANGED <<pc, benchTodo, filter>>

OnePassDone ==
  /\ pc = "one_pass" /\ groupTodo = <<>>
  /\ pc' = "retain"
  /\ UNCHANGED <<benchTodo, groupTodo, leaves, attach, filter>>

Retain ==
  /\ pc = "retain"
  /\ leaves' = {l \in leaves : Passes(filter, Display(l, attach))}
  /\ pc' = IF Mode = "retain_first" THEN "groups" ELSE "done"
  /\ UNCHANGED <<benchTodo, groupTodo, attach, filter>>

Next == InsertBench \/ BenchesDone \/ InsertGenerics \/ AttachGroup \/ GroupsDone
        \/ OnePassStep \/ OnePassDone \/ Retain

Spec == Init /\ [][Next]_vars

---------------------------------------------------------------------------
AllLeaves == Plain \cup UNION {InstLeaves(g) : g \in {x \in GroupEntries : x.gen}}
Declared == {<<g.path, g.display>> : g \in GroupEntries}
Expected == {Display(l, Declared) : l \in {x \in AllLeaves : Passes(filter, Display(x, Declared))}}

(* What is shown (and run) in the end.                                      *)
Shown == {Display(l, attach) : l \in leaves}

ResultIsDeclarative == pc = "done" => Shown = Expected

(* Names and options of a group reach the benchmarks below it: every group  *)
(* entry with a surviving leaf below it is attached.                        *)
GroupsReachTheirBenchmarks ==
  pc = "done" => \A g \in GroupEntries : g.path \in Parents(leaves) => <<g.path, g.display>> \in attach
=============================================================================
