------------------------------ MODULE Filters ------------------------------
(***************************************************************************)
(* Filter semantics (C13), declaratively: a path is selected iff no skip   *)
(* filter matches it and either there is no positive filter or at least    *)
(* one positive filter matches it.  A filter matches by whole-string       *)
(* equality ("exact") or by regular-expression SEARCH ("regex").           *)
(*                                                                         *)
(* Strings are sequences of code points.  Regular expressions are given    *)
(* by an explicit AST for the small subset the input generators use - the  *)
(* generator emits the pattern text for the real engine and this AST for   *)
(* TLA+; the engine (regex-lite) is a dependency and not under test:       *)
(*    ast   = [alts |-> << alt, ... >>]      top-level alternation a|b|... *)
(*    alt   = << item, ... >>                concatenation (may be empty)  *)
(*    item  = [t |-> "lit", cp |-> << code points >>]   literal text       *)
(*          | [t |-> "any"]                              .                 *)
(*          | [t |-> "star"]                             .*                *)
(*          | [t |-> "bol"]                              ^                 *)
(*          | [t |-> "eol"]                              $                 *)
(* `.` matches any one code point except line feed; anchors are those of   *)
(* the whole text (no multi-line mode).                                    *)
(***************************************************************************)
EXTENDS Integers, Sequences, FiniteSets

NotLineFeed(c) == c # 10

\* items[k..] match s starting after `pos` consumed code points and ending
\* anywhere (search semantics: the rest of s is free).
RECURSIVE MatchFrom(_, _, _, _)
MatchFrom(items, k, s, pos) ==
  IF k > Len(items) THEN TRUE
  ELSE LET it == items[k] IN
    CASE it.t = "lit" ->
           /\ pos + Len(it.cp) <= Len(s)
           /\ \A i \in 1..Len(it.cp) : s[pos + i] = it.cp[i]
           /\ MatchFrom(items, k + 1, s, pos + Len(it.cp))
      [] it.t = "any" ->
           /\ pos < Len(s) /\ NotLineFeed(s[pos + 1])
           /\ MatchFrom(items, k + 1, s, pos + 1)
      [] it.t = "star" ->
           \E q \in pos..Len(s) :
             /\ \A r \in (pos + 1)..q : NotLineFeed(s[r])
             /\ MatchFrom(items, k + 1, s, q)
      [] it.t = "bol" -> pos = 0 /\ MatchFrom(items, k + 1, s, pos)
      [] it.t = "eol" -> pos = Len(s) /\ MatchFrom(items, k + 1, s, pos)

AltMatches(alt, s) == \E start \in 0..Len(s) : MatchFrom(alt, 1, s, start)

\* Regular-expression search: some alternative matches somewhere in s.
Matches(ast, s) == \E a \in 1..Len(ast.alts) : AltMatches(ast.alts[a], s)

\* A filter: [inclusive |-> BOOLEAN, kind |-> "exact" | "regex",
\*            text_cp |-> code points of the text, ast |-> AST (regex only)].
FilterMatches(f, s) ==
  IF f.kind = "exact" THEN f.text_cp = s ELSE Matches(f.ast, s)

\* filters: sequence of filters in any order (positional arguments are
\* positive filters, --skip arguments are skip filters).
IsMatch(filters, s) ==
  LET skip == {i \in 1..Len(filters) : ~filters[i].inclusive}
      pos == {i \in 1..Len(filters) : filters[i].inclusive}
  IN /\ \A i \in skip : ~FilterMatches(filters[i], s)
     /\ (pos = {} \/ \E i \in pos : FilterMatches(filters[i], s))

\* ------------------------------------------------ declarative counterparts
\* (used by MC_Filters to cross-check the matcher)
IsSubstring(x, s) ==
  \E start \in 0..(Len(s) - Len(x)) : \A i \in 1..Len(x) : s[start + i] = x[i]
IsPrefix(x, s) == Len(x) <= Len(s) /\ \A i \in 1..Len(x) : s[i] = x[i]
IsSuffix(x, s) == Len(x) <= Len(s) /\ \A i \in 1..Len(x) : s[Len(s) - Len(x) + i] = x[i]

Lit(cp) == [t |-> "lit", cp |-> cp]
AnyItem == [t |-> "any"]
StarItem == [t |-> "star"]
BolItem == [t |-> "bol"]
EolItem == [t |-> "eol"]
Ast(alts) == [alts |-> alts]

\* Path of a tree node or argument case: parent::child.
JoinPath(parent, name) == IF parent = <<>> THEN name ELSE parent \o <<58, 58>> \o name
=============================================================================
