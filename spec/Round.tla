------------------------------- MODULE Round -------------------------------
(***************************************************************************)
(* One round of samples of divan's sample loop (src/benchmark/mod.rs,      *)
(* sample_recorder) on NT threads, written like the implementation: every  *)
(* thread generates its inputs, waits on the round's barrier, clears its   *)
(* allocation tally, waits again, takes the start timestamp, makes its     *)
(* calls, takes the end timestamp, waits a third time, snapshots the tally *)
(* and drops outputs and inputs.  User code (generator, benchmarked        *)
(* function) may panic; with `Guard` the unwinding thread performs its     *)
(* outstanding barrier waits (the repair of finding F5), without it the    *)
(* thread just leaves.                                                     *)
(***************************************************************************)
EXTENDS Integers, Sequences, FiniteSets, TLC

CONSTANTS MaxNT,       \* bound on the number of threads
          AllowPanic,  \* user code may panic
          Guard        \* unwinding performs the outstanding barrier waits

VARIABLES
  cfg,       \* [nt, s, hasInputs]: threads 0..nt-1 (0 is the caller), sample
             \* size, whether the entry point has an input generator; fixed
             \* per round (constants in the exhaustive instance, taken from
             \* the log in the trace specification)
  pc,        \* pc[t]
  k,         \* k[t]: inputs generated / calls made / in the current phase
  owed,      \* owed[t]: barrier waits this thread still has to perform
  arrived,   \* arrivals of the barrier's current generation
  bgen,      \* generation of the barrier
  mygen,     \* mygen[t]: generation thread t is waiting to pass
  after,     \* after[t]: where thread t continues after leaving the barrier
  cleared, started, ended, panicked,
  \* monitors
  earlyStart, earlyDrop, foreignInWindow

NT == cfg.nt
S == cfg.s
HasInputs == cfg.hasInputs
Th == 0..(NT - 1)
AllTh == 0..(MaxNT - 1)
HasBarrier == NT > 1

vars == <<cfg, pc, k, owed, arrived, bgen, mygen, after, cleared, started, ended,
          panicked, earlyStart, earlyDrop, foreignInWindow>>

InitWith(c) ==
  /\ cfg = c
  /\ pc = [t \in AllTh |-> IF c.hasInputs /\ c.s > 0 THEN "gen" ELSE (IF c.nt > 1 THEN "syncA" ELSE "clear")]
  /\ k = [t \in AllTh |-> 0]
  /\ owed = [t \in AllTh |-> IF c.nt > 1 THEN 3 ELSE 0]
  /\ arrived = 0 /\ bgen = 0
  /\ mygen = [t \in AllTh |-> 0]
  /\ after = [t \in AllTh |-> "none"]
  /\ cleared = [t \in AllTh |-> FALSE] /\ started = [t \in AllTh |-> FALSE]
  /\ ended = [t \in AllTh |-> FALSE] /\ panicked = [t \in AllTh |-> FALSE]
  /\ earlyStart = FALSE /\ earlyDrop = FALSE /\ foreignInWindow = FALSE

\* A fresh round (fresh barrier) with configuration c; monitors are kept.
ResetRoundWith(c) ==
  /\ cfg' = c
  /\ pc' = [t \in AllTh |-> IF c.hasInputs /\ c.s > 0 THEN "gen" ELSE (IF c.nt > 1 THEN "syncA" ELSE "clear")]
  /\ k' = [t \in AllTh |-> 0]
  /\ owed' = [t \in AllTh |-> IF c.nt > 1 THEN 3 ELSE 0]
  /\ arrived' = 0 /\ bgen' = 0
  /\ mygen' = [t \in AllTh |-> 0]
  /\ after' = [t \in AllTh |-> "none"]
  /\ cleared' = [t \in AllTh |-> FALSE] /\ started' = [t \in AllTh |-> FALSE]
  /\ ended' = [t \in AllTh |-> FALSE] /\ panicked' = [t \in AllTh |-> FALSE]
  /\ UNCHANGED <<earlyStart, earlyDrop, foreignInWindow>>

ResetRound == ResetRoundWith(cfg)

Goto(t, label) == pc' = [pc EXCEPT ![t] = label]
InWindow(t) == started[t] /\ ~ended[t]
Running == {u \in Th : ~panicked[u]}

\* User code panics on thread t: unwind, performing the owed waits if Guard.
PanicAt(t) ==
  /\ AllowPanic
  /\ panicked' = [panicked EXCEPT ![t] = TRUE]
  /\ Goto(t, IF Guard /\ owed[t] > 0 THEN "unwindArrive" ELSE "gone")
  /\ UNCHANGED <<cfg, k, owed, arrived, bgen, mygen, after, cleared, started, ended,
                 earlyStart, earlyDrop, foreignInWindow>>

Gen(t) ==
  /\ pc[t] = "gen"
  /\ k' = [k EXCEPT ![t] = @ + 1]
  /\ Goto(t, IF k[t] + 1 = S THEN (IF HasBarrier THEN "syncA" ELSE "clear") ELSE "gen")
  /\ foreignInWindow' = (foreignInWindow \/ InWindow(t))
  /\ UNCHANGED <<cfg, owed, arrived, bgen, mygen, after, cleared, started, ended,
                 panicked, earlyStart, earlyDrop>>

GenPanics(t) == pc[t] = "gen" /\ PanicAt(t)

\* barrier.wait(), first half.
Arrive(t, from, next) ==
  /\ pc[t] = from
  /\ IF arrived + 1 = NT
       THEN arrived' = 0 /\ bgen' = bgen + 1
       ELSE arrived' = arrived + 1 /\ UNCHANGED bgen
  /\ mygen' = [mygen EXCEPT ![t] = bgen]
  /\ after' = [after EXCEPT ![t] = next]
  /\ Goto(t, "leave")
  /\ UNCHANGED <<cfg, k, owed, cleared, started, ended, panicked, earlyStart,
                 earlyDrop, foreignInWindow>>

\* barrier.wait(), second half: passes once the generation is complete.
Leave(t) ==
  /\ pc[t] = "leave"
  /\ bgen > mygen[t]
  /\ owed' = [owed EXCEPT ![t] = @ - 1]
  /\ Goto(t, after[t])
  /\ UNCHANGED <<cfg, k, arrived, bgen, mygen, after, cleared, started, ended,
                 panicked, earlyStart, earlyDrop, foreignInWindow>>

\* sync_threads(true): [wait] clear [wait]
SyncA(t) == HasBarrier /\ Arrive(t, "syncA", "clear")

Clear(t) ==
  /\ pc[t] = "clear"
  /\ cleared' = [cleared EXCEPT ![t] = TRUE]
  /\ Goto(t, IF HasBarrier THEN "syncB" ELSE "start")
  /\ foreignInWindow' = (foreignInWindow \/ InWindow(t))
  /\ UNCHANGED <<cfg, k, owed, arrived, bgen, mygen, after, started, ended, panicked,
                 earlyStart, earlyDrop>>

SyncB(t) == HasBarrier /\ Arrive(t, "syncB", "start")

TsStart(t) ==
  /\ pc[t] = "start"
  /\ started' = [started EXCEPT ![t] = TRUE]
  /\ earlyStart' = (earlyStart \/ \E u \in Running :
                       (HasInputs /\ k[u] < S /\ pc[u] = "gen") \/ ~cleared[u])
  /\ k' = [k EXCEPT ![t] = 0]
  /\ Goto(t, IF S > 0 THEN "call" ELSE "end")
  /\ UNCHANGED <<cfg, owed, arrived, bgen, mygen, after, cleared, ended, panicked,
                 earlyDrop, foreignInWindow>>

Call(t) ==
  /\ pc[t] = "call"
  /\ k' = [k EXCEPT ![t] = @ + 1]
  /\ Goto(t, IF k[t] + 1 = S THEN "end" ELSE "call")
  /\ UNCHANGED <<cfg, owed, arrived, bgen, mygen, after, cleared, started, ended,
                 panicked, earlyStart, earlyDrop, foreignInWindow>>

CallPanics(t) == pc[t] = "call" /\ PanicAt(t)

TsEnd(t) ==
  /\ pc[t] = "end"
  /\ ended' = [ended EXCEPT ![t] = TRUE]
  /\ Goto(t, IF HasBarrier THEN "syncC" ELSE "snap")
  /\ UNCHANGED <<cfg, k, owed, arrived, bgen, mygen, after, cleared, started,
                 panicked, earlyStart, earlyDrop, foreignInWindow>>

SyncC(t) == HasBarrier /\ Arrive(t, "syncC", "snap")

Snap(t) ==
  /\ pc[t] = "snap"
  /\ Goto(t, "drop")
  /\ foreignInWindow' = (foreignInWindow \/ InWindow(t))
  /\ UNCHANGED <<cfg, k, owed, arrived, bgen, mygen, after, cleared, started, ended,
                 panicked, earlyStart, earlyDrop>>

\* Any number of destructor events, then the sample is done.
Drop(t) ==
  /\ pc[t] = "drop"
  /\ earlyDrop' = (earlyDrop \/ \E u \in Running : ~ended[u])
  /\ foreignInWindow' = (foreignInWindow \/ InWindow(t))
  /\ UNCHANGED <<cfg, pc, k, owed, arrived, bgen, mygen, after, cleared, started,
                 ended, panicked, earlyStart>>

Finish(t) ==
  /\ pc[t] = "drop"
  /\ Goto(t, "done")
  /\ UNCHANGED <<cfg, k, owed, arrived, bgen, mygen, after, cleared, started, ended,
                 panicked, earlyStart, earlyDrop, foreignInWindow>>

\* Unwinding with the guard: perform the owed waits.
UnwindArrive(t) ==
  /\ pc[t] = "unwindArrive"
  /\ IF arrived + 1 = NT
       THEN arrived' = 0 /\ bgen' = bgen + 1
       ELSE arrived' = arrived + 1 /\ UNCHANGED bgen
  /\ mygen' = [mygen EXCEPT ![t] = bgen]
  /\ Goto(t, "unwindLeave")
  /\ UNCHANGED <<cfg, k, owed, after, cleared, started, ended, panicked, earlyStart,
                 earlyDrop, foreignInWindow>>

UnwindLeave(t) ==
  /\ pc[t] = "unwindLeave"
  /\ bgen > mygen[t]
  /\ owed' = [owed EXCEPT ![t] = @ - 1]
  /\ Goto(t, IF owed[t] - 1 > 0 THEN "unwindArrive" ELSE "gone")
  /\ UNCHANGED <<cfg, k, arrived, bgen, mygen, after, cleared, started, ended,
                 panicked, earlyStart, earlyDrop, foreignInWindow>>

StepCore(t) ==
  \/ Gen(t) \/ GenPanics(t) \/ SyncA(t) \/ Leave(t) \/ Clear(t) \/ SyncB(t)
  \/ TsStart(t) \/ Call(t) \/ CallPanics(t) \/ TsEnd(t) \/ SyncC(t) \/ Snap(t)
  \/ Drop(t) \/ Finish(t) \/ UnwindArrive(t) \/ UnwindLeave(t)

Step(t) == t \in Th /\ StepCore(t)

AllFinished == \A t \in Th : pc[t] \in {"done", "gone"}
AnyPanic == \E t \in Th : panicked[t]

\* ---- properties
\* C08: no thread takes its start timestamp before every thread (still
\* running the sample) has finished generating and had its tally cleared.
NoStartBeforeAllGeneratedAndCleared == ~earlyStart
\* C08: no thread starts dropping before every thread has taken its end
\* timestamp.
NoDropBeforeAllEnded == ~earlyDrop
\* C02: nothing but calls between a thread's two timestamps.
OnlyCallsInTimedSection == ~foreignInWindow
TypeOK == arrived \in 0..(NT - 1) /\ \A t \in Th : owed[t] \in 0..3 /\ NT <= MaxNT
=============================================================================
