------------------------------ MODULE Options ------------------------------
(***************************************************************************)
(* Option resolution (C15), as documented: for each benchmark and each     *)
(* option INDEPENDENTLY the effective value is the one set at run time on  *)
(* the runner, else the benchmark's own, else the nearest enclosing        *)
(* group's, else the documented default.                                   *)
(*                                                                         *)
(* A BenchOptions value is a record over OptKeys: 7 scalar fields and the  *)
(* 4 counter kinds.  Each component is an OPTION: Unset = <<>> or          *)
(* Some(v) = <<v>> (a sequence of length 0 or 1, so that "unset" compares  *)
(* with values of any type without a TLC type clash, and so that JSON can  *)
(* carry it as [] / [v] without null).                                     *)
(***************************************************************************)
EXTENDS Integers, Sequences, FiniteSets

ScalarKeys == {"sample_count", "sample_size", "threads", "min_time", "max_time",
               "skip_ext_time", "ignore"}
CounterKeys == {"bytes", "chars", "cycles", "items"}
OptKeys == ScalarKeys \cup CounterKeys

Unset == <<>>
Some(v) == <<v>>
IsSet(x) == x # <<>>
ValueOf(x) == x[1]
ValueOr(x, default) == IF IsSet(x) THEN x[1] ELSE default

NoOptions == [k \in OptKeys |-> Unset]
IsOptions(o) == DOMAIN o = OptKeys /\ \A k \in OptKeys : Len(o[k]) \in {0, 1}

\* "Overwrites other with values set in self": self's value where self sets
\* one, else other's - per field and per counter kind.
Overwrite(self, other) ==
  [k \in OptKeys |-> IF IsSet(self[k]) THEN self[k] ELSE other[k]]

\* groups: enclosing bench_groups, innermost first.
RECURSIVE OverGroups(_, _)
OverGroups(acc, groups) ==
  IF groups = <<>> THEN acc ELSE OverGroups(Overwrite(acc, Head(groups)), Tail(groups))

\* run time over benchmark over innermost group outward (defaults are
\* applied by the readers below).
Effective(runner, bench, groups) == Overwrite(runner, OverGroups(bench, groups))

\* The same, declaratively: field k of the first level that sets it.
Levels(runner, bench, groups) == <<runner, bench>> \o groups
NearestSetter(levels, k) ==
  LET S == {i \in 1..Len(levels) : IsSet(levels[i][k])}
  IN IF S = {} THEN 0 ELSE CHOOSE i \in S : \A j \in S : i <= j
EffectiveDecl(runner, bench, groups) ==
  LET L == Levels(runner, bench, groups)
  IN [k \in OptKeys |-> IF NearestSetter(L, k) = 0 THEN Unset ELSE L[NearestSetter(L, k)][k]]

\* Documented defaults of the fields whose default is a plain value.
DefaultSampleCount == 100
DefaultIgnore == FALSE
DefaultSkipExtTime == FALSE
DefaultThreads == <<>>        \* no list: one thread

\* Thread counts a benchmark is run with: 0 means the available parallelism,
\* duplicates collapse, ascending order, no counts at all means one thread.
RECURSIVE SortedSeqOf(_)
SortedSeqOf(S) ==
  IF S = {} THEN <<>>
  ELSE LET m == CHOOSE x \in S : \A y \in S : x <= y
       IN <<m>> \o SortedSeqOf(S \ {m})
ThreadCounts(list, parallelism) ==
  LET S == {IF list[i] = 0 THEN parallelism ELSE list[i] : i \in 1..Len(list)}
  IN IF S = {} THEN <<1>> ELSE SortedSeqOf(S)

EffectiveThreadCounts(o, parallelism) == ThreadCounts(ValueOr(o.threads, DefaultThreads), parallelism)

\* runIgnored: "no" (default), "yes" (--include-ignored), "only" (--ignored).
ShouldRun(runIgnored, ignore) ==
  CASE runIgnored = "no" -> ~ignore
    [] runIgnored = "yes" -> TRUE
    [] runIgnored = "only" -> ignore
EffectiveShouldRun(runIgnored, o) == ShouldRun(runIgnored, ValueOr(o.ignore, DefaultIgnore))
=============================================================================
