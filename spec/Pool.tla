------------------------------- MODULE Pool -------------------------------
(***************************************************************************)
(* divan's broadcast thread pool (src/util/thread/pool.rs), written like   *)
(* the implementation: one action per scheduling point of the code, i.e.   *)
(* per event the instrumented std shim logs.  Thread 0 is the caller of    *)
(* `broadcast`/`par_extend`, threads 1..MaxWorkers are pool workers        *)
(* (`divan-<i>`).                                                          *)
(*                                                                         *)
(* Memory ordering is not executed but modelled: `knows[t]` is the set of  *)
(* ghost events thread t happens-after; release/acquire operations, the    *)
(* park token, rendezvous channels, the mutex and spawn carry knowledge    *)
(* exactly along the edges the language guarantees.                        *)
(*                                                                         *)
(* The same actions are used by the exhaustive instance (MC_Pool) and by   *)
(* the trace specification (PoolTrace), which binds action parameters to   *)
(* the fields logged by the real code.                                     *)
(***************************************************************************)
EXTENDS Integers, Sequences, FiniteSets, TLC

CONSTANTS MaxWorkers,   \* workers are 1..MaxWorkers
          MaxSpurious,  \* spurious park returns allowed per scenario
          ParkLoop,     \* TRUE: `while load > 0 { park }` ; FALSE: `if`
          CloneFirst    \* TRUE: clone the caller's handle before fetch_sub

W == 1..MaxWorkers
T == 0..MaxWorkers

Releases(ord) == ord \in {"Release", "AcqRel", "SeqCst"}
Acquires(ord) == ord \in {"Acquire", "AcqRel", "SeqCst"}

\* Ghost event "call i of the current broadcast b finished".
GhostEv(b, i) == <<b, i>>

VARIABLES
  pc,         \* pc[t]
  bidx,       \* number of broadcasts started so far
  curN,       \* aux thread count of the current broadcast
  spawned,    \* number of workers spawned so far
  sendi,      \* next worker index to send to / drop
  lockHeld,   \* pool mutex held
  lockK,      \* knowledge released by the last unlock
  chan,       \* chan[w] \in {"empty","offered","taken"}
  chanK,      \* knowledge attached to the offered message
  senderLive, \* senderLive[w]: the pool still holds w's sender
  rc,         \* TaskShared.ref_count
  rcRel,      \* knowledge released into ref_count (release sequence)
  token,      \* park token of the caller
  tokenK,     \* knowledge deposited with the token
  handleLive, \* TaskShared.main_thread alive
  atomLive,   \* TaskShared.ref_count (and task_fn) alive
  knows,      \* knows[t]
  calls,      \* calls[i]: times task(i) started in the current broadcast
  ended,      \* ended[i]: "none" | "ok" | "panic" for the current broadcast
  wtask,      \* wtask[w]: broadcast number the worker is serving
  spur,       \* spurious wake-ups used
  \* ----- monitors (property vocabulary) -----
  badAccess,  \* a thread touched the task block after it was dropped
  lateCall,   \* a call ran on behalf of a broadcast that had returned
  wrongIdx,   \* a call ran with an index outside 0..n or on a wrong thread
  retEarly,   \* a broadcast returned before all n+1 calls had ended
  retNoHB,    \* a broadcast returned without happening-after every call
  maxN        \* largest n requested so far (for SpawnOnlyMissing)

vars == <<pc, bidx, curN, spawned, sendi, lockHeld, lockK, chan, chanK,
          senderLive, rc, rcRel, token, tokenK, handleLive, atomLive, knows,
          calls, ended, wtask, spur, badAccess, lateCall, wrongIdx, retEarly,
          retNoHB, maxN>>

Init ==
  /\ pc = [t \in T |-> IF t = 0 THEN "start" ELSE "unborn"]
  /\ bidx = 0 /\ curN = 0 /\ spawned = 0 /\ sendi = 1
  /\ lockHeld = FALSE /\ lockK = {}
  /\ chan = [w \in W |-> "empty"] /\ chanK = [w \in W |-> {}]
  /\ senderLive = [w \in W |-> FALSE]
  /\ rc = 0 /\ rcRel = {} /\ token = FALSE /\ tokenK = {}
  /\ handleLive = FALSE /\ atomLive = FALSE
  /\ knows = [t \in T |-> {}]
  /\ calls = [i \in T |-> 0]
  /\ ended = [i \in T |-> "none"]
  /\ wtask = [w \in W |-> 0]
  /\ spur = 0
  /\ badAccess = FALSE /\ lateCall = FALSE /\ wrongIdx = FALSE
  /\ retEarly = FALSE /\ retNoHB = FALSE /\ maxN = 0

\* Primed copy of Init, used by the trace specification between scenarios.
Reset ==
  /\ pc' = [t \in T |-> IF t = 0 THEN "start" ELSE "unborn"]
  /\ bidx' = 0 /\ curN' = 0 /\ spawned' = 0 /\ sendi' = 1
  /\ lockHeld' = FALSE /\ lockK' = {}
  /\ chan' = [w \in W |-> "empty"] /\ chanK' = [w \in W |-> {}]
  /\ senderLive' = [w \in W |-> FALSE]
  /\ rc' = 0 /\ rcRel' = {} /\ token' = FALSE /\ tokenK' = {}
  /\ handleLive' = FALSE /\ atomLive' = FALSE
  /\ knows' = [t \in T |-> {}]
  /\ calls' = [i \in T |-> 0]
  /\ ended' = [i \in T |-> "none"]
  /\ wtask' = [w \in W |-> 0]
  /\ spur' = 0
  /\ badAccess' = FALSE /\ lateCall' = FALSE /\ wrongIdx' = FALSE
  /\ retEarly' = FALSE /\ retNoHB' = FALSE /\ maxN' = 0

Goto(t, label) == pc' = [pc EXCEPT ![t] = label]

(***************************************************************************)
(* Thread start / exit (every managed thread).                             *)
(***************************************************************************)
ThreadStart(t) ==
  /\ pc[t] = "start"
  /\ Goto(t, IF t = 0 THEN "idle" ELSE "recv")
  /\ UNCHANGED <<bidx, curN, spawned, sendi, lockHeld, lockK, chan, chanK,
                 senderLive, rc, rcRel, token, tokenK, handleLive, atomLive,
                 knows, calls, ended, wtask, spur, badAccess, lateCall,
                 wrongIdx, retEarly, retNoHB, maxN>>

ThreadExit(t) ==
  /\ pc[t] = "exit"
  /\ Goto(t, "done")
  /\ UNCHANGED <<bidx, curN, spawned, sendi, lockHeld, lockK, chan, chanK,
                 senderLive, rc, rcRel, token, tokenK, handleLive, atomLive,
                 knows, calls, ended, wtask, spur, badAccess, lateCall,
                 wrongIdx, retEarly, retNoHB, maxN>>

(***************************************************************************)
(* Caller.                                                                 *)
(***************************************************************************)

\* Harness marker in front of `par_extend(n)` / `broadcast(n)`.
BcastCall(n) ==
  /\ pc[0] = "idle"
  /\ n \in 0..MaxWorkers
  /\ bidx' = bidx + 1
  /\ curN' = n
  /\ maxN' = IF n > maxN THEN n ELSE maxN
  /\ calls' = [i \in T |-> 0]
  /\ ended' = [i \in T |-> "none"]
  /\ Goto(0, "hnew")
  /\ UNCHANGED <<spawned, sendi, lockHeld, lockK, chan, chanK, senderLive, rc,
                 rcRel, token, tokenK, handleLive, atomLive, knows, wtask,
                 spur, badAccess, lateCall, wrongIdx, retEarly, retNoHB>>

\* TaskShared::new: thread::current() and AtomicUsize::new(aux_threads).
HandleNew ==
  /\ pc[0] = "hnew"
  /\ handleLive' = TRUE /\ atomLive' = TRUE
  /\ rc' = curN /\ rcRel' = {}
  /\ Goto(0, IF curN > 0 THEN "lock" ELSE "t0begin")
  /\ UNCHANGED <<bidx, curN, spawned, sendi, lockHeld, lockK, chan, chanK,
                 senderLive, token, tokenK, knows, calls, ended, wtask, spur,
                 badAccess, lateCall, wrongIdx, retEarly, retNoHB, maxN>>

MutexLock ==
  /\ pc[0] = "lock"
  /\ ~lockHeld
  /\ lockHeld' = TRUE
  /\ knows' = [knows EXCEPT ![0] = @ \cup lockK]
  /\ sendi' = 1
  /\ Goto(0, IF spawned < curN THEN "channew" ELSE "send")
  /\ UNCHANGED <<bidx, curN, spawned, lockK, chan, chanK, senderLive, rc,
                 rcRel, token, tokenK, handleLive, atomLive, calls, ended,
                 wtask, spur, badAccess, lateCall, wrongIdx, retEarly, retNoHB,
                 maxN>>

\* spawn(): one rendezvous channel, then one thread, per missing worker.
ChanNew ==
  /\ pc[0] = "channew"
  /\ spawned < MaxWorkers
  /\ senderLive' = [senderLive EXCEPT ![spawned + 1] = TRUE]
  /\ Goto(0, "spawn")
  /\ UNCHANGED <<bidx, curN, spawned, sendi, lockHeld, lockK, chan, chanK, rc,
                 rcRel, token, tokenK, handleLive, atomLive, knows, calls,
                 ended, wtask, spur, badAccess, lateCall, wrongIdx, retEarly,
                 retNoHB, maxN>>

Spawn ==
  /\ pc[0] = "spawn"
  /\ spawned' = spawned + 1
  /\ knows' = [knows EXCEPT ![spawned + 1] = knows[0]]
  /\ pc' = [pc EXCEPT ![spawned + 1] = "start",
                      ![0] = IF spawned + 1 < curN THEN "channew" ELSE "send"]
  /\ UNCHANGED <<bidx, curN, sendi, lockHeld, lockK, chan, chanK, senderLive,
                 rc, rcRel, token, tokenK, handleLive, atomLive, calls, ended,
                 wtask, spur, badAccess, lateCall, wrongIdx, retEarly, retNoHB,
                 maxN>>

SendOffer ==
  /\ pc[0] = "send"
  /\ sendi <= curN
  /\ chan[sendi] = "empty"
  /\ chan' = [chan EXCEPT ![sendi] = "offered"]
  /\ chanK' = [chanK EXCEPT ![sendi] = knows[0]]
  /\ Goto(0, "sendwait")
  /\ UNCHANGED <<bidx, curN, spawned, sendi, lockHeld, lockK, senderLive, rc,
                 rcRel, token, tokenK, handleLive, atomLive, knows, calls,
                 ended, wtask, spur, badAccess, lateCall, wrongIdx, retEarly,
                 retNoHB, maxN>>

SendDone ==
  /\ pc[0] = "sendwait"
  /\ chan[sendi] = "taken"
  /\ chan' = [chan EXCEPT ![sendi] = "empty"]
  /\ sendi' = sendi + 1
  /\ Goto(0, IF sendi + 1 <= curN THEN "send" ELSE "unlock")
  /\ UNCHANGED <<bidx, curN, spawned, lockHeld, lockK, chanK, senderLive, rc,
                 rcRel, token, tokenK, handleLive, atomLive, knows, calls,
                 ended, wtask, spur, badAccess, lateCall, wrongIdx, retEarly,
                 retNoHB, maxN>>

MutexUnlock ==
  /\ pc[0] = "unlock"
  /\ lockHeld' = FALSE
  /\ lockK' = knows[0]
  /\ Goto(0, "t0begin")
  /\ UNCHANGED <<bidx, curN, spawned, sendi, chan, chanK, senderLive, rc,
                 rcRel, token, tokenK, handleLive, atomLive, knows, calls,
                 ended, wtask, spur, badAccess, lateCall, wrongIdx, retEarly,
                 retNoHB, maxN>>

\* The task body, bracketed by two harness events.  `i` is the index the
\* task was called with (bound to the logged field in traces).
TaskBegin(t, i) ==
  /\ pc[t] = IF t = 0 THEN "t0begin" ELSE "wbegin"
  /\ calls' = IF i \in T THEN [calls EXCEPT ![i] = @ + 1] ELSE calls
  /\ wrongIdx' = (wrongIdx \/ i # t \/ i > curN)
  /\ lateCall' = (lateCall \/ (t # 0 /\ wtask[t] # bidx))
  /\ badAccess' = (badAccess \/ ~atomLive)
  /\ Goto(t, IF t = 0 THEN "t0end" ELSE "wend")
  /\ UNCHANGED <<bidx, curN, spawned, sendi, lockHeld, lockK, chan, chanK,
                 senderLive, rc, rcRel, token, tokenK, handleLive, atomLive,
                 knows, ended, wtask, spur, retEarly, retNoHB, maxN>>

TaskEnd(t, i, panics) ==
  /\ pc[t] = IF t = 0 THEN "t0end" ELSE "wend"
  /\ ended' = IF i \in T
                THEN [ended EXCEPT ![i] = IF panics THEN "panic" ELSE "ok"]
                ELSE ended
  /\ knows' = [knows EXCEPT ![t] = @ \cup {GhostEv(bidx, i)}]
  /\ Goto(t, IF t = 0 THEN "load" ELSE (IF CloneFirst THEN "clone" ELSE "sub"))
  /\ UNCHANGED <<bidx, curN, spawned, sendi, lockHeld, lockK, chan, chanK,
                 senderLive, rc, rcRel, token, tokenK, handleLive, atomLive,
                 calls, wtask, spur, badAccess, lateCall, wrongIdx, retEarly,
                 retNoHB, maxN>>

LoadCount(ord) ==
  /\ pc[0] = "load"
  /\ knows' = [knows EXCEPT ![0] = IF Acquires(ord) THEN @ \cup rcRel ELSE @]
  /\ badAccess' = (badAccess \/ ~atomLive)
  /\ Goto(0, IF rc > 0 THEN "park" ELSE "hdrop")
  /\ UNCHANGED <<bidx, curN, spawned, sendi, lockHeld, lockK, chan, chanK,
                 senderLive, rc, rcRel, token, tokenK, handleLive, atomLive,
                 calls, ended, wtask, spur, lateCall, wrongIdx, retEarly,
                 retNoHB, maxN>>

\* thread::park(): returns when the token is set (consuming it together with
\* the knowledge deposited by unpark) or spuriously.
Park(spurious) ==
  /\ pc[0] = "park"
  /\ IF spurious
       THEN /\ ~token /\ spur < MaxSpurious
            /\ spur' = spur + 1
            /\ UNCHANGED <<token, tokenK, knows>>
       ELSE /\ token
            /\ token' = FALSE /\ tokenK' = {}
            /\ knows' = [knows EXCEPT ![0] = @ \cup tokenK]
            /\ UNCHANGED spur
  /\ Goto(0, IF ParkLoop THEN "load" ELSE "hdrop")
  /\ UNCHANGED <<bidx, curN, spawned, sendi, lockHeld, lockK, chan, chanK,
                 senderLive, rc, rcRel, handleLive, atomLive, calls, ended,
                 wtask, badAccess, lateCall, wrongIdx, retEarly, retNoHB, maxN>>

\* Drop of the stack-pinned TaskShared: first the handle, then the counter.
HandleDrop0 ==
  /\ pc[0] = "hdrop"
  /\ handleLive' = FALSE
  /\ Goto(0, "adrop")
  /\ UNCHANGED <<bidx, curN, spawned, sendi, lockHeld, lockK, chan, chanK,
                 senderLive, rc, rcRel, token, tokenK, atomLive, knows, calls,
                 ended, wtask, spur, badAccess, lateCall, wrongIdx, retEarly,
                 retNoHB, maxN>>

AtomDrop ==
  /\ pc[0] = "adrop"
  /\ atomLive' = FALSE
  /\ Goto(0, "ret")
  /\ UNCHANGED <<bidx, curN, spawned, sendi, lockHeld, lockK, chan, chanK,
                 senderLive, rc, rcRel, token, tokenK, handleLive, knows,
                 calls, ended, wtask, spur, badAccess, lateCall, wrongIdx,
                 retEarly, retNoHB, maxN>>

\* Harness marker after `par_extend` returned.
BcastReturn ==
  /\ pc[0] = "ret"
  /\ retEarly' = (retEarly \/ \E i \in 0..curN : ended[i] = "none")
  /\ retNoHB' = (retNoHB \/ \E i \in 0..curN : GhostEv(bidx, i) \notin knows[0])
  /\ Goto(0, "idle")
  /\ UNCHANGED <<bidx, curN, spawned, sendi, lockHeld, lockK, chan, chanK,
                 senderLive, rc, rcRel, token, tokenK, handleLive, atomLive,
                 knows, calls, ended, wtask, spur, badAccess, lateCall,
                 wrongIdx, maxN>>

\* The broadcast unwinds instead of returning: the panic payload of the
\* caller's own call is dropped by the pool after the wait, and its
\* destructor may panic.  Everything required of a return is required of
\* this exit as well.
BcastUnwind ==
  /\ pc[0] = "ret"
  /\ ended[0] = "panic"
  /\ retEarly' = (retEarly \/ \E i \in 0..curN : ended[i] = "none")
  /\ retNoHB' = (retNoHB \/ \E i \in 0..curN : GhostEv(bidx, i) \notin knows[0])
  /\ Goto(0, "idle")
  /\ UNCHANGED <<bidx, curN, spawned, sendi, lockHeld, lockK, chan, chanK,
                 senderLive, rc, rcRel, token, tokenK, handleLive, atomLive,
                 knows, calls, ended, wtask, spur, badAccess, lateCall,
                 wrongIdx, maxN>>

\* Harness marker in front of dropping the pool.
PoolDrop ==
  /\ pc[0] = "idle"
  /\ sendi' = 1
  /\ Goto(0, IF spawned > 0 THEN "sdrop" ELSE "exit")
  /\ UNCHANGED <<bidx, curN, spawned, lockHeld, lockK, chan, chanK, senderLive,
                 rc, rcRel, token, tokenK, handleLive, atomLive, knows, calls,
                 ended, wtask, spur, badAccess, lateCall, wrongIdx, retEarly,
                 retNoHB, maxN>>

SenderDrop ==
  /\ pc[0] = "sdrop"
  /\ senderLive' = [senderLive EXCEPT ![sendi] = FALSE]
  /\ sendi' = sendi + 1
  /\ Goto(0, IF sendi + 1 <= spawned THEN "sdrop" ELSE "exit")
  /\ UNCHANGED <<bidx, curN, spawned, lockHeld, lockK, chan, chanK, rc, rcRel,
                 token, tokenK, handleLive, atomLive, knows, calls, ended,
                 wtask, spur, badAccess, lateCall, wrongIdx, retEarly, retNoHB,
                 maxN>>

(***************************************************************************)
(* Worker w.                                                               *)
(***************************************************************************)
Recv(w, ok) ==
  /\ pc[w] = "recv"
  /\ IF ok
       THEN /\ chan[w] = "offered"
            /\ chan' = [chan EXCEPT ![w] = "taken"]
            /\ knows' = [knows EXCEPT ![w] = @ \cup chanK[w]]
            /\ wtask' = [wtask EXCEPT ![w] = bidx]
            /\ Goto(w, "wbegin")
       ELSE /\ chan[w] = "empty" /\ ~senderLive[w]
            /\ Goto(w, "rdrop")
            /\ UNCHANGED <<chan, knows, wtask>>
  /\ UNCHANGED <<bidx, curN, spawned, sendi, lockHeld, lockK, chanK,
                 senderLive, rc, rcRel, token, tokenK, handleLive, atomLive,
                 calls, ended, spur, badAccess, lateCall, wrongIdx, retEarly,
                 retNoHB, maxN>>

HandleClone(w) ==
  /\ pc[w] = "clone"
  /\ badAccess' = (badAccess \/ ~handleLive)
  /\ Goto(w, IF CloneFirst THEN "sub" ELSE "unpark")
  /\ UNCHANGED <<bidx, curN, spawned, sendi, lockHeld, lockK, chan, chanK,
                 senderLive, rc, rcRel, token, tokenK, handleLive, atomLive,
                 knows, calls, ended, wtask, spur, lateCall, wrongIdx, retEarly,
                 retNoHB, maxN>>

FetchSub(w, ord) ==
  /\ pc[w] = "sub"
  /\ badAccess' = (badAccess \/ ~atomLive)
  /\ rc' = rc - 1
  /\ rcRel' = IF Releases(ord) THEN rcRel \cup knows[w] ELSE rcRel
  /\ knows' = [knows EXCEPT ![w] = IF Acquires(ord) THEN @ \cup rcRel ELSE @]
  /\ Goto(w, IF rc = 1 THEN (IF CloneFirst THEN "unpark" ELSE "clone")
                       ELSE (IF CloneFirst THEN "hdropw" ELSE "recv"))
  /\ UNCHANGED <<bidx, curN, spawned, sendi, lockHeld, lockK, chan, chanK,
                 senderLive, token, tokenK, handleLive, atomLive, calls, ended,
                 wtask, spur, lateCall, wrongIdx, retEarly, retNoHB, maxN>>

Unpark(w) ==
  /\ pc[w] = "unpark"
  /\ token' = TRUE
  /\ tokenK' = tokenK \cup knows[w]
  /\ Goto(w, "hdropw")
  /\ UNCHANGED <<bidx, curN, spawned, sendi, lockHeld, lockK, chan, chanK,
                 senderLive, rc, rcRel, handleLive, atomLive, knows, calls,
                 ended, wtask, spur, badAccess, lateCall, wrongIdx, retEarly,
                 retNoHB, maxN>>

HandleDropW(w) ==
  /\ pc[w] = "hdropw"
  /\ Goto(w, "recv")
  /\ UNCHANGED <<bidx, curN, spawned, sendi, lockHeld, lockK, chan, chanK,
                 senderLive, rc, rcRel, token, tokenK, handleLive, atomLive,
                 knows, calls, ended, wtask, spur, badAccess, lateCall,
                 wrongIdx, retEarly, retNoHB, maxN>>

ReceiverDrop(w) ==
  /\ pc[w] = "rdrop"
  /\ Goto(w, "exit")
  /\ UNCHANGED <<bidx, curN, spawned, sendi, lockHeld, lockK, chan, chanK,
                 senderLive, rc, rcRel, token, tokenK, handleLive, atomLive,
                 knows, calls, ended, wtask, spur, badAccess, lateCall,
                 wrongIdx, retEarly, retNoHB, maxN>>

(***************************************************************************)
(* Next-state relation (the exhaustive instance restricts BcastCall and    *)
(* PoolDrop to a fixed history and fixes the orderings).                   *)
(***************************************************************************)
WorkerStep(w, relOrd) ==
  \/ ThreadStart(w)
  \/ \E ok \in BOOLEAN : Recv(w, ok)
  \/ TaskBegin(w, w)
  \/ \E p \in BOOLEAN : TaskEnd(w, w, p)
  \/ HandleClone(w)
  \/ FetchSub(w, relOrd)
  \/ Unpark(w)
  \/ HandleDropW(w)
  \/ ReceiverDrop(w)
  \/ ThreadExit(w)

CallerCoreStep(acqOrd) ==
  \/ ThreadStart(0)
  \/ HandleNew \/ MutexLock \/ ChanNew \/ Spawn \/ SendOffer \/ SendDone
  \/ MutexUnlock
  \/ TaskBegin(0, 0)
  \/ \E p \in BOOLEAN : TaskEnd(0, 0, p)
  \/ LoadCount(acqOrd)
  \/ \E s \in BOOLEAN : Park(s)
  \/ HandleDrop0 \/ AtomDrop \/ BcastReturn \/ BcastUnwind \/ SenderDrop
  \/ ThreadExit(0)

AllDone ==
  /\ pc[0] = "done"
  /\ \A w \in W : pc[w] \in {"unborn", "done"}

(***************************************************************************)
(* Properties.                                                             *)
(***************************************************************************)

\* C06: the task runs exactly once per index 0..n, index 0 on the caller and
\* index i on worker i (distinct pooled threads), and never for another index.
OncePerIndex ==
  /\ \A i \in T : calls[i] <= 1
  /\ \A i \in T : i > curN => calls[i] = 0
  /\ ~wrongIdx
  /\ ~lateCall

\* C06: the broadcast returns only after all n+1 calls returned or panicked.
ReturnAfterAllCalls == ~retEarly

\* C06: the return happens-after every call (what the calls wrote is visible).
ReturnHappensAfterCalls == ~retNoHB

\* C06: no worker touches the broadcast's shared state once it was dropped.
NoAccessAfterDrop == ~badAccess

\* C06: workers are created only when a broadcast needs more than exist.
SpawnOnlyMissing ==
  /\ spawned <= maxN
  /\ pc[0] \notin {"hnew", "lock", "channew", "spawn"} => spawned = maxN

\* Sanity of the primitives themselves.
TypeOK ==
  /\ rc \in 0..MaxWorkers
  /\ spawned \in 0..MaxWorkers
  /\ \A w \in W : chan[w] \in {"empty", "offered", "taken"}

=============================================================================
