---------------------------- MODULE EntryList ----------------------------
(***************************************************************************)
(* The lock-free registration list behind `BENCH_ENTRIES` / `GROUP_ENTRIES`*)
(* (src/entry/list.rs).  Every `#[divan::bench]` / `#[divan::bench_group]` *)
(* item owns one static node; a pre-main constructor pushes it to the      *)
(* front of the list hanging off a static root; the runner later walks the *)
(* list.  The code is written to be thread safe ("despite the fact that    *)
(* constructors are run single-threaded"), so the specification has any    *)
(* number of pushing threads and concurrent readers.                       *)
(*                                                                         *)
(* One action per atomic operation of `push` and `iter`:                   *)
(*                                                                         *)
(*   push(other):  old := root.next                    Load                *)
(*                 loop { other.next := old            StoreNext           *)
(*                        CAS_weak(root.next, old, other)                  *)
(*                          ok   -> return             CasOk               *)
(*                          fail -> old := seen }      CasFail/CasSpurious *)
(*   iter():       cur := root; loop { yield cur.entry; cur := cur.next }  *)
(*                                                     RStep               *)
(***************************************************************************)
EXTENDS Naturals, Sequences, FiniteSets

CONSTANTS
    ThreadIds,    \* ids a pushing thread may have
    Readers,      \* thread ids that iterate (concurrently with the pushes)
    Plans,        \* the programs considered: each a function from a set of pushing
                  \* threads to the sequence of nodes that thread pushes, in order
    MaxSpurious   \* how often a weak compare-exchange may fail for no reason

Null == 0
Root == 1

VARIABLES
    NodesOf,  \* the plan of this behaviour (chosen initially, never changed; a
              \* variable so that a trace can supply it, see EntryListTrace.tla)
    next,     \* [AllNodes \cup {Root} -> AllNodes \cup {Null}]: the `next` field of every node
    pc,       \* [Pushers -> {"load", "store", "cas", "done"}]
    idx,      \* [Pushers -> Nat]: which of its nodes the thread is pushing
    old,      \* [Pushers -> node]: the thread's local `old_next`
    spur,     \* spurious failures so far
    order,    \* history: nodes in the order their compare-exchange succeeded
    rpc,      \* [Readers -> {"start", "walk", "done"}]
    cur,      \* [Readers -> node]: the reader's cursor
    seen,     \* [Readers -> Seq(node)]: what the reader has yielded
    snap      \* [Readers -> Seq(node)]: the list when the reader read root.next

vars == <<NodesOf, next, pc, idx, old, spur, order, rpc, cur, seen, snap>>

Pushers == DOMAIN NodesOf
AllNodes == UNION {{NodesOf[t][i] : i \in 1..Len(NodesOf[t])} : t \in Pushers}

(* A plan names every node once, none of them the root or null.             *)
WellFormed(plan) ==
    /\ DOMAIN plan \subseteq ThreadIds
    /\ DOMAIN plan \cap Readers = {}
    /\ \A t, u \in DOMAIN plan : \A i \in 1..Len(plan[t]) : \A j \in 1..Len(plan[u]) :
           /\ plan[t][i] > Root
           /\ plan[t][i] = plan[u][j] => t = u /\ i = j

Reverse(s) == [i \in 1..Len(s) |-> s[Len(s) + 1 - i]]

Node(t) == NodesOf[t][idx[t]]

(* The nodes met from `n` on by following `next`, at most `k` of them.  A    *)
(* list that is cyclic shows as a walk longer than the number of nodes.     *)
RECURSIVE WalkFrom(_, _, _)
WalkFrom(nx, n, k) ==
    IF n = Null \/ k = 0 THEN <<>> ELSE <<n>> \o WalkFrom(nx, nx[n], k - 1)

Bound == Cardinality(AllNodes) + 1

List == WalkFrom(next, next[Root], Bound)

Init ==
    /\ NodesOf \in Plans
    /\ WellFormed(NodesOf)
    /\ next = [n \in AllNodes \cup {Root} |-> Null]
    /\ pc = [t \in Pushers |-> IF Len(NodesOf[t]) = 0 THEN "done" ELSE "load"]
    /\ idx = [t \in Pushers |-> 1]
    /\ old = [t \in Pushers |-> Null]
    /\ spur = 0
    /\ order = <<>>
    /\ rpc = [r \in Readers |-> "start"]
    /\ cur = [r \in Readers |-> Root]
    /\ seen = [r \in Readers |-> <<>>]
    /\ snap = [r \in Readers |-> <<>>]

Load(t) ==
    /\ pc[t] = "load"
    /\ old' = [old EXCEPT ![t] = next[Root]]
    /\ pc' = [pc EXCEPT ![t] = "store"]
    /\ UNCHANGED <<NodesOf, next, idx, spur, order, rpc, cur, seen, snap>>

StoreNext(t) ==
    /\ pc[t] = "store"
    /\ next' = [next EXCEPT ![Node(t)] = old[t]]
    /\ pc' = [pc EXCEPT ![t] = "cas"]
    /\ UNCHANGED <<NodesOf, idx, old, spur, order, rpc, cur, seen, snap>>

CasOk(t) ==
    /\ pc[t] = "cas"
    /\ next[Root] = old[t]
    /\ next' = [next EXCEPT ![Root] = Node(t)]
    /\ order' = Append(order, Node(t))
    /\ IF idx[t] < Len(NodesOf[t])
         THEN idx' = [idx EXCEPT ![t] = @ + 1] /\ pc' = [pc EXCEPT ![t] = "load"]
         ELSE idx' = idx /\ pc' = [pc EXCEPT ![t] = "done"]
    /\ UNCHANGED <<NodesOf, old, spur, rpc, cur, seen, snap>>

CasFail(t) ==
    /\ pc[t] = "cas"
    /\ next[Root] # old[t]
    /\ old' = [old EXCEPT ![t] = next[Root]]
    /\ pc' = [pc EXCEPT ![t] = "store"]
    /\ UNCHANGED <<NodesOf, next, idx, spur, order, rpc, cur, seen, snap>>

CasSpurious(t) ==
    /\ pc[t] = "cas"
    /\ next[Root] = old[t]
    /\ spur < MaxSpurious
    /\ spur' = spur + 1
    /\ pc' = [pc EXCEPT ![t] = "store"]
    /\ UNCHANGED <<NodesOf, next, idx, old, order, rpc, cur, seen, snap>>

(* One step of `iter`: yield the current node's entry (the root has none)  *)
(* and load its `next`.  The first step reads root.next: from then on the  *)
(* reader is committed to the list as it was at that moment.               *)
RStep(r) ==
    /\ rpc[r] \in {"start", "walk"}
    /\ IF cur[r] = Null
         THEN /\ rpc' = [rpc EXCEPT ![r] = "done"]
              /\ UNCHANGED <<cur, seen, snap>>
         ELSE /\ rpc' = [rpc EXCEPT ![r] = "walk"]
              /\ seen' = [seen EXCEPT ![r] = IF cur[r] = Root THEN @ ELSE Append(@, cur[r])]
              /\ cur' = [cur EXCEPT ![r] = next[cur[r]]]
              /\ snap' = [snap EXCEPT ![r] = IF cur[r] = Root THEN Reverse(order) ELSE @]
    /\ UNCHANGED <<NodesOf, next, pc, idx, old, spur, order>>

PushStep(t) == Load(t) \/ StoreNext(t) \/ CasOk(t) \/ CasFail(t) \/ CasSpurious(t)

Next == (\E t \in Pushers : PushStep(t)) \/ (\E r \in Readers : RStep(r))

Spec == Init /\ [][Next]_vars
FairSpec == /\ Spec
            /\ \A t \in ThreadIds : WF_vars(t \in Pushers /\ PushStep(t))
            /\ \A r \in Readers : WF_vars(RStep(r))

---------------------------------------------------------------------------
AllPushed == \A t \in Pushers : pc[t] = "done"

TypeOK ==
    /\ next \in [AllNodes \cup {Root} -> AllNodes \cup {Null}]
    /\ pc \in [Pushers -> {"load", "store", "cas", "done"}]
    /\ \A t \in Pushers : pc[t] # "done" => idx[t] \in 1..Len(NodesOf[t])
    /\ spur \in 0..MaxSpurious

(* Linearizability: at every moment the list is exactly the successfully   *)
(* pushed nodes, most recent first (so acyclic and duplicate free).        *)
ListIsHistory == List = Reverse(order)

NoDuplicates == \A i, j \in 1..Len(order) : order[i] = order[j] => i = j

(* When every push has returned, every node is in the list exactly once.   *)
EveryEntryExactlyOnce ==
    AllPushed => /\ Len(List) = Cardinality(AllNodes)
                 /\ {List[i] : i \in 1..Len(List)} = AllNodes

(* Entries of one thread appear in the reverse of its program order.       *)
PerThreadLifo ==
    \A t \in Pushers : \A i, j \in 1..Len(NodesOf[t]) :
        (i < j /\ \E k \in 1..Len(order) : order[k] = NodesOf[t][j]) =>
            \E a, b \in 1..Len(order) : a < b /\ order[a] = NodesOf[t][i] /\ order[b] = NodesOf[t][j]

(* A reader yields exactly the list as it was when it read root.next, even *)
(* while pushes go on.                                                     *)
ReaderSeesSnapshot ==
    \A r \in Readers :
        /\ rpc[r] = "walk" => seen[r] \o WalkFrom(next, cur[r], Bound) = snap[r]
        /\ rpc[r] = "done" => seen[r] = snap[r]

(* A published node's link never changes again.                            *)
PublishedLinksFrozen ==
    [][\A i \in 1..Len(order) : next'[order[i]] = next[order[i]]]_vars

Termination == <>(AllPushed /\ \A r \in Readers : rpc[r] = "done")
=============================================================================
