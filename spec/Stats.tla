------------------------------- MODULE Stats -------------------------------
(***************************************************************************)
(* Statistics over a finite sequence of recorded samples, as C05 states    *)
(* them: exact order statistics of the sample durations divided by the     *)
(* sample size, in integer picoseconds, and the association of allocation  *)
(* and counter figures with the very samples that supplied each time.      *)
(* Ties between equal durations may be resolved either way.                *)
(***************************************************************************)
EXTENDS Integers, Sequences, FiniteSets, TLC

Range(s) == {s[i] : i \in DOMAIN s}
RECURSIVE SumSeq(_)
SumSeq(s) == IF s = <<>> THEN 0 ELSE Head(s) + SumSeq(Tail(s))

\* k-th smallest value of a non-empty sequence (1-based rank).
Kth(d, k) ==
  CHOOSE v \in Range(d) :
    /\ Cardinality({i \in DOMAIN d : d[i] < v}) < k
    /\ Cardinality({i \in DOMAIN d : d[i] <= v}) >= k

\* Indices that may occupy rank k in some duration-sorted permutation.
AtRank(d, k) == {i \in DOMAIN d : d[i] = Kth(d, k)}

N(d) == Len(d)
Odd(d) == N(d) % 2 = 1
Lo(d) == IF Odd(d) THEN (N(d) + 1) \div 2 ELSE N(d) \div 2
Hi(d) == IF Odd(d) THEN (N(d) + 1) \div 2 ELSE N(d) \div 2 + 1
MedianCount(d) == IF N(d) = 0 THEN 0 ELSE IF Odd(d) THEN 1 ELSE 2

Fastest(d, size) == IF N(d) = 0 THEN 0 ELSE Kth(d, 1) \div size
Slowest(d, size) == IF N(d) = 0 THEN 0 ELSE Kth(d, N(d)) \div size
Median(d, size) ==
  IF N(d) = 0 THEN 0
  ELSE IF Odd(d) THEN Kth(d, Lo(d)) \div size
  ELSE ((Kth(d, Lo(d)) + Kth(d, Hi(d))) \div 2) \div size
Mean(d, size) ==
  IF N(d) = 0 \/ size = 0 THEN 0 ELSE SumSeq(d) \div (size * N(d))

\* Choices of "the very samples": <<fastest, slowest, median lo, median hi>>.
Choices(d) ==
  IF N(d) = 0 THEN {}
  ELSE {c \in AtRank(d, 1) \X AtRank(d, N(d)) \X AtRank(d, Lo(d)) \X AtRank(d, Hi(d)) :
          Odd(d) \/ c[3] # c[4]}

\* round(1000 * num / den), the unit in which floating figures are logged.
Milli(num, den) == (2000 * num + den) \div (2 * den)
Close(logged, num, den) == logged - Milli(num, den) \in {-1, 0, 1}
=============================================================================
