----------------------------- MODULE Counters -----------------------------
(***************************************************************************)
(* The counter bookkeeping of one benchmark (src/counter/collection.rs and *)
(* its callers in src/benchmark/mod.rs).  For each counter kind the code   *)
(* keeps a vector `counts` and an optional per-input counting function:    *)
(*                                                                         *)
(*   Bencher::counter(k, v)       SetCounter    (constant for all samples) *)
(*   Bencher::input_counter(k)    SetInput      (one count per sample)     *)
(*   a recorded sample            Sample        (pushes one count per kind *)
(*                                               with an input counter)    *)
(*   a tuning round is discarded  Discard       (clear_input_counts)       *)
(*                                                                         *)
(* Declaratively (documentation of Bencher::counter: "assign a new counter *)
(* or override an existing counter of the same type"; an input counter     *)
(* "ignores previously-set counts"): the LAST call for a kind decides.     *)
(* The statistics then read `counts[i]` for sample i when the kind is      *)
(* counted per input and `counts[0]` otherwise.  The invariant says that   *)
(* this is always the count that belongs to that sample.                   *)
(***************************************************************************)
EXTENDS Naturals, Sequences

CONSTANTS Kinds, Values, MaxSamples,
          OverrideDropsInput   \* TRUE: SetCounter removes the input counter of its kind
                               \* (the code after the F6 fix); FALSE: the code before it

VARIABLES counts,     \* [Kinds -> Seq(Values)]           the code's vectors
          perInput,   \* [Kinds -> BOOLEAN]               count_input.is_some()
          last,       \* [Kinds -> {"none","const","input"}]  which call came last (ghost)
          constVal,   \* [Kinds -> Values]                its value, if constant (ghost)
          truth,      \* [Kinds -> Seq(Values)]           per-input count of each recorded sample (ghost)
          nSamples,
          started     \* sampling has begun: the Bencher can no longer be configured

vars == <<counts, perInput, last, constVal, truth, nSamples, started>>

Init ==
  /\ counts = [k \in Kinds |-> <<>>]
  /\ perInput = [k \in Kinds |-> FALSE]
  /\ last = [k \in Kinds |-> "none"]
  /\ constVal = [k \in Kinds |-> CHOOSE v \in Values : TRUE]
  /\ truth = [k \in Kinds |-> <<>>]
  /\ nSamples = 0
  /\ started = FALSE

(* set_counter: overwrite the first entry or push one                       *)
SetCounter(k, v) ==
  /\ ~started
  /\ LET base == IF OverrideDropsInput /\ perInput[k] THEN <<>> ELSE counts[k] IN
     counts' = [counts EXCEPT ![k] = IF base = <<>> THEN <<v>> ELSE [base EXCEPT ![1] = v]]
  /\ perInput' = IF OverrideDropsInput THEN [perInput EXCEPT ![k] = FALSE] ELSE perInput
  /\ last' = [last EXCEPT ![k] = "const"]
  /\ constVal' = [constVal EXCEPT ![k] = v]
  /\ UNCHANGED <<truth, nSamples, started>>

(* set_input_counter: ignore previously-set counts                          *)
SetInput(k) ==
  /\ ~started
  /\ counts' = [counts EXCEPT ![k] = <<>>]
  /\ perInput' = [perInput EXCEPT ![k] = TRUE]
  /\ last' = [last EXCEPT ![k] = "input"]
  /\ UNCHANGED <<constVal, truth, nSamples, started>>

(* one recorded sample whose inputs count c[k] for each kind                *)
Sample(c) ==
  /\ nSamples < MaxSamples
  /\ started' = TRUE
  /\ counts' = [k \in Kinds |-> IF perInput[k] THEN Append(counts[k], c[k]) ELSE counts[k]]
  /\ truth' = [k \in Kinds |-> Append(truth[k], c[k])]
  /\ nSamples' = nSamples + 1
  /\ UNCHANGED <<perInput, last, constVal>>

(* the samples so far were tuning samples: they are discarded with their    *)
(* counter data                                                             *)
Discard ==
  /\ started /\ nSamples > 0
  /\ counts' = [k \in Kinds |-> IF perInput[k] THEN <<>> ELSE counts[k]]
  /\ truth' = [k \in Kinds |-> <<>>]
  /\ nSamples' = 0
  /\ UNCHANGED <<perInput, last, constVal, started>>

Next ==
  \/ \E k \in Kinds, v \in Values : SetCounter(k, v)
  \/ \E k \in Kinds : SetInput(k)
  \/ \E c \in [Kinds -> Values] : Sample(c)
  \/ Discard

Spec == Init /\ [][Next]_vars

---------------------------------------------------------------------------
(* What compute_stats reads for sample i (1-based) of kind k.               *)
Shown(k, i) ==
  IF perInput[k] THEN (IF i <= Len(counts[k]) THEN <<counts[k][i]>> ELSE <<>>)
  ELSE (IF counts[k] = <<>> THEN <<>> ELSE <<counts[k][1]>>)

(* What it should read: decided by the last call for that kind.             *)
Expected(k, i) ==
  CASE last[k] = "none" -> <<>>
    [] last[k] = "const" -> <<constVal[k]>>
    [] last[k] = "input" -> <<truth[k][i]>>

FiguresBelongToTheirSamples ==
  \A k \in Kinds : \A i \in 1..nSamples : Shown(k, i) = Expected(k, i)

(* The mean is taken over exactly the recorded samples.                     *)
MeanOverRecordedSamples ==
  \A k \in Kinds : perInput[k] => Len(counts[k]) = nSamples
=============================================================================
