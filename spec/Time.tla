-------------------------------- MODULE Time --------------------------------
(***************************************************************************)
(* Property C11: what divan's time conversions are documented to compute.  *)
(*                                                                         *)
(*   Elapsed(a, b, f)      timestamp-counter readings a (earlier) and b    *)
(*                         (later) at a counter frequency of f Hz, in      *)
(*                         picoseconds: floor((b - a) * 10^12 / f), and 0  *)
(*                         when b < a                                      *)
(*   FromDuration(s, n)    a std Duration of s seconds and n nanoseconds   *)
(*                         in picoseconds: exactly its nanoseconds * 1000  *)
(*   Precision             the smallest non-zero difference the timer can  *)
(*                         measure; for a clock that advances in uniform   *)
(*                         steps it is that step                           *)
(*                                                                         *)
(* All values are BigNat (the counter is 64-bit, picoseconds are 128-bit). *)
(* The module has no variables; MC_Time drives the precision loop below as *)
(* a state machine and checks the algebraic laws of Elapsed, NumTrace      *)
(* evaluates the operators on the inputs the real code was called with.    *)
(***************************************************************************)
EXTENDS BigNat

PicosPerSec == Pow10(12)

U64Max == Sub(Pow2(64), One)
U128Max == Sub(Pow2(128), One)

Elapsed(a, b, f) ==
  IF Lt(b, a) THEN Zero ELSE Div(MulPow10(Sub(b, a), 12), f)

\* nanos is a native integer below 10^9.
FromDuration(secs, nanos) ==
  MulSmall(Add(MulPow10(secs, 9), FromInt(nanos)), 1000)

\* The declarative clause: a clock advancing in uniform steps of `step` ticks.
PrecisionOfUniformClock(step, f) == Elapsed(Zero, step, f)

(***************************************************************************)
(* The measuring loop (src/time/timer.rs, measure_precision) as a          *)
(* transition function over the samples it takes.  One sample = one pair   *)
(* of clock readings taken in immediate succession.  The loop keeps the    *)
(* smallest non-zero sample and stops once that minimum was seen again 100 *)
(* times; after 100 fruitless blocks of 100 samples it settles for the     *)
(* minimum as soon as a larger sample shows up.                            *)
(***************************************************************************)
PrecInit == [has |-> FALSE, min |-> Zero, seen |-> 0, iter |-> 0,
             done |-> FALSE, result |-> Zero]

PrecStep(s, sample) ==
  IF s.done THEN s
  ELSE LET blocks == s.iter \div 100      \* completed blocks of 100 samples
           s1 == [s EXCEPT !.iter = @ + 1]
       IN IF sample = Zero THEN s1
          ELSE IF ~s.has \/ Lt(sample, s.min)
            THEN [s1 EXCEPT !.has = TRUE, !.min = sample, !.seen = 0]
          ELSE IF sample = s.min
            THEN IF s.seen + 1 >= 100
                   THEN [s1 EXCEPT !.seen = @ + 1, !.done = TRUE, !.result = s.min]
                   ELSE [s1 EXCEPT !.seen = @ + 1]
          ELSE IF blocks > 100
            THEN [s1 EXCEPT !.done = TRUE, !.result = s.min]
          ELSE s1

\* The loop run over a finite script of clock readings (native integers),
\* consumed pairwise: (reads[1], reads[2]), (reads[3], reads[4]), ...
\* A pair without a tick in between is a zero sample, which only counts as
\* an iteration; the fold therefore visits the pairs that saw the counter
\* move and takes the iteration count from the pair's position.
RECURSIVE PrecRunAt(_, _, _, _, _)
PrecRunAt(reads, f, moved, k, s) ==
  IF s.done \/ k > Len(moved) THEN s
  ELSE LET j == moved[k]
       IN PrecRunAt(reads, f, moved, k + 1,
                    PrecStep([s EXCEPT !.iter = j - 1],
                             Elapsed(FromInt(reads[2 * j - 1]), FromInt(reads[2 * j]), f)))

PrecRun(reads, f) ==
  LET moved == SelectSeq([j \in 1..(Len(reads) \div 2) |-> j],
                         LAMBDA j : reads[2 * j] > reads[2 * j - 1])
  IN PrecRunAt(reads, f, moved, 1, PrecInit)
=============================================================================
