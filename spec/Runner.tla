------------------------------- MODULE Runner -------------------------------
(***************************************************************************)
(* The runner pipeline of divan (src/divan.rs, src/entry/tree.rs), as the  *)
(* properties C12-C17 and C20 state it, declaratively:                     *)
(*                                                                         *)
(*   registry -> tree (by module path, groups attached by name)            *)
(*            -> selection by filters on full display paths (C13)          *)
(*            -> sibling order per --sort / --sortr (C16)                  *)
(*            -> depth-first walk: listing, ignoring, thread-count         *)
(*               branches, argument cases, effective options (C14, C15,    *)
(*               C17) and the printed tree (C20)                           *)
(*                                                                         *)
(* Names are sequences of code points.  A program P and a configuration C  *)
(* are the records rendered by lib/progs.py (benches, groups, generic      *)
(* instances; filters, sort key, ignore mode, option sources).  This       *)
(* module defines what SHOULD be selected, shown and executed; the trace   *)
(* specification RunnerTrace compares it with what the real runner did.    *)
(***************************************************************************)
EXTENDS Integers, Sequences, FiniteSets, TLC, Names, Filters, Options

Colons == <<58, 58>>
\* display name of a module component: raw identifier prefix r# stripped
StripRaw(c) == IF Len(c) >= 2 /\ c[1] = 114 /\ c[2] = 35 THEN SubSeq(c, 3, Len(c)) ELSE c

RECURSIVE JoinAll(_)
JoinAll(path) ==
  IF Len(path) = 0 THEN <<>>
  ELSE IF Len(path) = 1 THEN path[1]
  ELSE JoinAll(SubSeq(path, 1, Len(path) - 1)) \o Colons \o path[Len(path)]

Prefixes(path) == {SubSeq(path, 1, n) : n \in 1..(Len(path) - 1)}
Last(s) == s[Len(s)]
Front(s) == SubSeq(s, 1, Len(s) - 1)

Loc(e) == [file |-> e.file_cp, line |-> e.line, col |-> e.col]
\* (file, line, column) lexicographically; files byte-wise
LocCmp(a, b) ==
  LET f == Lex(a.file, b.file)
  IN IF f # 0 THEN f
     ELSE IF a.line # b.line THEN Sgn(a.line - b.line)
     ELSE Sgn(a.col - b.col)

(***************************************************************************)
(* C12: display names, declaratively.                                      *)
(*   - an item is shown under its raw name without the r# prefix unless    *)
(*     `name = ".."` was written, which overrides it;                      *)
(*   - a type is shown as its `type_name` with the leading module path     *)
(*     components removed, never looking past the first generic bracket;   *)
(*   - a const is shown as its value prints.                               *)
(* Programs of back-end M carry only what was WRITTEN (raw name, optional  *)
(* custom name, raw type_name, const value); programs of back-end R carry  *)
(* the names they registered (name_cp, type_cp, const_cp).                 *)
(***************************************************************************)
EntryDisplay(e) ==
  IF "custom_name" \in DOMAIN e
    THEN (IF e.custom_name = <<>> THEN StripRaw(e.raw_cp) ELSE e.custom_name[1])
    ELSE e.name_cp

\* the suffix after the last "::" that lies entirely before the first "<"
(* The label of a type: its std::any::type_name with the module path of a   *)
(* LEADING path removed ("alloc::string::String" -> "String",               *)
(* "alloc::vec::Vec<c::T0>" -> "Vec<c::T0>").  Only whole module components  *)
(* (plain identifiers followed by "::") are removed, so a type expression    *)
(* that does not begin with a path keeps everything: "&alloc::string::String"*)
(* , "(alloc::string::String, i32)", "[T; 2]", "fn(A) -> B", "dyn m::Tr".    *)
IsIdentCp(c) == (c >= 48 /\ c <= 57) \/ (c >= 65 /\ c <= 90) \/ (c >= 97 /\ c <= 122) \/ c = 95 \/ c > 127
RECURSIVE TypeDisplay(_)
TypeDisplay(raw) ==
  LET seps == {i \in 1..(Len(raw) - 1) : raw[i] = 58 /\ raw[i + 1] = 58} IN
  IF seps = {} THEN raw
  ELSE LET i == CHOOSE x \in seps : \A y \in seps : x <= y IN
       IF i > 1 /\ \A j \in 1..(i - 1) : IsIdentCp(raw[j])
         THEN TypeDisplay(SubSeq(raw, i + 2, Len(raw)))
         ELSE raw

RECURSIVE NatText(_)
NatText(n) == IF n < 10 THEN <<48 + n>> ELSE NatText(n \div 10) \o <<48 + (n % 10)>>
IntText(n) == IF n < 0 THEN <<45>> \o NatText(0 - n) ELSE NatText(n)

TypeCp(x) == IF "type_cp" \in DOMAIN x THEN x.type_cp ELSE TypeDisplay(x.type_raw_cp)
ConstCp(x) == IF "const_cp" \in DOMAIN x THEN x.const_cp ELSE IntText(x.const)

(***************************************************************************)
(* Leaves: one per plain #[divan::bench] function and one per generic      *)
(* instantiation (types x consts); a leaf with `isArgs` has one case per   *)
(* argument.                                                               *)
(***************************************************************************)
PlainLeaf(P, i) ==
  LET b == P.benches[i] IN
  [what |-> "b", id |-> i - 1, parents |-> b.mods_cp, disp |-> EntryDisplay(b),
   isArgs |-> b.is_args, args |-> b.args_cp, loc |-> Loc(b), opts |-> b.opts_rec,
   group |-> 0, row |-> 0, decl |-> 0, isConst |-> FALSE, constVal |-> 0,
   bcounter |-> b.bencher_counter]

RowOf(g, gi) == CHOOSE rr \in 1..Len(g.generic.rows) : \E k \in 1..Len(g.generic.rows[rr]) : g.generic.rows[rr][k] = gi
PosInRow(g, gi) == LET rr == RowOf(g, gi) IN CHOOSE k \in 1..Len(g.generic.rows[rr]) : g.generic.rows[rr][k] = gi

GenericLeaf(P, j) ==
  LET x == P.ginst[j]
      g == P.groups[x.group + 1]
  IN
  [what |-> "g", id |-> j - 1,
   \* module path, then the function (group) name, then - for types x consts -
   \* the type as an intermediate level
   parents |-> g.mods_cp \o <<g.raw_cp>> \o (IF x.has_const /\ x.has_type THEN <<TypeCp(x)>> ELSE <<>>),
   disp |-> IF x.has_const THEN ConstCp(x) ELSE TypeCp(x),
   isArgs |-> g.generic.kind = "args",
   args |-> IF g.generic.kind = "args" THEN g.generic.args_cp ELSE <<>>,
   loc |-> Loc(g), opts |-> g.opts_rec,
   group |-> x.group + 1, row |-> RowOf(g, j - 1), decl |-> PosInRow(g, j - 1),
   isConst |-> x.has_const, constVal |-> x.const, bcounter |-> <<>>]

Leaves(P) == {PlainLeaf(P, i) : i \in 1..Len(P.benches)} \cup {GenericLeaf(P, j) : j \in 1..Len(P.ginst)}

(***************************************************************************)
(* Parents: tree nodes are identified by their RAW path (module            *)
(* components); a #[divan::bench_group] whose module path and raw name     *)
(* match contributes its display name and options.                         *)
(***************************************************************************)
StripAll(path) == [i \in 1..Len(path) |-> StripRaw(path[i])]
GroupsAt(P, rawPath) ==
  {g \in 1..Len(P.groups) : StripAll(P.groups[g].mods_cp) = StripAll(Front(rawPath))
                             /\ StripRaw(P.groups[g].raw_cp) = StripRaw(Last(rawPath))}
HasGroup(P, rawPath) == Len(rawPath) >= 2 /\ GroupsAt(P, rawPath) # {}
GroupOf(P, rawPath) == P.groups[CHOOSE g \in GroupsAt(P, rawPath) : TRUE]
DisplayOf(P, rawPath) == IF HasGroup(P, rawPath) THEN EntryDisplay(GroupOf(P, rawPath)) ELSE StripRaw(Last(rawPath))

DispParents(P, leaf) == [i \in 1..Len(leaf.parents) |-> DisplayOf(P, SubSeq(leaf.parents, 1, i))]
DispPath(P, leaf) == DispParents(P, leaf) \o <<leaf.disp>>

(***************************************************************************)
(* C13: selection per case by the full display path.                       *)
(***************************************************************************)
CasePath(P, leaf, k) == JoinAll(DispPath(P, leaf)) \o Colons \o leaf.args[k]
SelectedArgs(P, C, leaf) == {k \in 1..Len(leaf.args) : IsMatch(C.filters, CasePath(P, leaf, k))}
LeafSelected(P, C, leaf) ==
  IF leaf.isArgs THEN SelectedArgs(P, C, leaf) # {}
  ELSE IsMatch(C.filters, JoinAll(DispPath(P, leaf)))
SelectedLeaves(P, C) == {leaf \in Leaves(P) : LeafSelected(P, C, leaf)}

(***************************************************************************)
(* C15: effective options of a leaf.                                       *)
(***************************************************************************)
RunnerOptions(C) ==
  Overwrite(C.src_after_rec, Overwrite(C.src_cli_rec, Overwrite(C.src_env_rec, C.src_before_rec)))

\* options of the enclosing groups, innermost first
RECURSIVE GroupChain(_, _, _)
GroupChain(P, rawParents, n) ==
  IF n < 2 THEN <<>>
  ELSE (IF HasGroup(P, SubSeq(rawParents, 1, n)) THEN <<GroupOf(P, SubSeq(rawParents, 1, n)).opts_rec>> ELSE <<>>)
       \o GroupChain(P, rawParents, n - 1)

EffectiveOf(P, C, leaf) ==
  Effective(RunnerOptions(C), leaf.opts, GroupChain(P, leaf.parents, Len(leaf.parents)))
Runs(P, C, leaf) == EffectiveShouldRun(C.run_ignored, EffectiveOf(P, C, leaf))
ThreadsOf(P, C, leaf, par) == EffectiveThreadCounts(EffectiveOf(P, C, leaf), par)

(***************************************************************************)
(* Rows of the printed tree, as a function from display paths to kinds.    *)
(***************************************************************************)
RECURSIVE Digits(_)
Digits(n) == IF n < 10 THEN <<48 + n>> ELSE Digits(n \div 10) \o <<48 + (n % 10)>>
ThreadLabel(n) == <<116, 61>> \o Digits(n)    \* "t=N"

BenchRows(dp, threads) ==
  IF Len(threads) > 1
    THEN {<<dp, "parent">>} \cup {<<dp \o <<ThreadLabel(threads[i])>>, "leaf">> : i \in 1..Len(threads)}
    ELSE {<<dp, "leaf">>}

LeafRows(P, C, leaf, par) ==
  LET dp == DispPath(P, leaf) IN
  IF ~Runs(P, C, leaf) THEN {<<dp, "ignored">>}
  ELSE IF C.action = "list" THEN {<<dp, "leaf">>}
  ELSE IF leaf.isArgs
    THEN {<<dp, "parent">>}
         \cup UNION {BenchRows(dp \o <<leaf.args[k]>>, ThreadsOf(P, C, leaf, par)) : k \in SelectedArgs(P, C, leaf)}
  ELSE BenchRows(dp, ThreadsOf(P, C, leaf, par))

ExpectedRows(P, C, par) ==
  LET sel == SelectedLeaves(P, C) IN
  UNION {LeafRows(P, C, leaf, par) : leaf \in sel}
  \cup {<<pp, "parent">> : pp \in UNION {Prefixes(DispPath(P, leaf)) : leaf \in sel}}

(***************************************************************************)
(* C16: order of siblings.  Every comparison yields the SET of permitted   *)
(* results (the statement leaves some ties open, see Names.tla).           *)
(***************************************************************************)
\* location of a node: its own (benchmark / group), else the earliest of its children
RECURSIVE NodeLoc(_, _, _, _)
NodeLoc(P, C, rawPath, depthLeft) ==
  LET sel == SelectedLeaves(P, C)
      leavesHere == {lf \in sel : lf.parents = rawPath}
      childPaths == {SubSeq(lf.parents, 1, Len(rawPath) + 1) : lf \in {x \in sel : Len(x.parents) > Len(rawPath) /\ SubSeq(x.parents, 1, Len(rawPath)) = rawPath}}
      locs == {lf.loc : lf \in leavesHere}
              \cup (IF depthLeft = 0 THEN {} ELSE {NodeLoc(P, C, cp, depthLeft - 1) : cp \in childPaths})
  IN IF HasGroup(P, rawPath) THEN Loc(GroupOf(P, rawPath))
     ELSE CHOOSE m \in locs : \A o \in locs : LocCmp(m, o) <= 0

\* a sibling: [leafish, name, isConst, constVal, loc, group, row, decl, hasAddr]
LeafSib(leaf) ==
  [leafish |-> TRUE, name |-> leaf.disp, isConst |-> leaf.isConst, constVal |-> leaf.constVal,
   loc |-> leaf.loc, group |-> leaf.group, row |-> leaf.row, decl |-> leaf.decl, hasAddr |-> TRUE]
ParentSib(P, C, rawPath) ==
  [leafish |-> FALSE, name |-> DisplayOf(P, rawPath), isConst |-> FALSE, constVal |-> 0,
   loc |-> NodeLoc(P, C, rawPath, 6), group |-> 0, row |-> 0, decl |-> 0, hasAddr |-> HasGroup(P, rawPath)]

SibKeySet(key, x, y) ==
  CASE key = "kind" -> {Sgn((IF x.leafish THEN 0 ELSE 1) - (IF y.leafish THEN 0 ELSE 1))}
    [] key = "name" ->
         IF x.leafish /\ y.leafish /\ x.isConst /\ y.isConst
           THEN {ConstCmp(Sgn(x.constVal - y.constVal), x.name, y.name)}
           ELSE NaturalCmpSet(x.name, y.name)
    [] key = "location" ->
         LET c == LocCmp(x.loc, y.loc) IN
         IF c # 0 THEN {c}
         \* instantiations of one benchmark keep their declaration order
         ELSE IF x.group # 0 /\ x.group = y.group /\ x.row = y.row THEN {Sgn(x.decl - y.decl)}
         \* equal positions of distinct items: the statement does not order them
         ELSE IF x.hasAddr /\ y.hasAddr THEN {-1, 1}
         ELSE {0}

RECURSIVE SibChainSet(_, _, _, _)
SibChainSet(keys, i, x, y) ==
  IF i > Len(keys) THEN {0}
  ELSE LET S == SibKeySet(keys[i], x, y)
       IN (S \ {0}) \cup (IF 0 \in S THEN SibChainSet(keys, i + 1, x, y) ELSE {})

SibCmpSet(C, x, y) ==
  LET S == SibChainSet(TieBreakers(C.sort_key), 1, x, y)
  IN IF C.reverse THEN NegSet(S) ELSE S

(***************************************************************************)
(* C12: what the attribute macros must have registered for a WRITTEN       *)
(* program (back-end M).  `reg` is the registry a compiled program dumps:  *)
(* reg.benches (one record per BenchEntry), reg.groups (one per GroupEntry *)
(* with its generic instances).  Both sides are brought to the same        *)
(* shape; the thread-count list of an option record is compared as a set   *)
(* (order and repetition of counts carry no meaning, see Options.tla).     *)
(***************************************************************************)
SeqRange(q) == {q[i] : i \in 1..Len(q)}
NormOpts(o) == [k \in OptKeys |-> IF k = "threads" /\ IsSet(o[k]) THEN <<SeqRange(o[k][1])>> ELSE o[k]]

\* `r#x` and `x` are the same identifier; whether module_path!() spells a raw module name with
\* its prefix is the compiler's business (rustc keeps it for keywords only): module paths are
\* compared without the prefixes.  (Drops "r#" at the start and after every "::".)
RECURSIVE UnrawFrom(_, _, _)
UnrawFrom(s, i, atStart) ==
  IF i > Len(s) THEN <<>>
  ELSE IF atStart /\ i + 1 <= Len(s) /\ s[i] = 114 /\ s[i + 1] = 35 THEN UnrawFrom(s, i + 2, FALSE)
  ELSE <<s[i]>> \o UnrawFrom(s, i + 1, i >= 2 /\ s[i] = 58 /\ s[i - 1] = 58)
Unraw(s) == UnrawFrom(s, 1, TRUE)

\* module path as module_path!() spells it: components joined by "::"; the internal raw name
\* likewise without the prefix (it is not observable beyond matching a group to its module)
WrittenMeta(e) ==
  [mp |-> Unraw(JoinAll(e.mods_cp)), raw |-> StripRaw(e.raw_cp), disp |-> EntryDisplay(e),
   file |-> e.file_cp, line |-> e.line, col |-> e.col, opts |-> NormOpts(e.opts_rec)]
DumpedMeta(e) ==
  [mp |-> Unraw(e.module_path_cp), raw |-> StripRaw(e.raw_name_cp), disp |-> e.display_name_cp,
   file |-> e.file_cp, line |-> e.line, col |-> e.col, opts |-> NormOpts(e.opts)]

\* a benchmark function without types / consts: one entry; with `args` one case per value, in order
WrittenBench(b) ==
  [meta |-> WrittenMeta(b), kind |-> IF b.is_args THEN "args" ELSE "plain",
   cases |-> IF b.is_args THEN b.args_cp ELSE <<>>]
DumpedBench(e) == [meta |-> DumpedMeta(e), kind |-> e.kind, cases |-> e.arg_names_cp]

\* a generic function: one instance per combination of its types x consts entries
InstancesOf(P, g) == {j \in 1..Len(P.ginst) : P.ginst[j].group = g - 1}
WrittenInstance(P, j) ==
  LET x == P.ginst[j] gen == P.groups[x.group + 1].generic IN
  [hasType |-> x.has_type, typeRaw |-> IF x.has_type THEN x.type_raw_cp ELSE <<>>,
   typeDisp |-> IF x.has_type THEN TypeDisplay(x.type_raw_cp) ELSE <<>>,
   hasConst |-> x.has_const, constName |-> IF x.has_const THEN ConstCp(x) ELSE <<>>,
   kind |-> gen.kind, cases |-> IF gen.kind = "args" THEN gen.args_cp ELSE <<>>]
DumpedInstance(i) ==
  [hasType |-> i.has_type, typeRaw |-> i.type_raw_cp, typeDisp |-> i.type_display_cp,
   hasConst |-> i.has_const, constName |-> i.const_name_cp, kind |-> i.kind, cases |-> i.arg_names_cp]

WrittenGroup(P, g) ==
  [meta |-> WrittenMeta(P.groups[g]), generic |-> P.groups[g].is_generic,
   instances |-> {WrittenInstance(P, j) : j \in InstancesOf(P, g)}]
DumpedGroup(e) ==
  [meta |-> DumpedMeta(e), generic |-> e.is_generic,
   instances |-> {DumpedInstance(e.instances[k]) : k \in 1..Len(e.instances)}]

\* A #[divan::bench_group] module is always registered; a generic function is
\* registered through its instances: with an empty types / consts list there
\* is no instance, and then no benchmark - whether a childless entry for the
\* function itself is left behind is not observable in any run and is left open.
MustBeRegistered(P, g) == ~P.groups[g].is_generic \/ InstancesOf(P, g) # {}
=============================================================================
