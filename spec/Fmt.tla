-------------------------------- MODULE Fmt ---------------------------------
(***************************************************************************)
(* Property C18: the documented text format of durations, byte sizes and   *)
(* throughputs, as functions from exact values (BigNat, or a ratio of two  *)
(* BigNats) to sequences of Unicode code points.                           *)
(*                                                                         *)
(*   text   = <number> " " <unit>                                          *)
(*   unit   = the largest unit not exceeding the value (durations below    *)
(*            1 ns are shown in ns; sizes below the first prefix in the    *)
(*            base unit)                                                   *)
(*   number = value / unit, truncated toward zero to max(0, 4 - d) decimal *)
(*            places, d = number of integer digits (a lone 0 counts;       *)
(*            integer digits are always kept in full); no exponent, no     *)
(*            trailing zeros, no dangling point                            *)
(*                                                                         *)
(* Durations are exact integers of picoseconds and must match FormatDur    *)
(* exactly.  Sizes and throughputs are computed in double precision by the *)
(* code; AcceptsRat says when a text is the correct formatting of some     *)
(* value within relative 2^-50 of the exact ratio.                         *)
(***************************************************************************)
EXTENDS BigNat

SigDigits == 4
Places(d) == IF d >= SigDigits THEN 0 ELSE SigDigits - d

SP == 32
DOT == 46
ZeroCp == 48

(* ------------------------------ rendering ------------------------------ *)
RECURSIVE StripZerosRight(_)
StripZerosRight(ds) ==
  IF ds = <<>> THEN ds
  ELSE IF ds[Len(ds)] = 0 THEN StripZerosRight(SubSeq(ds, 1, Len(ds) - 1))
  ELSE ds

\* The decimal text of n / 10^p without trailing zeros or a dangling point.
Render(n, p) ==
  LET ds0 == ToDecDigits(n)
      ds == IF Len(ds0) > p THEN ds0
            ELSE [i \in 1..(p + 1 - Len(ds0)) |-> 0] \o ds0
      ip == SubSeq(ds, 1, Len(ds) - p)
      fr == StripZerosRight(SubSeq(ds, Len(ds) - p + 1, Len(ds)))
  IN CpsOfDigits(ip) \o (IF fr = <<>> THEN <<>> ELSE <<DOT>> \o CpsOfDigits(fr))

\* The number num / den (den # 0) as the statement prints it.
NumText(num, den) ==
  LET ip == Div(num, den)
      d == Len(ToDecDigits(ip))
      p == Places(d)
  IN Render(IF p = 0 THEN ip ELSE Div(MulPow10(num, p), den), p)

(* ------------------------------ durations ------------------------------ *)
\* ps ns µs ms s m h d
DurUnitNames == << <<112, 115>>, <<110, 115>>, <<181, 115>>, <<109, 115>>,
                   <<115>>, <<109>>, <<104>>, <<100>> >>
DurUnitPicos == << One, Pow10(3), Pow10(6), Pow10(9), Pow10(12),
                   MulSmall(Pow10(13), 6), MulSmall(Pow10(14), 36),
                   MulSmall(Pow10(14), 864) >>
NanoSec == 2

\* Largest k in least..Len(units) with units[k] <= x; `least` if there is none.
RECURSIVE UnitIndexAt(_, _, _, _)
UnitIndexAt(x, units, least, k) ==
  IF k <= least THEN least
  ELSE IF Le(units[k], x) THEN k
  ELSE UnitIndexAt(x, units, least, k - 1)
UnitIndex(x, units, least) == UnitIndexAt(x, units, least, Len(units))

DurUnitOf(x) == UnitIndex(x, DurUnitPicos, NanoSec)

FormatDur(x) ==
  LET k == DurUnitOf(x)
  IN NumText(x, DurUnitPicos[k]) \o <<SP>> \o DurUnitNames[k]

(* ------------------------- sizes and throughputs ----------------------- *)
DecScales == << One, Pow10(3), Pow10(6), Pow10(9), Pow10(12), Pow10(15) >>
BinScales == << One, Pow2(10), Pow2(20), Pow2(30), Pow2(40), Pow2(50) >>
Scales(binary) == IF binary THEN BinScales ELSE DecScales
ScaleRatio(binary) == IF binary THEN 1024 ELSE 1000

Prefixes == << <<>>, <<75>>, <<77>>, <<71>>, <<84>>, <<80>> >>    \* "" K M G T P
\* kinds: "bytes" (a size), "bytes/s", "chars/s", "cycles/s", "items/s"
BaseUnit(kind) ==
  CASE kind = "bytes" -> <<66>>                               \* B
    [] kind = "bytes/s" -> <<66, 47, 115>>                    \* B/s
    [] kind = "chars/s" -> <<99, 104, 97, 114, 47, 115>>      \* char/s
    [] kind = "cycles/s" -> <<72, 122>>                       \* Hz
    [] kind = "items/s" -> <<105, 116, 101, 109, 47, 115>>    \* item/s
    [] kind = "plain" -> <<>>
\* Only byte quantities have binary prefixes.
IsBinary(kind, binary) == binary /\ kind \in {"bytes", "bytes/s"}
UnitName(kind, binary, k) ==
  Prefixes[k] \o (IF IsBinary(kind, binary) /\ k > 1 THEN <<105>> ELSE <<>>)
              \o BaseUnit(kind)

Join(numCps, unitCps) == IF unitCps = <<>> THEN numCps ELSE numCps \o <<SP>> \o unitCps

\* Largest k with scales[k] * den <= num, 1 if there is none.
RECURSIVE ScaleIndexAt(_, _, _, _)
ScaleIndexAt(num, den, scales, k) ==
  IF k <= 1 THEN 1
  ELSE IF Le(Mul(scales[k], den), num) THEN k
  ELSE ScaleIndexAt(num, den, scales, k - 1)

\* kind "plain": a bare number (no unit, no prefixes).
FormatRat(num, den, kind, binary) ==
  IF kind = "plain" THEN NumText(num, den)
  ELSE LET sc == Scales(IsBinary(kind, binary))
           k == ScaleIndexAt(num, den, sc, Len(sc))
       IN Join(NumText(num, Mul(den, sc[k])), UnitName(kind, binary, k))

ZeroText(kind, binary) == Join(<<ZeroCp>>, UnitName(kind, binary, 1))
InfText(kind, binary) == Join(<<105, 110, 102>>, UnitName(kind, binary, 1))

\* count items in picos picoseconds, per second.
FormatThroughput(count, picos, kind, binary) ==
  IF count = Zero THEN ZeroText(kind, binary)
  ELSE IF picos = Zero THEN InfText(kind, binary)
  ELSE FormatRat(MulPow10(count, 12), picos, kind, binary)

(* -------------------------------- parsing ------------------------------ *)
RECURSIVE IndexFrom(_, _, _)
IndexFrom(s, x, i) ==
  IF i > Len(s) THEN 0 ELSE IF s[i] = x THEN i ELSE IndexFrom(s, x, i + 1)

AllDigits(cps) == \A i \in 1..Len(cps) : IsDigitCp(cps[i])

\* <number> [" " <unit>] split at the first space.
SplitText(cps) ==
  LET sp == IndexFrom(cps, SP, 1)
  IN IF sp = 0 THEN [num |-> cps, unit |-> <<>>, spaced |-> FALSE]
     ELSE [num |-> SubSeq(cps, 1, sp - 1), unit |-> SubSeq(cps, sp + 1, Len(cps)),
           spaced |-> TRUE]

\* Plain positional decimal: digits, optionally a point and more digits.
ParseNum(cps) ==
  LET dot == IndexFrom(cps, DOT, 1)
      ipc == IF dot = 0 THEN cps ELSE SubSeq(cps, 1, dot - 1)
      frc == IF dot = 0 THEN <<>> ELSE SubSeq(cps, dot + 1, Len(cps))
  IN [ok |-> Len(ipc) > 0 /\ AllDigits(ipc) /\ AllDigits(frc) /\ (dot = 0 \/ Len(frc) > 0),
      ip |-> DigitsOfCps(ipc), fr |-> DigitsOfCps(frc)]

\* No leading zero (except a lone 0), no trailing zero after the point, and
\* no more decimal places than the integer digits leave room for.
Canonical(pn) ==
  /\ pn.ok
  /\ (Len(pn.ip) = 1 \/ pn.ip[1] # 0)
  /\ (pn.fr = <<>> \/ pn.fr[Len(pn.fr)] # 0)
  /\ Len(pn.fr) <= Places(Len(pn.ip))

\* The parsed number as an integer count of 10^-p, p = Places(Len(ip)).
ScaledValue(pn) ==
  LET p == Places(Len(pn.ip))
  IN FromDecDigits(pn.ip \o pn.fr \o [i \in 1..(p - Len(pn.fr)) |-> 0])

RECURSIVE UnitIndexByName(_, _, _, _)
UnitIndexByName(unitCps, kind, binary, k) ==
  IF k = 0 THEN 0
  ELSE IF UnitName(kind, binary, k) = unitCps THEN k
  ELSE UnitIndexByName(unitCps, kind, binary, k - 1)

(* ------------------- acceptance up to double rounding ------------------ *)
RelBits == 50
EpsDen == Pow2(RelBits)
EpsLo == Sub(EpsDen, One)     \* lo = r * EpsLo / EpsDen
EpsHi == Add(EpsDen, One)     \* hi = r * EpsHi / EpsDen

(***************************************************************************)
(* TRUE iff `text` is FormatRat of some rational r' with                   *)
(*   r (1 - 2^-50) <= r' <= r (1 + 2^-50),  r = num / den  (den # 0).      *)
(* A canonical text <n> <unit k> is the formatting of exactly the values   *)
(* in [n, n + 10^-p) * scale[k] that also lie in the range of unit k, so   *)
(* the question is whether three intervals meet; intervals on a line meet  *)
(* iff they meet pairwise.                                                 *)
(***************************************************************************)
AcceptsRat(text, num, den, kind, binary) ==
  IF num = Zero THEN text = ZeroText(kind, binary)
  ELSE
  LET sp == SplitText(text)
      pn == ParseNum(sp.num)
      plain == kind = "plain"
      bin == IsBinary(kind, binary)
      sc == Scales(bin)
      last == IF plain THEN 1 ELSE Len(sc)
      k == IF plain THEN (IF sp.spaced THEN 0 ELSE 1)
           ELSE UnitIndexByName(sp.unit, kind, binary, Len(sc))
  IN
  /\ Canonical(pn) /\ k # 0 /\ (plain \/ sp.spaced)
  /\ LET p == Places(Len(pn.ip))
         n == ScaledValue(pn)
         n1 == Add(n, One)
         unitDen == Mul(den, sc[k])              \* value / unit = num / unitDen
         numP == MulPow10(num, p)                \* in units of 10^-p
         dE == Mul(unitDen, EpsDen)
     IN
     \* the text interval [n, n+1) meets [lo, hi] (both in units of 10^-p of unit k)
     /\ Le(Mul(n, dE), Mul(numP, EpsHi))
     /\ Lt(Mul(numP, EpsLo), Mul(n1, dE))
     \* the range of unit k meets [lo, hi]
     /\ (k > 1 => Le(dE, Mul(num, EpsHi)))
     /\ (k < last => Lt(Mul(num, EpsLo), Mul(Mul(den, sc[k + 1]), EpsDen)))
     \* the text interval meets the range of unit k: 1 <= number < ratio
     /\ (k > 1 => Le(Pow10(p), n))
     /\ (k < last => Lt(n, MulPow10(FromInt(ScaleRatio(bin)), p)))

AcceptsThroughput(text, count, picos, kind, binary) ==
  IF count = Zero THEN text = ZeroText(kind, binary)
  ELSE IF picos = Zero THEN text = InfText(kind, binary)
  ELSE AcceptsRat(text, MulPow10(count, 12), picos, kind, binary)

(* ------------------------------- padding ------------------------------- *)
RECURSIVE StripSpacesRight(_)
StripSpacesRight(cps) ==
  IF cps = <<>> THEN cps
  ELSE IF cps[Len(cps)] = SP THEN StripSpacesRight(SubSeq(cps, 1, Len(cps) - 1))
  ELSE cps

NonAscii(cps) == Len(SelectSeq(cps, LAMBDA c : c > 127))

\* `out` is `text` left-aligned in a field of `width` (0 = no padding).
\* The statement does not say whether the field is counted in characters or
\* bytes; either is accepted (they differ for the micro sign only).
PaddedTo(out, text, width) ==
  LET want == IF width > Len(text) THEN width ELSE Len(text)
  IN /\ StripSpacesRight(out) = text
     /\ Len(out) <= want
     /\ Len(out) >= want - NonAscii(text)
     /\ Len(out) >= Len(text)
=============================================================================
