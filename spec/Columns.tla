------------------------------ MODULE Columns ------------------------------
(***************************************************************************)
(* The column layout of the printed tree (src/tree_painter.rs, the padding *)
(* side of TreePainter; Painter.tla has the glyph side).  The painter is   *)
(* created with `max_name_span` (src/entry/tree.rs: the widest label incl. *)
(* its indentation, computed from the tree before anything is printed) and *)
(* one width per value column.  Every row that carries cells is padded to  *)
(* the span plus a gap of two; a label wider than the span moves that row  *)
(* to the right and GROWS the span for all later rows (start_parent,       *)
(* start_leaf); a value wider than its column does the same to the column  *)
(* (TreeColumnData::write).  Rows already printed cannot be moved, so the  *)
(* cells stay under their headings only if the initial span covers every   *)
(* label that will be painted - which is what C20 asks for.                *)
(*                                                                         *)
(* A plan is the sequence of rows in painting order.  Kinds: "parent"      *)
(* (crate at depth 0 = heading row, module, group, benchmark with args),   *)
(* "leaf" (statistics row), "tleaf" (a benchmark run with several thread   *)
(* counts: painted as a parent) and "thread" (its `t=N` statistics rows).  *)
(* Mode "labels_of_the_tree" is the span the pinned code computed (names   *)
(* and argument names only; defect F11), "every_label" the repaired one.   *)
(***************************************************************************)
EXTENDS Integers, Sequences, FiniteSets, TLC

CONSTANTS
  Mode,        \* "every_label" | "labels_of_the_tree"
  NameLens,    \* label lengths of parents and leaves
  ThreadLens,  \* lengths of `t=N` labels
  ValLens,     \* widths of value texts
  ColW,        \* initial width of the (two) value columns
  MaxRows, MaxDepth

Gap == 2                       \* TREE_COL_BUF
Max(a, b) == IF a >= b THEN a ELSE b

Kinds == {"parent", "leaf", "tleaf", "thread"}
Row == [d : 0..MaxDepth, n : NameLens \cup ThreadLens, k : Kinds, v : ValLens]

\* nearest earlier row one level up
ParentOf(p, i) ==
  LET S == {j \in 1..(i - 1) : p[j].d = p[i].d - 1}
  IN IF S = {} THEN 0 ELSE CHOOSE j \in S : \A x \in S : x <= j

\* row i is a legal continuation of the rows before it
RowOK(p, i) ==
  IF i = 1 THEN p[1].d = 0 /\ p[1].k = "parent" /\ p[1].n \in NameLens
  ELSE
    /\ p[i].d >= 1 /\ p[i].d <= p[i - 1].d + 1
    /\ p[i].d = p[i - 1].d + 1 => p[i - 1].k \in {"parent", "tleaf"}
    /\ LET a == ParentOf(p, i) IN
       /\ a # 0
       /\ p[a].k \in {"parent", "tleaf"}
       /\ (p[i].k = "thread") = (p[a].k = "tleaf")
    /\ IF p[i].k = "thread" THEN p[i].n \in ThreadLens ELSE p[i].n \in NameLens
    \* rows that write spacers carry no value text (one representative)
    /\ p[i].k \in {"parent", "tleaf"} => \A x \in ValLens : p[i].v <= x

\* a benchmark with several thread counts has at least two `t=N` rows
Complete(p) ==
  \A i \in 1..Len(p) : p[i].k = "tleaf" =>
    Cardinality({j \in (i + 1)..Len(p) : p[j].k = "thread" /\ ParentOf(p, j) = i}) >= 2

RECURSIVE Prefixes(_)
Prefixes(n) ==
  IF n = 0 THEN {<<>>}
  ELSE LET S == Prefixes(n - 1)
       IN S \cup UNION {{Append(s, r) : r \in {r \in Row : RowOK(Append(s, r), n)}} : s \in {x \in S : Len(x) = n - 1}}
Plans == {p \in Prefixes(MaxRows) : p # <<>> /\ Complete(p)}

\* characters in front of the padding: indentation + branch glyph + label
BufLen(r) == 3 * r.d + r.n

\* EntryTree::max_name_span
InitialSpan(p) ==
  LET counted == {i \in 1..Len(p) : Mode = "every_label" \/ p[i].k # "thread"}
      lens == {BufLen(p[i]) : i \in counted}
  IN CHOOSE m \in lens : \A x \in lens : x <= m

VARIABLES plan, i, span, w1, w2, out
vars == <<plan, i, span, w1, w2, out>>

Init ==
  /\ plan \in Plans
  /\ i = 1 /\ span = InitialSpan(plan) /\ w1 = ColW /\ w2 = ColW /\ out = <<>>

\* what the row writes into the two value columns: the heading row and the
\* statistics rows write texts, the other parents write empty spacers
HasText(r) == r.k \in {"leaf", "thread"} \/ r.d = 0
Paint ==
  /\ i <= Len(plan)
  /\ LET r == plan[i]
         len == BufLen(r)
         c1 == len + Gap + Max(span - len, 0)
         v == IF HasText(r) THEN r.v ELSE 0
         s1 == c1 + Max(v, w1) + 1          \* first separator
         s2 == s1 + 2 + Max(v, w2) + 1      \* second separator
     IN /\ span' = Max(span, len)
        /\ w1' = Max(w1, v) /\ w2' = Max(w2, v)
        /\ out' = Append(out, [c1 |-> c1, s1 |-> s1, s2 |-> s2, fits |-> v <= ColW])
  /\ i' = i + 1 /\ UNCHANGED plan

Done == i > Len(plan)
Next == Paint
Spec == Init /\ [][Next]_vars /\ WF_vars(Next)

\* ---------------------------------------------------------------- properties
\* C20: every row's cells start under the first heading
NameColumnAligned == \A k \in 1..Len(out) : out[k].c1 = out[1].c1
\* ... and as long as no value was wider than its column, the separators are
\* under those of the heading row
SeparatorsAligned ==
  \A k \in 1..Len(out) :
    (\A j \in 1..k : out[j].fits) => out[k].s1 = out[1].s1 /\ out[k].s2 = out[1].s2
\* the span the painter was created with is never outgrown
SpanIsFinal == [][span' = span]_vars
\* a wide value moves only later rows, and only to the right
ColumnsOnlyGrow == [][w1' >= w1 /\ w2' >= w2]_vars
Termination == <>Done
=============================================================================
