------------------------------- MODULE BigNat -------------------------------
(***************************************************************************)
(* Arbitrary-precision natural numbers for TLC, whose native integers are  *)
(* 32-bit.  A number is the little-endian sequence of its base-10^4 limbs  *)
(* without most-significant zero limbs; zero is the empty sequence.  The   *)
(* same layout is used on the wire (JSON arrays), so logged 64/128-bit     *)
(* values need no conversion.                                              *)
(*                                                                         *)
(* Everything is plain schoolbook arithmetic.  The ASSUMEs at the end      *)
(* compare each operator with TLC's native arithmetic below 2^31; the      *)
(* model-checking modules MC_Time / MC_Fmt check the ring and division     *)
(* laws on wide operands.                                                  *)
(***************************************************************************)
EXTENDS Integers, Sequences

B == 10000            \* limb base
LimbDigits == 4

Zero == <<>>
IsBigNat(a) == /\ \A i \in 1..Len(a) : a[i] \in 0..(B - 1)
               /\ (a = <<>> \/ a[Len(a)] # 0)

RECURSIVE Norm(_)
Norm(a) == IF a = <<>> THEN <<>>
           ELSE IF a[Len(a)] = 0 THEN Norm(SubSeq(a, 1, Len(a) - 1))
           ELSE a

RECURSIVE FromInt(_)
FromInt(n) == IF n = 0 THEN <<>> ELSE <<n % B>> \o FromInt(n \div B)

\* Only meaningful below 2^31 (TLC raises an overflow error otherwise).
RECURSIVE ToIntAt(_, _)
ToIntAt(a, i) == IF i > Len(a) THEN 0 ELSE a[i] + B * ToIntAt(a, i + 1)
ToInt(a) == ToIntAt(a, 1)

One == <<1>>
IsZero(a) == a = <<>>

(* ------------------------------ comparison ----------------------------- *)
RECURSIVE CmpAt(_, _, _)
CmpAt(a, b, i) ==
  IF i = 0 THEN 0
  ELSE IF a[i] < b[i] THEN -1
  ELSE IF a[i] > b[i] THEN 1
  ELSE CmpAt(a, b, i - 1)

\* -1, 0, 1 for a < b, a = b, a > b (normalised operands).
Cmp(a, b) ==
  IF Len(a) < Len(b) THEN -1
  ELSE IF Len(a) > Len(b) THEN 1
  ELSE CmpAt(a, b, Len(a))

Lt(a, b) == Cmp(a, b) < 0
Le(a, b) == Cmp(a, b) <= 0
Eq(a, b) == a = b
MaxN(a, b) == IF Lt(a, b) THEN b ELSE a
MinN(a, b) == IF Lt(b, a) THEN b ELSE a

(* ------------------------------- addition ------------------------------ *)
RECURSIVE AddAt(_, _, _, _)
AddAt(a, b, i, c) ==
  IF i > Len(a) /\ i > Len(b)
    THEN IF c = 0 THEN <<>> ELSE <<c>>
    ELSE LET s == (IF i <= Len(a) THEN a[i] ELSE 0)
                  + (IF i <= Len(b) THEN b[i] ELSE 0) + c
         IN <<s % B>> \o AddAt(a, b, i + 1, s \div B)

Add(a, b) == IF b = <<>> THEN a ELSE IF a = <<>> THEN b ELSE AddAt(a, b, 1, 0)

\* a - b for a >= b (the result for a < b is meaningless).
RECURSIVE SubAt(_, _, _, _)
SubAt(a, b, i, br) ==
  IF i > Len(a) THEN <<>>
  ELSE LET d == a[i] - (IF i <= Len(b) THEN b[i] ELSE 0) - br
       IN IF d < 0 THEN <<d + B>> \o SubAt(a, b, i + 1, 1)
                   ELSE <<d>> \o SubAt(a, b, i + 1, 0)

Sub(a, b) == IF b = <<>> THEN a ELSE Norm(SubAt(a, b, 1, 0))

\* Truncated subtraction.
Monus(a, b) == IF Le(a, b) THEN <<>> ELSE Sub(a, b)

(* ---------------------------- multiplication --------------------------- *)
\* a * m for a native 0 <= m <= 200000 (limb * m + carry stays below 2^31).
RECURSIVE MulSmallAt(_, _, _, _)
MulSmallAt(a, m, i, c) ==
  IF i > Len(a)
    THEN IF c = 0 THEN <<>> ELSE IF c < B THEN <<c>> ELSE <<c % B, c \div B>>
    ELSE LET s == a[i] * m + c
         IN <<s % B>> \o MulSmallAt(a, m, i + 1, s \div B)

MulSmall(a, m) == IF m = 0 \/ a = <<>> THEN <<>>
                  ELSE IF m = 1 THEN a
                  ELSE MulSmallAt(a, m, 1, 0)

\* a * B^k
ShiftLimbs(a, k) == IF a = <<>> \/ k = 0 THEN a ELSE [i \in 1..k |-> 0] \o a

\* Horner over the limbs of b, most significant first.
RECURSIVE MulAt(_, _, _)
MulAt(a, b, j) ==
  IF j > Len(b) THEN <<>>
  ELSE Add(MulSmall(a, b[j]), ShiftLimbs(MulAt(a, b, j + 1), 1))

Mul(a, b) == IF a = <<>> \/ b = <<>> THEN <<>>
             ELSE IF Len(a) >= Len(b) THEN MulAt(a, b, 1) ELSE MulAt(b, a, 1)

(* ------------------------------- division ------------------------------ *)
\* Division by a native 1 <= m < B: one pass, exact native digits.
\* Returns <<quotient, native remainder>>.
RECURSIVE DivSmallAt(_, _, _, _, _)
DivSmallAt(a, m, i, r, q) ==
  IF i = 0 THEN <<Norm(q), r>>
  ELSE LET cur == r * B + a[i]
       IN DivSmallAt(a, m, i - 1, cur % m, <<cur \div m>> \o q)

DivSmall(a, m) == DivSmallAt(a, m, Len(a), 0, <<>>)

\* Largest q in lo..hi with b * q <= cur, given b * lo <= cur (binary search).
RECURSIVE QSearch(_, _, _, _)
QSearch(cur, b, lo, hi) ==
  IF lo >= hi THEN lo
  ELSE LET mid == (lo + hi + 1) \div 2
       IN IF Le(MulSmall(b, mid), cur) THEN QSearch(cur, b, mid, hi)
                                       ELSE QSearch(cur, b, lo, mid - 1)

\* Quotient digit floor(cur / b) for cur < b * B.  The leading limbs bracket
\* the digit (ctop / (btop + 1) <= digit <= ctop / btop), the binary search
\* settles it.
QDigit(cur, b) ==
  IF Lt(cur, b) THEN 0
  ELSE LET n == Len(b)
           ctop == cur[n] + (IF Len(cur) > n THEN cur[n + 1] * B ELSE 0)
           btop == b[n]
           lo == ctop \div (btop + 1)
           hi0 == ctop \div btop
           hi == IF hi0 > B - 1 THEN B - 1 ELSE hi0
       IN QSearch(cur, b, lo, hi)

\* Long division, one limb of the dividend at a time (most significant
\* first); r is the running remainder, q the quotient limbs found so far.
RECURSIVE DivAt(_, _, _, _, _)
DivAt(a, b, i, r, q) ==
  IF i = 0 THEN <<Norm(q), r>>
  ELSE LET cur == Norm(<<a[i]>> \o r)
           d == QDigit(cur, b)
           nr == IF d = 0 THEN cur ELSE Sub(cur, MulSmall(b, d))
       IN DivAt(a, b, i - 1, nr, <<d>> \o q)

\* <<quotient, remainder>> for b # 0.  Divisor and dividend are first scaled
\* by the same native factor so that the leading limb of the divisor is at
\* least B/2: the bracket of each quotient digit then spans a handful of
\* values.  The quotient is unaffected, the remainder is scaled back.
DivMod(a, b) ==
  IF Lt(a, b) THEN <<Zero, a>>
  ELSE IF Len(b) = 1
    THEN LET qr == DivSmall(a, b[1]) IN <<qr[1], FromInt(qr[2])>>
  ELSE LET s == B \div (b[Len(b)] + 1)
       IN IF s = 1 THEN DivAt(a, b, Len(a), <<>>, <<>>)
          ELSE LET sa == MulSmall(a, s)
                   qr == DivAt(sa, MulSmall(b, s), Len(sa), <<>>, <<>>)
               IN <<qr[1], DivSmall(qr[2], s)[1]>>
Div(a, b) == DivMod(a, b)[1]
Mod(a, b) == DivMod(a, b)[2]

(* ---------------------------- powers, digits --------------------------- *)
Pow10Small(k) == CASE k = 0 -> 1 [] k = 1 -> 10 [] k = 2 -> 100 [] k = 3 -> 1000

\* 10^k
Pow10(k) == [i \in 1..(k \div LimbDigits) |-> 0] \o <<Pow10Small(k % LimbDigits)>>

\* a * 10^k
MulPow10(a, k) == ShiftLimbs(MulSmall(a, Pow10Small(k % LimbDigits)), k \div LimbDigits)

\* 2^k
RECURSIVE Pow2(_)
Pow2(k) == IF k <= 16 THEN FromInt(2 ^ k) ELSE MulSmall(Pow2(k - 16), 65536)

\* Decimal digits, most significant first (as they are written), to BigNat.
RECURSIVE FromDecAt(_, _)
FromDecAt(ds, hi) ==     \* limbs of ds[1..hi], least significant limb first
  IF hi <= 0 THEN <<>>
  ELSE LET d(i) == IF i >= 1 THEN ds[i] ELSE 0
       IN <<d(hi) + 10 * d(hi - 1) + 100 * d(hi - 2) + 1000 * d(hi - 3)>>
          \o FromDecAt(ds, hi - 4)

FromDecDigits(ds) == Norm(FromDecAt(ds, Len(ds)))

LimbDec4(x) == <<x \div 1000, (x \div 100) % 10, (x \div 10) % 10, x % 10>>
LimbDecTop(x) == IF x >= 1000 THEN LimbDec4(x)
                 ELSE IF x >= 100 THEN <<x \div 100, (x \div 10) % 10, x % 10>>
                 ELSE IF x >= 10 THEN <<x \div 10, x % 10>>
                 ELSE <<x>>

RECURSIVE ToDecAt(_, _)
ToDecAt(a, i) == IF i = 0 THEN <<>> ELSE LimbDec4(a[i]) \o ToDecAt(a, i - 1)

\* BigNat to decimal digits, most significant first, no leading zeros
\* (zero is the single digit 0).
ToDecDigits(a) == IF a = <<>> THEN <<0>>
                  ELSE LimbDecTop(a[Len(a)]) \o ToDecAt(a, Len(a) - 1)

\* Code points of decimal text <-> digits.
IsDigitCp(c) == c >= 48 /\ c <= 57
DigitsOfCps(cps) == [i \in 1..Len(cps) |-> cps[i] - 48]
CpsOfDigits(ds) == [i \in 1..Len(ds) |-> ds[i] + 48]
FromDecCps(cps) == FromDecDigits(DigitsOfCps(cps))
ToDecCps(a) == CpsOfDigits(ToDecDigits(a))

(* -------------------------- self checks (native) ----------------------- *)
SelfCheckSmall == {0, 1, 2, 9, 10, 99, 9999, 10000, 10001, 12345, 46340,
                   46341, 65535, 65536, 99999999, 100000000, 123456789,
                   1073741823, 2147483647}

ASSUME \A x \in SelfCheckSmall : IsBigNat(FromInt(x)) /\ ToInt(FromInt(x)) = x
ASSUME \A x, y \in SelfCheckSmall :
  /\ Cmp(FromInt(x), FromInt(y)) = (IF x < y THEN -1 ELSE IF x = y THEN 0 ELSE 1)
  /\ (x <= 1073741823 /\ y <= 1073741823) => Add(FromInt(x), FromInt(y)) = FromInt(x + y)
  /\ x >= y => Sub(FromInt(x), FromInt(y)) = FromInt(x - y)
  /\ (x <= 46340 /\ y <= 46340) => Mul(FromInt(x), FromInt(y)) = FromInt(x * y)
  /\ (x <= 10737 /\ y <= 200000) => MulSmall(FromInt(x), y) = FromInt(x * y)
  /\ y # 0 => DivMod(FromInt(x), FromInt(y)) = <<FromInt(x \div y), FromInt(x % y)>>
ASSUME \A x \in SelfCheckSmall :
  /\ FromDecDigits(ToDecDigits(FromInt(x))) = FromInt(x)
  /\ FromDecCps(ToDecCps(FromInt(x))) = FromInt(x)
ASSUME ToDecDigits(FromInt(1002003)) = <<1, 0, 0, 2, 0, 0, 3>>
ASSUME ToDecDigits(<<>>) = <<0>> /\ FromDecDigits(<<0, 0, 0>>) = <<>>
ASSUME \A k \in 0..9 : ToInt(Pow10(k)) = 10 ^ k
ASSUME \A k \in 0..30 : ToInt(Pow2(k)) = 2 ^ k
ASSUME Pow2(64) = <<1616, 955, 737, 6744, 1844>>
ASSUME MulPow10(FromInt(123), 6) = FromInt(123000000)
=============================================================================
