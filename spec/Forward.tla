------------------------------ MODULE Forward ------------------------------
(***************************************************************************)
(* AllocProfiler as a wrapper (src/alloc.rs, `impl GlobalAlloc`): C09.     *)
(*                                                                         *)
(* Every thread issues allocator requests.  Serving one request is three   *)
(* steps of that thread: Enter (the request is taken), Tally (the thread's *)
(* record is looked up and updated - on a thread that never used the       *)
(* profiler the record has to be reached first, on a thread that is        *)
(* shutting down it is gone and the step does nothing), Forward (the one   *)
(* call of the wrapped allocator, which answers with any pointer or null)  *)
(* and Return.  The wrapped allocator's log and what each caller got back  *)
(* are history variables; the invariants are the clauses of C09.           *)
(*                                                                         *)
(* `Variant` selects the code ("code") or one of the shortcuts that were    *)
(* proposed as optimisations by independent sub-agents, each of which must *)
(* violate an invariant: "same_size_shortcut" (seeded C09_a/b/c: an equal- *)
(* size realloc returns the old pointer without forwarding),               *)
(* "hide_failed_shrink" (C09_d: a shrinking realloc answered with null     *)
(* returns the old pointer), and "record_allocated_through_self" (the      *)
(* record of a new thread is allocated through the profiler itself).       *)
(***************************************************************************)
EXTENDS Integers, Sequences, FiniteSets, TLC

CONSTANTS Threads, Sizes, Ptrs, MaxReq, Variant

Null == 0
\* (`id` numbers the requests in the order they were taken; 0 in the template)
Req ==   [op : {"alloc", "alloc_zeroed"}, size : Sizes, ptr : {Null}, new : {0}, id : {0}]
    \cup [op : {"dealloc"}, size : Sizes, ptr : Ptrs, new : {0}, id : {0}]
    \cup [op : {"realloc"}, size : Sizes, ptr : Ptrs, new : Sizes, id : {0}]

VARIABLES
  pc,      \* pc[t] \in {"idle", "tally", "forward", "ret"}
  cur,     \* cur[t]: the request being served
  rec,     \* rec[t] \in {"none", "live", "gone"}: the thread's tally record
  depth,   \* depth[t]: requests of t being served by the profiler (re-entry > 1)
  inner,   \* log of the wrapped allocator: [t, req, answer]
  got,     \* got[t]: answer of the wrapped allocator to the current request (or -1)
  done,    \* completed requests: [t, req, returned, forwarded, answer]
  nreq
vars == <<pc, cur, rec, depth, inner, got, done, nreq>>

NoReq == [op |-> "none", size |-> 0, ptr |-> Null, new |-> 0, id |-> 0]
Init ==
  /\ pc = [t \in Threads |-> "idle"] /\ cur = [t \in Threads |-> NoReq]
  /\ rec \in [Threads -> {"none", "live", "gone"}]
  /\ depth = [t \in Threads |-> 0]
  /\ inner = <<>> /\ got = [t \in Threads |-> -1] /\ done = <<>> /\ nreq = 0

Enter(t, r) ==
  /\ pc[t] = "idle" /\ nreq < MaxReq
  /\ cur' = [cur EXCEPT ![t] = [r EXCEPT !.id = nreq + 1]] /\ depth' = [depth EXCEPT ![t] = @ + 1]
  /\ nreq' = nreq + 1 /\ got' = [got EXCEPT ![t] = -1]
  /\ pc' = [pc EXCEPT ![t] =
        IF Variant = "same_size_shortcut" /\ r.op = "realloc" /\ r.new = r.size THEN "ret" ELSE "tally"]
  /\ UNCHANGED <<rec, inner, done>>

\* reaching the record of a thread that has none yet: the code's record is a
\* constant-initialised thread local (nothing to allocate)
Tally(t) ==
  /\ pc[t] = "tally"
  /\ IF rec[t] = "none" /\ Variant = "record_allocated_through_self"
       THEN \* the nested request goes through the profiler again: one more forward
            /\ depth' = [depth EXCEPT ![t] = @ + 1]
            /\ inner' = Append(inner, [t |-> t, req |-> [op |-> "alloc", size |-> 1, ptr |-> Null, new |-> 0, id |-> cur[t].id],
                                       answer |-> Null])
       ELSE UNCHANGED <<depth, inner>>
  /\ rec' = [rec EXCEPT ![t] = IF @ = "none" THEN "live" ELSE @]
  /\ pc' = [pc EXCEPT ![t] = "forward"]
  /\ UNCHANGED <<cur, got, done, nreq>>

Forward(t) ==
  /\ pc[t] = "forward"
  /\ \E a \in (IF cur[t].op = "dealloc" THEN {Null} ELSE Ptrs \cup {Null}) :
        /\ inner' = Append(inner, [t |-> t, req |-> cur[t], answer |-> a])
        /\ got' = [got EXCEPT ![t] = a]
  /\ pc' = [pc EXCEPT ![t] = "ret"]
  /\ UNCHANGED <<cur, rec, depth, done, nreq>>

Returned(t) ==
  LET r == cur[t] IN
  IF got[t] = -1 THEN r.ptr                                   \* never forwarded (shortcut)
  ELSE IF Variant = "hide_failed_shrink" /\ r.op = "realloc" /\ got[t] = Null /\ r.new < r.size THEN r.ptr
  ELSE got[t]

Return(t) ==
  /\ pc[t] = "ret"
  /\ done' = Append(done, [t |-> t, req |-> cur[t], returned |-> Returned(t), forwarded |-> got[t] # -1,
                           answer |-> got[t]])
  /\ pc' = [pc EXCEPT ![t] = "idle"] /\ depth' = [depth EXCEPT ![t] = 0]
  /\ cur' = [cur EXCEPT ![t] = NoReq]
  /\ UNCHANGED <<rec, inner, got, nreq>>

\* a thread may start shutting down between requests: its record goes away
Shutdown(t) == pc[t] = "idle" /\ rec[t] = "live" /\ rec' = [rec EXCEPT ![t] = "gone"]
               /\ UNCHANGED <<pc, cur, depth, inner, got, done, nreq>>

Next == \E t \in Threads : (\E r \in Req : Enter(t, r)) \/ Tally(t) \/ Forward(t) \/ Return(t) \/ Shutdown(t)
Spec == Init /\ [][Next]_vars /\ WF_vars(\E t \in Threads : Tally(t) \/ Forward(t) \/ Return(t))

\* ---------------------------------------------------------------- properties
\* exactly that one request, with the same arguments, reaches the wrapped allocator
OneIdenticalRequest ==
  \A k \in 1..Len(done) :
    LET d == done[k]
        mine == {i \in 1..Len(inner) : inner[i].req.id = d.req.id}
    IN Cardinality(mine) = 1 /\ \A i \in mine : inner[i].req = d.req
\* ... and the caller gets exactly what it answered, null included
ReturnsTheAnswer == \A k \in 1..Len(done) : done[k].forwarded /\ done[k].returned = done[k].answer
\* no other call of the wrapped allocator: its log holds one entry per request taken so far
NothingElseForwarded == Len(inner) <= nreq
\* the profiler never re-enters itself, on new and on dying threads alike
NoReentry == \A t \in Threads : depth[t] <= 1
AllServed == <>(\A t \in Threads : pc[t] = "idle")
=============================================================================
