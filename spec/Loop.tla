-------------------------------- MODULE Loop --------------------------------
(***************************************************************************)
(* The round loop of a benchmark (src/benchmark/mod.rs                     *)
(* bench_loop_threaded): modes test / tune / collect, the remaining-sample *)
(* counter, elapsed time and the three-way continue condition, one action  *)
(* per statement group of the code.  Times are picoseconds; `Huge` stands  *)
(* for "no limit" (Duration::MAX, values beyond the trace's integer range) *)
(* and is logged as -1.                                                    *)
(*                                                                         *)
(* p  = parameters of a run:                                               *)
(*   [test, n, sOpt, T, min, max, skip, precision, ov]                     *)
(*      n     sample_count in force (100 if unset)                         *)
(*      sOpt  sample_size option, -1 if unset (size is then tuned)         *)
(*      ov    <<sample_loop, tally_alloc, tally_dealloc, tally_realloc>>   *)
(* st = loop state: [mode, size, rem, elapsed, nsamples]                   *)
(*      rem = -1 while no sample counts towards n yet (tuning, test)       *)
(***************************************************************************)
EXTENDS Integers, Sequences, FiniteSets, TLC

Huge == -1
IsHuge(x) == x = Huge
\* x >= y where either side may be Huge
Geq(x, y) == IF IsHuge(x) THEN TRUE ELSE IF IsHuge(y) THEN FALSE ELSE x >= y
Lt(x, y) == ~Geq(x, y)
Max2(a, b) == IF a >= b THEN a ELSE b
SatSub(a, b) == IF a >= b THEN a - b ELSE 0
\* FineDuration::clamp_to: zero becomes the other operand
ClampTo(x, y) == IF x = 0 THEN y ELSE x
CeilDiv(a, b) == (a + b - 1) \div b
SeqMax(s) == LET RECURSIVE M(_) M(i) == IF i = 1 THEN s[1] ELSE Max2(s[i], M(i - 1)) IN M(Len(s))

\* Early return: nothing runs for zero samples, zero iterations or zero budget.
EarlyReturn(p) == p.max = 0 \/ p.n = 0 \/ p.sOpt = 0

InitialState(p) ==
  IF p.test THEN [mode |-> "test", size |-> 1, rem |-> -1, elapsed |-> 0, nsamples |-> 0]
  ELSE IF p.sOpt # -1
    THEN [mode |-> "collect", size |-> p.sOpt, rem |-> p.n, elapsed |-> 0, nsamples |-> 0]
    ELSE [mode |-> "tune", size |-> 1, rem |-> -1, elapsed |-> 0, nsamples |-> 0]

\* The three-way loop condition (C04): max_time has priority; otherwise
\* continue while samples are expected or min_time has not been reached.
Continue(p, st) ==
  IF Geq(st.elapsed, p.max) THEN FALSE
  ELSE IF (IF st.rem = -1 THEN 1 ELSE st.rem) > 0 THEN TRUE
  ELSE Lt(st.elapsed, p.min)

\* Overhead subtracted from a raw sample: per iteration loop overhead plus
\* per allocator operation tally overhead.  cnt = <<alloc, dealloc, realloc>>
Overhead(p, size, cnt) ==
  p.ov[1] * size + p.ov[2] * cnt[1] + p.ov[3] * cnt[2] + p.ov[4] * cnt[3]

\* Duration stored for a raw sample (C05): precision clamping applies only
\* when the precision was measured, i.e. when the run started by tuning.
Stored(p, size, raw, cnt) ==
  ClampTo(SatSub(ClampTo(raw, p.precision), Overhead(p, size, cnt)), p.precision)

\* One executed round.  start/end: per-thread readings (sequences 1..T),
\* cnt: per-thread allocator operation counts inside the timed section,
\* initStart: the initial timestamp, or -1 with skip_ext_time.
Durations(start, end) == [t \in DOMAIN start |-> SatSub(end[t], start[t])]

AfterRound(p, st, start, end, initStart) ==
  LET dur == Durations(start, end)
      slowest == SeqMax(dur)
      lastEnd == SeqMax(end)
      \* tuning (C19): samples of earlier rounds are discarded; threshold on
      \* the slowest sample in whole multiples of the precision
      tuned ==
        IF st.mode # "tune" THEN st
        ELSE IF slowest \div p.precision <= 100
          THEN [st EXCEPT !.size = 2 * st.size, !.nsamples = 0]
          ELSE [st EXCEPT !.mode = "collect", !.rem = p.n, !.nsamples = 0]
      remNext == IF tuned.rem = -1 THEN -1 ELSE SatSub(tuned.rem, p.T)
      elapsedNext ==
        IF initStart # -1 THEN SatSub(lastEnd, initStart)
        ELSE st.elapsed + Max2(slowest, 1000)
  IN [tuned EXCEPT !.rem = remNext,
                   !.nsamples = tuned.nsamples + p.T,
                   !.elapsed = elapsedNext]

StoredOfRound(p, st, start, end, cnt) ==
  LET dur == Durations(start, end)
  IN [t \in DOMAIN start |-> Stored(p, st.size, dur[t], cnt[t])]

IsPow2(x) == \E e \in 0..30 : x = 2 ^ e
=============================================================================
