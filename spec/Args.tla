-------------------------------- MODULE Args --------------------------------
(***************************************************************************)
(* Runtime arguments of one benchmark function (src/benchmark/args.rs,     *)
(* macros/src/lib.rs `__DIVAN_ARGS`, src/divan.rs run_bench_entry): C17.   *)
(*                                                                         *)
(* The function has N written arguments (value i renders as Label[i];      *)
(* labels may coincide) and G generic instantiations.  One `BenchArgs`     *)
(* cell per function (a OnceLock) is shared by all instantiations:         *)
(*   MakeRunner(g)  BenchArgs::runner for instantiation g: the first call  *)
(*                  evaluates the argument expression and fills the cell,  *)
(*                  every call returns a runner = (the cell's list, the    *)
(*                  typed benchmarking function OF THAT INSTANTIATION);    *)
(*   Plan(g)        the entry tree takes the names of the list (by         *)
(*                  reference), filters and sorts them: any sub-sequence   *)
(*                  in any order is a possible display list;               *)
(*   Row(g)         the next displayed name is mapped back to an index of  *)
(*                  the evaluated list and the instantiation's function is *)
(*                  called with that element.                              *)
(* `Lookup` is how a displayed name finds its index; `FnHome` is where the *)
(* typed function pointer lives.  The code uses ("identity", "runner").    *)
(* The other values are the shortcuts independent sub-agents proposed as   *)
(* refactorings (seeded C17_a/b/c: function pointer stored in the shared   *)
(* cell; C17_d: display position when nothing was filtered and the sort is *)
(* by location, forgetting the reverse flag) and the textbook one (search  *)
(* by label text): each must violate an invariant below.                   *)
(***************************************************************************)
EXTENDS Integers, Sequences, FiniteSets, TLC

CONSTANTS
  N,        \* written arguments 1..N
  Label,    \* Label[i]: rendering of argument i (a function 1..N -> labels)
  G,        \* generic instantiations 1..G (1 = not generic)
  Lookup,   \* "identity" | "label" | "position_if_unfiltered"
  FnHome    \* "runner" | "cell"

Idx == 1..N
Inst == 1..G

\* all duplicate-free sequences over Idx (sub-sequences in any order)
RECURSIVE Arr(_)
Arr(k) == IF k = 0 THEN {<<>>}
          ELSE LET S == Arr(k - 1) IN
               S \cup {Append(s, i) : s \in {x \in S : Len(x) = k - 1}, i \in Idx}
DisplayLists == {s \in Arr(N) : \A a, b \in 1..Len(s) : a # b => s[a] # s[b]}

NoRunner == [fn |-> 0]

VARIABLES
  cell,     \* [filled, owner]: the OnceLock; owner = instantiation that filled it
  evals,    \* how often the argument expression was evaluated
  runner,   \* runner[g]: NoRunner or [fn |-> instantiation whose typed function it holds]
  plan,     \* plan[g]: display list still to run (sequence of indices = name references)
  pos,      \* pos[g]: rows of g already run
  full,     \* full[g]: the display list of g kept every argument
  rows      \* history: [inst, wanted, got, fn]
vars == <<cell, evals, runner, plan, pos, full, rows>>

Init ==
  /\ cell = [filled |-> FALSE, owner |-> 0] /\ evals = 0
  /\ runner = [g \in Inst |-> NoRunner]
  /\ plan = [g \in Inst |-> <<>>] /\ pos = [g \in Inst |-> 0] /\ full = [g \in Inst |-> FALSE]
  /\ rows = <<>>

MakeRunner(g) ==
  /\ runner[g] = NoRunner
  /\ IF cell.filled THEN UNCHANGED <<cell, evals>>
     ELSE cell' = [filled |-> TRUE, owner |-> g] /\ evals' = evals + 1
  /\ runner' = [runner EXCEPT ![g] =
                  [fn |-> IF FnHome = "runner" THEN g
                          ELSE IF cell.filled THEN cell.owner ELSE g]]
  /\ \E d \in DisplayLists :
        /\ plan' = [plan EXCEPT ![g] = d]
        /\ full' = [full EXCEPT ![g] = Len(d) = N]
  /\ UNCHANGED <<pos, rows>>

\* index of the evaluated list a displayed name is mapped to
Find(g, k) ==
  LET ref == plan[g][k] IN
  CASE Lookup = "identity" -> ref
    [] Lookup = "label" -> CHOOSE i \in Idx : Label[i] = Label[ref] /\ \A j \in Idx : Label[j] = Label[ref] => i <= j
    [] Lookup = "position_if_unfiltered" -> IF full[g] THEN k ELSE ref

Row(g) ==
  /\ runner[g] # NoRunner /\ pos[g] < Len(plan[g])
  /\ LET k == pos[g] + 1 IN
     /\ rows' = Append(rows, [inst |-> g, wanted |-> plan[g][k], got |-> Find(g, k), fn |-> runner[g].fn])
     /\ pos' = [pos EXCEPT ![g] = k]
  /\ UNCHANGED <<cell, evals, runner, plan, full>>

Done == \A g \in Inst : runner[g] # NoRunner /\ pos[g] = Len(plan[g])
Next == \E g \in Inst : MakeRunner(g) \/ Row(g)
Spec == Init /\ [][Next]_vars /\ WF_vars(Next)

\* ---------------------------------------------------------------- properties
\* C17: each row is measured with the argument it names ...
RowMeasuresItsArgument == \A r \in 1..Len(rows) : rows[r].got = rows[r].wanted
\* ... by the function of the instantiation (type / const) it is shown under
RowRunsItsInstance == \A r \in 1..Len(rows) : rows[r].fn = rows[r].inst
\* the argument list is evaluated once per process and shared by all instantiations
EvaluatedOnce == evals <= 1 /\ ((\E g \in Inst : runner[g] # NoRunner) => evals = 1)
\* every displayed row runs exactly once, in display order
EachRowOnce ==
  \A g \in Inst : Cardinality({r \in 1..Len(rows) : rows[r].inst = g}) = pos[g]
Termination == <>Done
=============================================================================
