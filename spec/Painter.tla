------------------------------ MODULE Painter ------------------------------
(***************************************************************************)
(* TreePainter (src/tree_painter.rs) as a state machine: `depth` and the   *)
(* current prefix (one glyph group per open non-top-level parent: a bar    *)
(* under a parent that has later siblings, blanks under a last one), with  *)
(* the operations the runner calls while walking the sorted tree           *)
(* (src/divan.rs run_tree): start_parent / finish_parent / start_leaf.     *)
(* A tree is a sequence of subtrees; a leaf is the empty sequence.         *)
(* The top-level nodes (crates) carry no branch glyph.                     *)
(***************************************************************************)
EXTENDS Integers, Sequences, FiniteSets, TLC

CONSTANTS MaxDepth, MaxFan

RECURSIVE Trees(_)
Trees(d) ==
  IF d = 0 THEN {<<>>}
  ELSE UNION {[1..k -> Trees(d - 1)] : k \in 0..MaxFan}

VARIABLES
  forest,   \* the top-level sequence of trees being painted (fixed)
  stack,    \* walk stack: <<[nodes, i]>>: painting nodes[i..] of each open level
  depth, prefix,   \* TreePainter state
  out,      \* lines written: [prefix, branch, path]
  path      \* child indices of the open parents (ghost: identity of nodes)

vars == <<forest, stack, depth, prefix, out, path>>

Init ==
  /\ forest \in [1..1 -> Trees(MaxDepth)] \cup [1..2 -> Trees(MaxDepth - 1)]
  /\ stack = <<[nodes |-> forest, i |-> 1]>>
  /\ depth = 0 /\ prefix = <<>> /\ out = <<>> /\ path = <<>>

Top == stack[Len(stack)]
Done == stack = <<>>

Branch(isTop, isLast) == IF isTop THEN "none" ELSE IF isLast THEN "corner" ELSE "tee"

\* run_tree: next child is a parent -> TreePainter::start_parent
StartParent ==
  /\ ~Done /\ Top.i <= Len(Top.nodes) /\ Top.nodes[Top.i] # <<>>
  /\ LET isLast == Top.i = Len(Top.nodes)
         isTop == depth = 0
     IN /\ out' = Append(out, [prefix |-> prefix, branch |-> Branch(isTop, isLast), path |-> Append(path, Top.i)])
        /\ depth' = depth + 1
        /\ prefix' = IF isTop THEN prefix ELSE Append(prefix, IF isLast THEN "blank" ELSE "bar")
        /\ path' = Append(path, Top.i)
        /\ stack' = Append([stack EXCEPT ![Len(stack)].i = @ + 1], [nodes |-> Top.nodes[Top.i], i |-> 1])
  /\ UNCHANGED forest

\* run_tree: next child is a leaf -> start_leaf (+ finish_*leaf)
Leaf ==
  /\ ~Done /\ Top.i <= Len(Top.nodes) /\ Top.nodes[Top.i] = <<>>
  /\ LET isLast == Top.i = Len(Top.nodes)
     IN out' = Append(out, [prefix |-> prefix, branch |-> Branch(depth = 0, isLast), path |-> Append(path, Top.i)])
  /\ stack' = [stack EXCEPT ![Len(stack)].i = @ + 1]
  /\ UNCHANGED <<forest, depth, prefix, path>>

\* all children painted -> TreePainter::finish_parent (the prefix shrinks by
\* one group; finishing a top-level parent finds it empty)
FinishParent ==
  /\ ~Done /\ Top.i > Len(Top.nodes)
  /\ stack' = SubSeq(stack, 1, Len(stack) - 1)
  /\ IF Len(stack) = 1 THEN UNCHANGED <<depth, prefix, path>>
     ELSE /\ depth' = depth - 1
          /\ prefix' = IF prefix = <<>> THEN <<>> ELSE SubSeq(prefix, 1, Len(prefix) - 1)
          /\ path' = SubSeq(path, 1, Len(path) - 1)
  /\ UNCHANGED <<forest, out>>

Next == StartParent \/ Leaf \/ FinishParent
Spec == Init /\ [][Next]_vars /\ WF_vars(Next)

\* ---------------------------------------------------------------- properties
\* the prefix grows by one group per open non-top-level parent and shrinks by
\* the same on close
BalancedPrefix == Len(prefix) = (IF depth > 1 THEN depth - 1 ELSE 0)

LineDepth(ln) == Len(ln.prefix) + (IF ln.branch = "none" THEN 0 ELSE 1)
\* the node a path denotes and whether it is the last child of its parent
RECURSIVE SubtreesAt(_, _)
SubtreesAt(nodes, p) == IF p = <<>> THEN nodes ELSE SubtreesAt(nodes[Head(p)], Tail(p))
Last(s) == s[Len(s)]
IsLastChild(p) == Last(p) = Len(SubtreesAt(forest, SubSeq(p, 1, Len(p) - 1)))

\* each line's glyphs encode its true position: depth = path length - 1, the
\* corner exactly on last children, a bar exactly under ancestors (below the
\* top level) that have later siblings
GlyphsEncodePosition ==
  \A k \in 1..Len(out) :
    LET ln == out[k] IN
    /\ LineDepth(ln) = Len(ln.path) - 1
    /\ (ln.branch = "none") = (Len(ln.path) = 1)
    /\ ln.branch # "none" => ((ln.branch = "corner") = IsLastChild(ln.path))
    /\ \A j \in 1..Len(ln.prefix) :
         (ln.prefix[j] = "bar") = ~IsLastChild(SubSeq(ln.path, 1, j + 1))

\* the tree can be parsed back from (depth, order) alone: the paths
\* reconstructed from line depths equal the true paths
RECURSIVE Rebuild(_, _, _)
Rebuild(k, cur, counts) ==   \* cur: current path, counts: children seen per depth
  IF k > Len(out) THEN TRUE
  ELSE LET d == LineDepth(out[k])
           base == SubSeq(cur, 1, d)
           idx == (IF d + 1 <= Len(counts) THEN counts[d + 1] ELSE 0) + 1
           newCounts == SubSeq(counts, 1, d) \o <<idx>>
           p == Append(base, idx)
       IN d <= Len(cur) /\ p = out[k].path /\ Rebuild(k + 1, p, newCounts)
ParseBack == Done => Rebuild(1, <<>>, <<>>)

\* every node is painted exactly once, in depth-first order
RECURSIVE Dfs(_, _)
Dfs(nodes, base) ==
  LET RECURSIVE Each(_)
      Each(i) == IF i > Len(nodes) THEN <<>>
                 ELSE <<Append(base, i)>> \o Dfs(nodes[i], Append(base, i)) \o Each(i + 1)
  IN Each(1)
EachNodeOnceInDfsOrder == Done => [k \in 1..Len(out) |-> out[k].path] = Dfs(forest, <<>>)
Termination == <>Done
=============================================================================
