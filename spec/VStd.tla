------------------------------- MODULE VStd -------------------------------
(***************************************************************************)
(* The primitives divan's concurrent code is built from, as the            *)
(* instrumented std shim (src/verif/vstd.rs) logs them: atomics with their *)
(* orderings, mutex, rendezvous channel, park/unpark token, barrier, spawn.*)
(*                                                                         *)
(* This is layer L1 of DESIGN.md section 6: it knows nothing about the     *)
(* shape of the code using the primitives.  It maintains, for every        *)
(* thread, the set `knows[t]` of ghost events t happens-after, carried     *)
(* only along edges the language guarantees, so a derived happens-before   *)
(* is real.  Objects are identified by the ids in the log; functions have  *)
(* dynamic domains.                                                        *)
(***************************************************************************)
EXTENDS Integers, Sequences, FiniteSets, TLC

CONSTANT MaxT            \* managed thread ids are 0..MaxT
Tid == 0..MaxT

Releases(ord) == ord \in {"Release", "AcqRel", "SeqCst"}
Acquires(ord) == ord \in {"Acquire", "AcqRel", "SeqCst"}

Get(f, o, d) == IF o \in DOMAIN f THEN f[o] ELSE d
Put(f, o, v) == (o :> v) @@ f

VARIABLES
  knows,    \* [Tid -> set of ghost events]
  atomK,    \* obj -> knowledge released into the atomic (release sequence)
  mtxHeld,  \* obj -> holder tid, -1 if free
  mtxK,     \* obj -> knowledge released by the last unlock
  chSt,     \* obj -> "empty" | "offered" | "taken"
  chK,      \* obj -> knowledge attached to the pending offer
  tok,      \* [Tid -> BOOLEAN] park token
  tokK,     \* [Tid -> knowledge deposited with the token]
  barK,     \* obj -> knowledge of the arrivals of the current generation
  barDone,  \* <<obj, gen>> -> knowledge of a completed generation
  primBad   \* the log contradicts the semantics of a primitive

vvars == <<knows, atomK, mtxHeld, mtxK, chSt, chK, tok, tokK, barK, barDone,
           primBad>>

VInit ==
  /\ knows = [t \in Tid |-> {}]
  /\ atomK = <<>> /\ mtxHeld = <<>> /\ mtxK = <<>> /\ chSt = <<>> /\ chK = <<>>
  /\ tok = [t \in Tid |-> FALSE] /\ tokK = [t \in Tid |-> {}]
  /\ barK = <<>> /\ barDone = <<>>
  /\ primBad = FALSE

VReset ==
  /\ knows' = [t \in Tid |-> {}]
  /\ atomK' = <<>> /\ mtxHeld' = <<>> /\ mtxK' = <<>> /\ chSt' = <<>>
  /\ chK' = <<>>
  /\ tok' = [t \in Tid |-> FALSE] /\ tokK' = [t \in Tid |-> {}]
  /\ barK' = <<>> /\ barDone' = <<>>
  /\ primBad' = FALSE

Learn(t, K) == knows' = [knows EXCEPT ![t] = @ \cup K]

VNone == UNCHANGED vvars

VGhost(t, e) ==
  /\ Learn(t, {e})
  /\ UNCHANGED <<atomK, mtxHeld, mtxK, chSt, chK, tok, tokK, barK, barDone, primBad>>

VSpawn(t, child) ==
  /\ knows' = [knows EXCEPT ![child] = knows[t]]
  /\ UNCHANGED <<atomK, mtxHeld, mtxK, chSt, chK, tok, tokK, barK, barDone, primBad>>

VAtomLoad(t, o, ord) ==
  /\ Learn(t, IF Acquires(ord) THEN Get(atomK, o, {}) ELSE {})
  /\ UNCHANGED <<atomK, mtxHeld, mtxK, chSt, chK, tok, tokK, barK, barDone, primBad>>

\* A read-modify-write continues the release sequence it reads from.
VAtomRmw(t, o, ord) ==
  /\ Learn(t, IF Acquires(ord) THEN Get(atomK, o, {}) ELSE {})
  /\ atomK' = Put(atomK, o, Get(atomK, o, {}) \cup
                            (IF Releases(ord) THEN knows[t] ELSE {}))
  /\ UNCHANGED <<mtxHeld, mtxK, chSt, chK, tok, tokK, barK, barDone, primBad>>

VAtomStore(t, o, ord) ==
  /\ atomK' = Put(atomK, o, IF Releases(ord) THEN knows[t] ELSE {})
  /\ UNCHANGED <<knows, mtxHeld, mtxK, chSt, chK, tok, tokK, barK, barDone, primBad>>

VLock(t, o) ==
  /\ primBad' = (primBad \/ Get(mtxHeld, o, -1) # -1)
  /\ mtxHeld' = Put(mtxHeld, o, t)
  /\ Learn(t, Get(mtxK, o, {}))
  /\ UNCHANGED <<atomK, mtxK, chSt, chK, tok, tokK, barK, barDone>>

VUnlock(t, o) ==
  /\ primBad' = (primBad \/ Get(mtxHeld, o, -1) # t)
  /\ mtxHeld' = Put(mtxHeld, o, -1)
  /\ mtxK' = Put(mtxK, o, knows[t])
  /\ UNCHANGED <<knows, atomK, chSt, chK, tok, tokK, barK, barDone>>

VSendOffer(t, o, ok) ==
  /\ IF ok
       THEN /\ primBad' = (primBad \/ Get(chSt, o, "empty") # "empty")
            /\ chSt' = Put(chSt, o, "offered")
            /\ chK' = Put(chK, o, knows[t])
       ELSE UNCHANGED <<primBad, chSt, chK>>
  /\ UNCHANGED <<knows, atomK, mtxHeld, mtxK, tok, tokK, barK, barDone>>

VSendDone(t, o, ok) ==
  /\ IF ok
       THEN /\ primBad' = (primBad \/ Get(chSt, o, "empty") # "taken")
            /\ chSt' = Put(chSt, o, "empty")
       ELSE UNCHANGED <<primBad, chSt>>
  /\ UNCHANGED <<knows, atomK, mtxHeld, mtxK, chK, tok, tokK, barK, barDone>>

VRecv(t, o, ok) ==
  /\ IF ok
       THEN /\ primBad' = (primBad \/ Get(chSt, o, "empty") # "offered")
            /\ chSt' = Put(chSt, o, "taken")
            /\ Learn(t, Get(chK, o, {}))
       ELSE UNCHANGED <<primBad, chSt, knows>>
  /\ UNCHANGED <<atomK, mtxHeld, mtxK, chK, tok, tokK, barK, barDone>>

VUnpark(t, target) ==
  /\ tok' = [tok EXCEPT ![target] = TRUE]
  /\ tokK' = [tokK EXCEPT ![target] = @ \cup knows[t]]
  /\ UNCHANGED <<knows, atomK, mtxHeld, mtxK, chSt, chK, barK, barDone, primBad>>

VPark(t, spurious) ==
  /\ IF spurious
       THEN UNCHANGED <<tok, tokK, knows, primBad>>
       ELSE /\ primBad' = (primBad \/ ~tok[t])
            /\ tok' = [tok EXCEPT ![t] = FALSE]
            /\ tokK' = [tokK EXCEPT ![t] = {}]
            /\ Learn(t, tokK[t])
  /\ UNCHANGED <<atomK, mtxHeld, mtxK, chSt, chK, barK, barDone>>

\* `arrived` is the number of arrivals of this generation including this one.
VBarArrive(t, o, n, gen, arrived) ==
  LET K == Get(barK, o, {}) \cup knows[t] IN
  /\ IF arrived = n
       THEN /\ barDone' = Put(barDone, <<o, gen>>, K)
            /\ barK' = Put(barK, o, {})
       ELSE /\ barK' = Put(barK, o, K)
            /\ UNCHANGED barDone
  /\ UNCHANGED <<knows, atomK, mtxHeld, mtxK, chSt, chK, tok, tokK, primBad>>

VBarLeave(t, o, gen) ==
  /\ primBad' = (primBad \/ <<o, gen>> \notin DOMAIN barDone)
  /\ Learn(t, Get(barDone, <<o, gen>>, {}))
  /\ UNCHANGED <<atomK, mtxHeld, mtxK, chSt, chK, tok, tokK, barK, barDone>>

PrimitivesSound == ~primBad
=============================================================================
