------------------------------- MODULE Extend -------------------------------
(***************************************************************************)
(* ThreadPool::par_extend (src/util/thread/pool.rs) and the way the sample *)
(* loop uses it (src/benchmark/mod.rs: one result buffer, cleared and      *)
(* refilled every round, then searched for an empty entry = a thread that  *)
(* panicked).  C06: "per-index results land in index order with an empty   *)
(* entry exactly for the calls that panicked"; C08: a panic on any thread  *)
(* surfaces on the calling thread.                                         *)
(*                                                                         *)
(* Memory is abstract: the buffer has a capacity and a length; a cell is   *)
(* None, Some(round, index) or whatever it held before (cells beyond the   *)
(* length keep their old contents when the vector is cleared, and a fresh  *)
(* allocation is "junk").  One round:                                      *)
(*   Begin     the caller may clear the buffer (the sample loop does) or   *)
(*             keep what it holds (par_extend appends);                    *)
(*   Reserve   reserve_exact(n + 1): grows only if the spare capacity is   *)
(*             too small;                                                  *)
(*   Fill      EVERY spare cell is set to None, then the length is raised; *)
(*   Write(i)  the call for index i stores Some(its result) - in any order,*)
(*             never for an index whose call panicked;                     *)
(*   Join      the broadcast returned: the caller reads the n + 1 new      *)
(*             entries.                                                    *)
(* Mode "fill_when_grown" is the shortcut four independent sub-agents       *)
(* proposed as an optimisation (seeded C06_a, C06_c, C08_b, C08_c: "a      *)
(* reused buffer keeps its slots"): it must violate the invariants.        *)
(***************************************************************************)
EXTENDS Integers, Sequences, FiniteSets, TLC

CONSTANTS MaxAux, Rounds, Mode    \* Mode \in {"fill_always", "fill_when_grown"}

None == [k |-> "none", r |-> 0, i |-> 0]
Junk == [k |-> "junk", r |-> 0, i |-> 0]
Some(r, i) == [k |-> "some", r |-> r, i |-> i]

VARIABLES
  mem,      \* cells 1..cap
  len,      \* length of the vector
  round, n, panics,   \* the current round: number, auxiliary threads, indices whose call panics
  base,     \* length before this round's entries
  grew,     \* this round's reserve had to grow the buffer
  pc,       \* "begin" | "reserve" | "fill" | "run" | "joined"
  written,  \* indices that stored their result
  seen      \* history: per round what the caller read: [r, n, panics, got]
vars == <<mem, len, round, n, panics, base, grew, pc, written, seen>>

Cap == Len(mem)

Init ==
  /\ mem = <<>> /\ len = 0 /\ round = 0 /\ n = 0 /\ panics = {} /\ base = 0 /\ grew = FALSE
  /\ pc = "begin" /\ written = {} /\ seen = <<>>

Begin ==
  /\ pc \in {"begin", "joined"} /\ round < Rounds
  /\ round' = round + 1
  /\ \E m \in 0..MaxAux : \E ps \in SUBSET (0..m) : n' = m /\ panics' = ps
  /\ \E clear \in BOOLEAN : len' = IF clear THEN 0 ELSE len
  /\ pc' = "reserve" /\ written' = {}
  /\ UNCHANGED <<mem, base, grew, seen>>

Reserve ==
  /\ pc = "reserve"
  /\ base' = len
  /\ IF Cap - len < n + 1
       THEN \* a new allocation of exactly len + n + 1 cells: the elements move, the rest is junk
            /\ mem' = [c \in 1..(len + n + 1) |-> IF c <= len THEN mem[c] ELSE Junk]
            /\ grew' = TRUE
       ELSE UNCHANGED mem /\ grew' = FALSE
  /\ pc' = "fill"
  /\ UNCHANGED <<len, round, n, panics, written, seen>>

Fill ==
  /\ pc = "fill"
  /\ mem' = IF Mode = "fill_always" \/ grew
              THEN [c \in 1..Cap |-> IF c > len THEN None ELSE mem[c]]
              ELSE mem
  /\ len' = base + n + 1
  /\ pc' = "run"
  /\ UNCHANGED <<round, n, panics, base, grew, written, seen>>

Write(i) ==
  /\ pc = "run" /\ i \in 0..n /\ i \notin written /\ i \notin panics
  /\ mem' = [mem EXCEPT ![base + i + 1] = Some(round, i)]
  /\ written' = written \cup {i}
  /\ UNCHANGED <<len, round, n, panics, base, grew, pc, seen>>

Join ==
  /\ pc = "run" /\ written = (0..n) \ panics
  /\ seen' = Append(seen, [r |-> round, n |-> n, panics |-> panics, base |-> base,
                           got |-> [i \in 0..n |-> mem[base + i + 1]]])
  /\ pc' = "joined"
  /\ UNCHANGED <<mem, len, round, n, panics, base, grew, written>>

Next == Begin \/ Reserve \/ Fill \/ (\E i \in 0..MaxAux : Write(i)) \/ Join
Spec == Init /\ [][Next]_vars /\ WF_vars(Reserve \/ Fill \/ (\E i \in 0..MaxAux : Write(i)) \/ Join)

\* ---------------------------------------------------------------- properties
\* what the caller reads: this round's result for every index whose call
\* returned, an empty entry exactly for the calls that panicked
ResultsAreThisRounds ==
  \A k \in 1..Len(seen) : \A i \in 0..seen[k].n :
    seen[k].got[i] = IF i \in seen[k].panics THEN None ELSE Some(seen[k].r, i)
\* (C08) the caller finds an empty entry iff some call panicked
PanicSurfaces ==
  \A k \in 1..Len(seen) : (\E i \in 0..seen[k].n : seen[k].got[i] = None) = (seen[k].panics # {})
\* no entry the caller may read is ever junk or left over from an earlier round
NoStaleEntryBelowLength ==
  pc \in {"run", "joined"} => \A c \in (base + 1)..len :
     mem[c] = None \/ (mem[c].k = "some" /\ mem[c].r = round)
\* appending: entries that were there before the round are not touched
EarlierEntriesKept ==
  [][pc = "run" /\ pc' = "run" => \A c \in 1..base : mem'[c] = mem[c]]_vars
LengthWithinCapacity == len <= Cap
\* every started round is joined (the caller is free not to start another one)
RoundCompletes == (pc \in {"reserve", "fill", "run"}) ~> (pc = "joined")
=============================================================================
