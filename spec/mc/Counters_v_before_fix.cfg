SPECIFICATION Spec
CONSTANTS
  Kinds <- K2
  Values <- V3
  MaxSamples = 3
  OverrideDropsInput = FALSE
INVARIANTS FiguresBelongToTheirSamples MeanOverRecordedSamples
CHECK_DEADLOCK FALSE
