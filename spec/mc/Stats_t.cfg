SPECIFICATION Spec
CONSTANTS
  MaxLen = 6
  MaxDur = 5
  Sizes = {1, 2, 3}
INVARIANTS
  Ordered
  EmptyIsZero
  RanksInhabited
  RanksMonotone
  ChoiceExists
  MiddleIsMiddle
CHECK_DEADLOCK FALSE
