----------------------------- MODULE MC_Options -----------------------------
(***************************************************************************)
(* Theorems about Options.tla decided exhaustively by TLC:                 *)
(*  - one field at 5 levels (runner, benchmark, 3 nested groups), every    *)
(*    assignment of {unset, v1, v2}: the effective value is that of the    *)
(*    nearest level that sets it (243 assignments for each of 11 fields);  *)
(*  - every ordered pair of distinct fields at 3 levels, every assignment: *)
(*    each field resolves as if the other were never set (per-field        *)
(*    independence), nothing leaks into a third field;                     *)
(*  - folding from the outermost group inwards (what a tree walk does) and *)
(*    folding from the benchmark outwards give the same result;            *)
(*  - thread-count normalisation and the ignore table (ASSUMEs).           *)
(* The state graph is a two-level tree so that workers share the cases.    *)
(***************************************************************************)
EXTENDS Options, TLC

Vals == {Unset, Some("v1"), Some("v2")}

VARIABLES stage, mode, f, g, L
vars == <<stage, mode, f, g, L>>

Init == stage = 0 /\ mode = "none" /\ f = "ignore" /\ g = "ignore" /\ L = <<>>

Only(k, v) == [NoOptions EXCEPT ![k] = v]
Both(k1, v1, k2, v2) == [NoOptions EXCEPT ![k1] = v1, ![k2] = v2]

Next ==
  \/ /\ stage = 0 /\ stage' = 1 /\ L' = L
     /\ \/ mode' = "one" /\ f' \in OptKeys /\ g' = f'
        \/ mode' = "two" /\ f' \in OptKeys /\ g' \in OptKeys /\ f' # g'
  \/ /\ stage = 1 /\ stage' = 2 /\ UNCHANGED <<mode, f, g>>
     /\ IF mode = "one"
          THEN \E vf \in [1..5 -> Vals] : L' = [i \in 1..5 |-> Only(f, vf[i])]
          ELSE \E vf \in [1..3 -> Vals], vg \in [1..3 -> Vals] :
                 L' = [i \in 1..3 |-> Both(f, vf[i], g, vg[i])]

Spec == Init /\ [][Next]_vars

Ready == stage = 2
Groups == SubSeq(L, 3, Len(L))
E == Effective(L[1], L[2], Groups)

\* the order in which a walk from the root resolves: outermost group first,
\* each child over what was accumulated, the runner last
RECURSIVE WalkFold(_, _)
WalkFold(levels, i) == \* options accumulated at level i (Len = outermost)
  IF i = Len(levels) THEN levels[i] ELSE Overwrite(levels[i], WalkFold(levels, i + 1))
WalkOrder == Overwrite(L[1], WalkFold(L, 2))

Without(k) == [i \in 1..Len(L) |-> [L[i] EXCEPT ![k] = Unset]]

NearestRule == Ready => E = EffectiveDecl(L[1], L[2], Groups)
RunnerFirst == (Ready /\ IsSet(L[1][f])) => E[f] = L[1][f]
BenchmarkNext == (Ready /\ ~IsSet(L[1][f]) /\ IsSet(L[2][f])) => E[f] = L[2][f]
InnermostGroupNext ==
  (Ready /\ ~IsSet(L[1][f]) /\ ~IsSet(L[2][f]) /\ IsSet(L[3][f])) => E[f] = L[3][f]
UnsetEverywhereStaysUnset ==
  Ready => \A k \in OptKeys : (\A i \in 1..Len(L) : ~IsSet(L[i][k])) => ~IsSet(E[k])
Independence ==
  (Ready /\ mode = "two") =>
     LET Lg == Without(g)
         Lf == Without(f)
     IN /\ E[f] = Effective(Lg[1], Lg[2], SubSeq(Lg, 3, Len(Lg)))[f]
        /\ E[g] = Effective(Lf[1], Lf[2], SubSeq(Lf, 3, Len(Lf)))[g]
WalkOrderAgrees == Ready => WalkOrder = E
OverwriteUnit ==
  Ready => \A i \in 1..Len(L) : Overwrite(NoOptions, L[i]) = L[i] /\ Overwrite(L[i], NoOptions) = L[i]
OverwriteAssociative ==
  Ready => Overwrite(L[1], Overwrite(L[2], L[3])) = Overwrite(Overwrite(L[1], L[2]), L[3])
WellFormed == Ready => IsOptions(E)
\* expected to FAIL (Options_v_outer): "the outermost level that sets a field
\* wins" is a different rule - shows the checks above are not vacuous
OutermostWins ==
  Ready => LET S == {i \in 1..Len(L) : IsSet(L[i][f])}
           IN S # {} => E[f] = L[CHOOSE i \in S : \A j \in S : j <= i][f]

\* ------------------------------------------------------------ thread counts
TVals == {0, 1, 2, 4}
TLists == UNION {[1..n -> TVals] : n \in 0..3}
Range(s) == {s[i] : i \in 1..Len(s)}

ASSUME ThreadCountsTheorems ==
  \A par \in {2, 8} : \A l \in TLists :
    LET r == ThreadCounts(l, par) IN
    /\ Len(r) >= 1
    /\ \A i \in 1..(Len(r) - 1) : r[i] < r[i + 1]            \* ascending, no duplicate
    /\ 0 \notin Range(r)
    /\ (l = <<>>) => r = <<1>>
    /\ (l # <<>>) => Range(r) = {IF x = 0 THEN par ELSE x : x \in Range(l)}

ASSUME IgnoreTable ==
  /\ ShouldRun("no", FALSE) /\ ~ShouldRun("no", TRUE)
  /\ ShouldRun("yes", FALSE) /\ ShouldRun("yes", TRUE)
  /\ ~ShouldRun("only", FALSE) /\ ShouldRun("only", TRUE)
  /\ EffectiveShouldRun("no", NoOptions)                     \* default: not ignored
=============================================================================
