SPECIFICATION MCSpec
CONSTANTS
  MaxNT = 3
  NTc = 3
  Sc = 2
  HasInputsC = TRUE
  AllowPanic = FALSE
  Guard = TRUE
  Rounds = 1
INVARIANTS
  TypeOK
  NoStartBeforeAllGeneratedAndCleared
  NoDropBeforeAllEnded
  OnlyCallsInTimedSection
  NoDeadlock
PROPERTY PanicTerminates
CHECK_DEADLOCK FALSE
