------------------------------ MODULE MC_Args ------------------------------
EXTENDS Args
\* three arguments, two of which render alike (e.g. 1u8 and 1u16 behind a
\* Debug label, or "a" given twice)
LabelDup == <<"a", "b", "a">>
LabelDistinct == <<"a", "b", "c">>
=============================================================================
