SPECIFICATION Spec
CONSTANTS
  Plain <- PlainQ
  Generic <- GenericQ
  Modules <- ModulesQ
  Filters <- FiltersQ
  Mode = "as_coded"
INVARIANTS ResultIsDeclarative GroupsReachTheirBenchmarks
CHECK_DEADLOCK FALSE
