SPECIFICATION MCSpec
CONSTANTS
  MaxNT = 1
  NTc = 1
  Sc = 2
  HasInputsC = TRUE
  AllowPanic = TRUE
  Guard = TRUE
  Rounds = 2
INVARIANTS
  TypeOK
  NoStartBeforeAllGeneratedAndCleared
  NoDropBeforeAllEnded
  OnlyCallsInTimedSection
  NoDeadlock
PROPERTY PanicTerminates
CHECK_DEADLOCK FALSE
