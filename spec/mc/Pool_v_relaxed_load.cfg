SPECIFICATION MCSpec
CONSTANTS
  MaxWorkers = 2
  MaxSpurious = 0
  RelOrd = "Release"
  AcqOrd = "Relaxed"
  ParkLoop = TRUE
  CloneFirst = TRUE
CONSTANT History <- H_2
INVARIANTS
  TypeOK
  OncePerIndex
  ReturnAfterAllCalls
  ReturnHappensAfterCalls
  NoAccessAfterDrop
  SpawnOnlyMissing
  NoDeadlock

CHECK_DEADLOCK FALSE
