SPECIFICATION Spec
CONSTANTS
  MaxAux = 2
  Rounds = 3
  Mode = "fill_always"
INVARIANTS
  ResultsAreThisRounds
  PanicSurfaces
  NoStaleEntryBelowLength
  LengthWithinCapacity
PROPERTIES
  EarlierEntriesKept
  RoundCompletes
CHECK_DEADLOCK FALSE
