------------------------------ MODULE MC_Round ------------------------------
(* Bounded instance of Round.tla: every interleaving of NT threads over     *)
(* Rounds rounds, every point at which user code may panic.                 *)
EXTENDS Round

CONSTANTS Rounds, NTc, Sc, HasInputsC
VARIABLE r            \* rounds completed

\* The pool joins all threads; without a panic the loop starts another round.
NextRound ==
  /\ AllFinished /\ ~AnyPanic /\ r + 1 < Rounds
  /\ r' = r + 1
  /\ ResetRound

MCInit == InitWith([nt |-> NTc, s |-> Sc, hasInputs |-> HasInputsC]) /\ r = 0
MCNext == (\E t \in Th : Step(t) /\ UNCHANGED r) \/ NextRound
MCSpec == MCInit /\ [][MCNext]_<<vars, r>> /\ \A t \in AllTh : WF_<<vars, r>>(Step(t) /\ UNCHANGED r)
             /\ WF_<<vars, r>>(NextRound)

Final == AllFinished /\ (AnyPanic \/ r + 1 = Rounds)
\* C08: a panic on any thread ends the run (the caller then reports it)
\* instead of leaving the others blocked on the barrier.
NoDeadlock == (ENABLED MCNext) \/ Final
PanicTerminates == <>Final
\* Drop is a stuttering-like self loop; bound it for liveness checking only.
=============================================================================
