SPECIFICATION MCSpec
CONSTANTS
  MaxWorkers = 1
  MaxSpurious = 0
  RelOrd = "Release"
  AcqOrd = "Acquire"
  ParkLoop = TRUE
  CloneFirst = FALSE
CONSTANT History <- H_1
INVARIANTS
  TypeOK
  OncePerIndex
  ReturnAfterAllCalls
  ReturnHappensAfterCalls
  NoAccessAfterDrop
  SpawnOnlyMissing
  NoDeadlock

CHECK_DEADLOCK FALSE
