SPECIFICATION MCSpec
CONSTANTS
  MaxNT = 3
  NTc = 3
  Sc = 1
  HasInputsC = TRUE
  AllowPanic = TRUE
  Guard = TRUE
  Rounds = 1
INVARIANTS
  TypeOK
  NoStartBeforeAllGeneratedAndCleared
  NoDropBeforeAllEnded
  OnlyCallsInTimedSection
  NoDeadlock
PROPERTY PanicTerminates
CHECK_DEADLOCK FALSE
