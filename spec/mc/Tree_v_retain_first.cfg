SPECIFICATION Spec
CONSTANTS
  Plain <- PlainQ
  Generic <- GenericQ
  Modules <- ModulesQ
  Filters <- FiltersQ
  Mode = "retain_first"
INVARIANTS ResultIsDeclarative GroupsReachTheirBenchmarks
CHECK_DEADLOCK FALSE
