SPECIFICATION Spec
CONSTANTS
  Threads = {1}
  Sizes = {0, 1, 2}
  Ptrs = {1, 2}
  MaxReq = 1
  Variant = "record_allocated_through_self"
INVARIANTS
  OneIdenticalRequest
  ReturnsTheAnswer
  NothingElseForwarded
  NoReentry
PROPERTY AllServed
CHECK_DEADLOCK FALSE
