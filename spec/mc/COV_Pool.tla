------------------------------ MODULE COV_Pool ------------------------------
(* MC_Pool plus the actor of the last step, so that the dumped state graph  *)
(* can be turned into schedules (one implementation run per path of a path  *)
(* cover of all transitions) that are replayed through the real pool.       *)
EXTENDS MC_Pool

VARIABLE last

StepOf(t) == IF t = 0 THEN CallerStep ELSE WorkerStep(t, RelOrd)

CovInit == Init /\ last = -1
CovNext == \E t \in T : StepOf(t) /\ last' = t
CovSpec == CovInit /\ [][CovNext]_<<vars, last>>
=============================================================================
