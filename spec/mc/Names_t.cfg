SPECIFICATION Spec
CONSTANTS
  PairLen = 3
  TripleLen = 2
INVARIANTS
  NatReflexive
  NatAntisymmetric
  NatAgreesWithValueDefinition
  NatTiesAreLeadingZerosOnly
  NatSetSane
  TokensPartition
  LexAgrees
  KindAgrees
  NumericByValue
  NonNumericNatural
  ArgReflexive
  ArgAntisymmetric
  ArgStrictOnDistinctPositions
  KindIsNameForArgs
  NameTieFallsToPosition
  CanonicalIsPermitted
  ReverseIsExactReverse
  OpenCasesOnly
  MatrixFormAgrees
  NatTransitive
  ArgTransitive
  LocationAlwaysTransitive
CHECK_DEADLOCK FALSE
