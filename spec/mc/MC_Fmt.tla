------------------------------- MODULE MC_Fmt -------------------------------
(***************************************************************************)
(* C18, checked on the specification itself: theorems about Fmt.tla that   *)
(* say the text it produces is a truthful truncation, evaluated by TLC     *)
(*   - for every duration 0 .. Dense picoseconds,                          *)
(*   - for every 10^k + {-2..2}, every c * unit + {-2..2} (c around the    *)
(*     digit-count changes 1, 10, 100, 1000, 10000 and the unit changes)   *)
(*     and 2^64, 2^127, 2^128 neighbourhoods up to 2^128 - 1,              *)
(*   - for ratios num / den of a grid, all unit kinds, both prefix         *)
(*     systems.                                                            *)
(* Theorems: the text is <number> <unit>; the number is plain positional   *)
(* decimal (no exponent), canonical (no leading/trailing zeros, no         *)
(* dangling point), has at most 4 digits unless the integer part alone     *)
(* needs more; read back, v <= exact < v + 10^-places (hence also within   *)
(* one unit of the last printed place); the unit is the largest one not    *)
(* exceeding the value and the number stays below the next unit.           *)
(* For ratios additionally: the exact formatting is accepted by AcceptsRat *)
(* and acceptance is tight (for integers below 2^40 exactly the texts of   *)
(* the same formatting are accepted).                                      *)
(*                                                                         *)
(* The state graph is a tree root -> chunk -> value, so the workers share  *)
(* the evaluation.                                                         *)
(***************************************************************************)
EXTENDS Fmt, TLC

CONSTANTS Dense,      \* durations 0..Dense ps are all checked
          Bounds,     \* sequence of further durations (BigNat)
          RatNums,    \* sequence of numerators (BigNat)
          RatDens     \* sequence of denominators (BigNat, non-zero)

N(x) == FromInt(x)
U128Max == Sub(Pow2(128), One)

Near(c, j) == CASE j = 1 -> Monus(c, N(2)) [] j = 2 -> Monus(c, One) [] j = 3 -> c
                 [] j = 4 -> Add(c, One) [] j = 5 -> Add(c, N(2))

Mults_q == <<1, 2, 9, 10, 11, 23, 24, 59, 60, 99, 100, 999, 1000, 1001, 9999, 10000, 99999>>
Mults_t == Mults_q \o <<3, 5, 12, 25, 61, 101, 365, 1023, 1024, 1234, 5999, 6000, 12345,
                        100000, 123456>>

NU == Len(DurUnitPicos)
Centers(mults) ==
  [k \in 1..39 |-> Pow10(k - 1)]
  \o [i \in 1..(NU * Len(mults)) |->
        MulSmall(DurUnitPicos[((i - 1) \div Len(mults)) + 1], mults[((i - 1) % Len(mults)) + 1])]
  \o << Pow2(64), Pow2(127), Sub(U128Max, N(2)) >>
  \* 9999.5 units and the like: the last digit kept / the first digit dropped
  \o [i \in 1..NU |-> Div(MulSmall(DurUnitPicos[i], 19999), N(2))]
  \o [i \in 1..NU |-> Div(MulSmall(DurUnitPicos[i], 12345), N(1000))]
  \o [i \in 1..NU |-> Div(MulSmall(DurUnitPicos[i], 99995), N(10000))]

\* every centre with its neighbours -2 .. +2, as far as they fit 128 bits
BoundsOf(mults) ==
  LET cs == Centers(mults)
  IN SelectSeq([i \in 1..(5 * Len(cs)) |-> Near(cs[((i - 1) \div 5) + 1], ((i - 1) % 5) + 1)],
               LAMBDA v : Le(v, U128Max))

Bounds_q == BoundsOf(Mults_q)
Bounds_t == BoundsOf(Mults_t)

RatNums_q == << Zero, One, N(2), N(3), N(7), N(999), N(1000), N(1001), N(1023), N(1024),
                N(1025), N(9999), N(10000), N(12345), N(99999), N(999999), N(1000000),
                N(1048575), N(1048576), N(123456789), Pow10(9), Pow2(30), Pow10(12),
                Pow2(40), Sub(Pow10(15), One), Pow10(15), Pow2(50), Pow10(18),
                Sub(Pow2(64), One), Pow10(24), Pow10(31) >>
RatDens_q == << One, N(2), N(3), N(7), N(10), N(1000), N(1024), N(4096), N(99999),
                Pow10(6), Pow10(12), Add(Pow10(12), One), Pow2(64), U128Max >>

Kinds == <<"plain", "bytes", "bytes/s", "chars/s", "cycles/s", "items/s">>

ChunkSize == 50
DenseChunks == (Dense \div ChunkSize) + 1
BoundChunks == ((Len(Bounds) - 1) \div ChunkSize) + 1

VARIABLES k,     \* "root" | "chunk" | "dur" | "rat"
          vals,  \* chunk: the durations of the chunk / <<numerator>>
          x,     \* the duration (BigNat) / <<num, den, other num>>
          txt    \* its text / unused

vars == <<k, vals, x, txt>>

Init == k = "root" /\ vals = <<>> /\ x = Zero /\ txt = <<>>

Min(a, b) == IF a < b THEN a ELSE b

ToChunk ==
  /\ k = "root" /\ UNCHANGED <<x, txt>>
  /\ \/ \E c \in 0..(DenseChunks - 1) :
          /\ vals' = [i \in 1..(Min(Dense, c * ChunkSize + ChunkSize - 1) - c * ChunkSize + 1)
                        |-> N(c * ChunkSize + i - 1)]
          /\ k' = "chunk"
     \/ \E c \in 0..(BoundChunks - 1) :
          /\ vals' = SubSeq(Bounds, c * ChunkSize + 1, Min(Len(Bounds), (c + 1) * ChunkSize))
          /\ k' = "chunk"
     \/ \E c \in 1..Len(RatNums) : vals' = <<RatNums[c]>> /\ k' = "ratchunk"

ToDur ==
  /\ k = "chunk" /\ k' = "dur" /\ UNCHANGED vals
  /\ \E i \in 1..Len(vals) : x' = vals[i] /\ txt' = FormatDur(vals[i])

ToRat ==
  /\ k = "ratchunk" /\ k' = "rat" /\ UNCHANGED <<vals, txt>>
  /\ \E d \in 1..Len(RatDens) :
       x' = <<vals[1], RatDens[d], IF d <= Len(RatNums) THEN RatNums[d] ELSE Zero>>

Next == ToChunk \/ ToDur \/ ToRat
Spec == Init /\ [][Next]_vars

(* ---------------------------- duration theorems ------------------------ *)
AtDur == k = "dur"
Parts == SplitText(txt)
Num == ParseNum(Parts.num)
RECURSIVE DurUnitByName(_, _)
DurUnitByName(u, i) ==
  IF i = 0 THEN 0 ELSE IF DurUnitNames[i] = u THEN i ELSE DurUnitByName(u, i - 1)
UnitK == DurUnitByName(Parts.unit, Len(DurUnitNames))

\* <number> <unit>, a known unit, never ps; plain positional decimal.
Shape == AtDur => Parts.spaced /\ UnitK >= NanoSec /\ Num.ok

NoExponentNoPadding ==
  AtDur => \A i \in 1..Len(Parts.num) : IsDigitCp(Parts.num[i]) \/ Parts.num[i] = DOT

CanonicalNumber == AtDur => Canonical(Num)

\* At most 4 digits in all, unless the integer part alone needs more.
DigitBudget ==
  AtDur => IF Len(Num.ip) >= SigDigits THEN Num.fr = <<>>
           ELSE Len(Num.ip) + Len(Num.fr) <= SigDigits

\* Read back: v <= exact < v + 10^-p in the printed unit (truncation toward
\* zero at the place the statement names) ...
TruthfulTruncation ==
  AtDur =>
    LET p == Places(Len(Num.ip))
        n == ScaledValue(Num)
        u == DurUnitPicos[UnitK]
        xp == MulPow10(x, p)
    IN Le(Mul(n, u), xp) /\ Lt(xp, Mul(Add(n, One), u))

\* ... and therefore within one unit of the last printed place.
WithinLastPrintedPlace ==
  AtDur =>
    LET j == Len(Num.fr)
        n == FromDecDigits(Num.ip \o Num.fr)
        u == DurUnitPicos[UnitK]
        xp == MulPow10(x, j)
    IN Le(Mul(n, u), xp) /\ Lt(xp, Mul(Add(n, One), u))

\* Largest unit not exceeding the value; below 1 ns: ns.
RightUnit ==
  AtDur =>
    /\ (Le(Pow10(3), x) => Le(DurUnitPicos[UnitK], x))
    /\ (Lt(x, Pow10(3)) => UnitK = NanoSec)
    /\ (UnitK < Len(DurUnitPicos) => Lt(x, DurUnitPicos[UnitK + 1]))

\* Formatting the truncated value again gives the same text (idempotence).
Idempotent ==
  AtDur =>
    LET p == Places(Len(Num.ip))
        n == ScaledValue(Num)
        back == DivMod(Mul(n, DurUnitPicos[UnitK]), Pow10(p))
    IN back[2] = Zero /\ FormatDur(back[1]) = txt

(* ------------------------------ ratio theorems ------------------------- *)
AtRat == k = "rat"
RNum == x[1]
RDen == x[2]
ROther == x[3]

RatTheoremsFor(kind, binary) ==
  LET t == FormatRat(RNum, RDen, kind, binary)
      sp == SplitText(t)
      pn == ParseNum(sp.num)
      bin == IsBinary(kind, binary)
      sc == Scales(bin)
      ki == IF kind = "plain" THEN 1 ELSE UnitIndexByName(sp.unit, kind, binary, Len(sc))
      p == Places(Len(pn.ip))
      n == ScaledValue(pn)
      unitDen == Mul(RDen, sc[ki])
      numP == MulPow10(RNum, p)
  IN /\ Canonical(pn) /\ ki >= 1
     /\ (kind = "plain") = ~sp.spaced
     \* exact truncation
     /\ Le(Mul(n, unitDen), numP) /\ Lt(numP, Mul(Add(n, One), unitDen))
     \* right prefix
     /\ (ki > 1 => Le(unitDen, RNum))
     /\ (ki < Len(sc) /\ kind # "plain" => Lt(RNum, Mul(RDen, sc[ki + 1])))
     \* the exact text is accepted
     /\ AcceptsRat(t, RNum, RDen, kind, binary)

RatTheorems ==
  AtRat => \A i \in 1..Len(Kinds), binary \in BOOLEAN :
             RatTheoremsFor(Kinds[i], binary)

\* Tightness: the widened interval [lo, hi] is far narrower than the set of
\* values sharing one text, so for integers below 2^40 exactly the texts of
\* lo, of the exact value and of hi are accepted (a second numerator comes
\* with the state and supplies the candidate text).
AcceptanceIsTight ==
  AtRat /\ Lt(RNum, Pow2(40)) /\ Lt(ROther, Pow2(40)) =>
    \A binary \in BOOLEAN :
      LET other == FormatRat(ROther, One, "bytes", binary)
      IN AcceptsRat(other, RNum, One, "bytes", binary)
           = (other \in {FormatRat(RNum, One, "bytes", binary),
                         FormatRat(Mul(RNum, EpsLo), EpsDen, "bytes", binary),
                         FormatRat(Mul(RNum, EpsHi), EpsDen, "bytes", binary)})

\* Malformed texts are never accepted.
RejectsMalformed ==
  AtRat /\ RDen = One /\ RNum # Zero =>
    LET t == FormatRat(RNum, One, "bytes", FALSE)
    IN /\ ~AcceptsRat(<<49, 101, 51, 32, 66>>, RNum, One, "bytes", FALSE)     \* 1e3 B
       /\ ~AcceptsRat(<<78, 97, 78, 32, 66>>, RNum, One, "bytes", FALSE)      \* NaN B
       /\ ~AcceptsRat(<<ZeroCp>> \o t, RNum, One, "bytes", FALSE)             \* leading zero
       /\ ~AcceptsRat(SplitText(t).num, RNum, One, "bytes", FALSE)            \* no unit
       /\ ~AcceptsRat(t \o <<SP>>, RNum, One, "bytes", FALSE)
       /\ ~AcceptsRat(t, RNum, One, "bytes/s", FALSE)                         \* wrong unit

(* Spot checks against the examples of the documentation / tests.          *)
T(x_, s) == FormatDur(x_) = s
ASSUME T(Zero, <<48, 32, 110, 115>>)                             \* 0 ns
ASSUME T(N(1), <<48, 46, 48, 48, 49, 32, 110, 115>>)             \* 0.001 ns
ASSUME T(N(1234567), <<49, 46, 50, 51, 52, 32, 181, 115>>)       \* 1.234 µs
ASSUME T(N(100200), <<49, 48, 48, 46, 50, 32, 110, 115>>)        \* 100.2 ns
ASSUME T(N(100020), <<49, 48, 48, 32, 110, 115>>)                \* 100 ns
ASSUME T(MulSmall(Pow10(9), 59999), <<53, 57, 46, 57, 57, 32, 115>>)    \* 59.99 s
ASSUME T(Sub(MulSmall(Pow10(14), 36), One), <<53, 57, 46, 57, 57, 32, 109>>)  \* 59.99 m
ASSUME T(U128Max, ToDecCps(FromDecDigits(<<3,9,3,8,4,5,3,3,2,0,8,4,4,1,9,5,1,7,8,9,7,4>>))
                    \o <<32, 100>>)                              \* 3938453320844195178974 d
ASSUME FormatRat(N(1536), One, "bytes", TRUE) = <<49, 46, 53, 32, 75, 105, 66>>   \* 1.5 KiB
ASSUME FormatRat(N(1536), One, "bytes", FALSE) = <<49, 46, 53, 51, 54, 32, 75, 66>> \* 1.536 KB
ASSUME FormatThroughput(N(3), N(1000), "items/s", TRUE)
         = <<51, 32, 71, 105, 116, 101, 109, 47, 115>>            \* 3 Gitem/s
ASSUME FormatThroughput(N(3), Zero, "cycles/s", FALSE) = <<105, 110, 102, 32, 72, 122>>
ASSUME FormatThroughput(Zero, Zero, "chars/s", FALSE) = <<48, 32, 99, 104, 97, 114, 47, 115>>
=============================================================================
