SPECIFICATION Spec
CONSTANTS
  MaxAux = 1
  Rounds = 2
  Mode = "fill_when_grown"
INVARIANTS
  ResultsAreThisRounds
  PanicSurfaces
  NoStaleEntryBelowLength
  LengthWithinCapacity
PROPERTIES
  EarlierEntriesKept
  RoundCompletes
CHECK_DEADLOCK FALSE
