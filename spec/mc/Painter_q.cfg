SPECIFICATION Spec
CONSTANTS
  MaxDepth = 3
  MaxFan = 2
INVARIANTS
  BalancedPrefix
  GlyphsEncodePosition
  ParseBack
  EachNodeOnceInDfsOrder
PROPERTY Termination
CHECK_DEADLOCK FALSE
