SPECIFICATION Spec
CONSTANTS
  SizeSet = {0, 1, 2, 5}
  MaxOps = 5
  Threads = {1}
INVARIANTS
  TallyExact
  MaxIsPrefixMax
  MaxDominates
CHECK_DEADLOCK FALSE
