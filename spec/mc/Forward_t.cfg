SPECIFICATION Spec
CONSTANTS
  Threads = {1, 2, 3}
  Sizes = {0, 1}
  Ptrs = {1, 2}
  MaxReq = 2
  Variant = "code"
INVARIANTS
  OneIdenticalRequest
  ReturnsTheAnswer
  NothingElseForwarded
  NoReentry
PROPERTY AllServed
CHECK_DEADLOCK FALSE
