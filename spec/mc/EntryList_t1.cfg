SPECIFICATION FairSpec
CONSTANTS
  ThreadIds <- T3
  Readers <- R1
  Plans <- PlansT1
  MaxSpurious = 2
INVARIANTS TypeOK ListIsHistory NoDuplicates EveryEntryExactlyOnce PerThreadLifo ReaderSeesSnapshot
PROPERTIES PublishedLinksFrozen Termination
CHECK_DEADLOCK FALSE
