SPECIFICATION Spec
INVARIANTS
  OutermostWins
CHECK_DEADLOCK FALSE
