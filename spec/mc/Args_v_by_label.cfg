SPECIFICATION Spec
CONSTANTS
  N = 3
  G = 1
  Lookup = "label"
  FnHome = "runner"
  Label <- LabelDup
INVARIANTS
  RowMeasuresItsArgument
  RowRunsItsInstance
  EvaluatedOnce
  EachRowOnce
PROPERTY Termination
CHECK_DEADLOCK FALSE
