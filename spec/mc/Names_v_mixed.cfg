SPECIFICATION Spec
CONSTANTS
  PairLen = 2
  TripleLen = 2
INVARIANTS
  TransAll
CHECK_DEADLOCK FALSE
