SPECIFICATION Spec
CONSTANTS
  StrLen = 3
  MaxCalls = 2
INVARIANTS
  PositiveWins
CHECK_DEADLOCK FALSE
