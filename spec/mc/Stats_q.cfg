SPECIFICATION Spec
CONSTANTS
  MaxLen = 5
  MaxDur = 4
  Sizes = {1, 2, 3}
INVARIANTS
  Ordered
  EmptyIsZero
  RanksInhabited
  RanksMonotone
  ChoiceExists
  MiddleIsMiddle
CHECK_DEADLOCK FALSE
