SPECIFICATION Spec
CONSTANTS
  Dense = 70000
CONSTANT Bounds <- Bounds_t
CONSTANT RatNums <- RatNums_q
CONSTANT RatDens <- RatDens_q
INVARIANTS
  Shape
  NoExponentNoPadding
  CanonicalNumber
  DigitBudget
  TruthfulTruncation
  WithinLastPrintedPlace
  RightUnit
  Idempotent
  RatTheorems
  AcceptanceIsTight
  RejectsMalformed
CHECK_DEADLOCK FALSE
