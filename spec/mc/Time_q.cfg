SPECIFICATION Spec
CONSTANTS
  MaxIter = 3000
CONSTANT Grid <- Grid_q
CONSTANT Freqs <- Freqs_q
CONSTANT Shifts <- Shifts_q
CONSTANT Nanos <- Nanos_q
CONSTANT Clocks <- Clocks_q
INVARIANTS
  ZeroWhenBackwards
  DivisionLaw
  NoOverflow
  MonotoneInB
  Additive
  TranslationInvariant
  DurationExact
  LoopBounded
  ReportsTheStep
  PlainClockSamples
  Finishes
CHECK_DEADLOCK FALSE
