SPECIFICATION Spec
CONSTANTS
  Mode = "every_label"
  NameLens = {1, 5}
  ThreadLens = {3, 4, 5}
  ValLens = {2, 9}
  ColW = 8
  MaxRows = 5
  MaxDepth = 3
INVARIANTS
  NameColumnAligned
  SeparatorsAligned
PROPERTIES
  SpanIsFinal
  ColumnsOnlyGrow
  Termination
CHECK_DEADLOCK FALSE
