SPECIFICATION FairSpec
CONSTANTS
  ThreadIds <- T3
  Readers <- R1
  Plans <- PlansQ
  MaxSpurious = 1
INVARIANTS TypeOK ListIsHistory NoDuplicates EveryEntryExactlyOnce PerThreadLifo ReaderSeesSnapshot
PROPERTIES PublishedLinksFrozen Termination
CHECK_DEADLOCK FALSE
