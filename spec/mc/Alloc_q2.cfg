SPECIFICATION Spec
CONSTANTS
  SizeSet = {0, 2}
  MaxOps = 2
  Threads = {1, 2}
INVARIANTS
  TallyExact
  MaxIsPrefixMax
  MaxDominates
CHECK_DEADLOCK FALSE
