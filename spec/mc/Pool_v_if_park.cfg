SPECIFICATION MCSpec
CONSTANTS
  MaxWorkers = 1
  MaxSpurious = 1
  RelOrd = "Release"
  AcqOrd = "Acquire"
  ParkLoop = FALSE
  CloneFirst = TRUE
CONSTANT History <- H_11
INVARIANTS
  TypeOK
  OncePerIndex
  ReturnAfterAllCalls
  ReturnHappensAfterCalls
  NoAccessAfterDrop
  SpawnOnlyMissing
  NoDeadlock

CHECK_DEADLOCK FALSE
