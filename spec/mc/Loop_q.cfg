SPECIFICATION Spec
CONSTANTS
  Ns = {0, 1, 2, 3}
  Ts = {1, 2}
  Mins = {0, 3000, 9000}
  PerIter = {40, 400, 3000}
  Gaps = {0, 500}
  Precisions = {1, 5}
  MaxRounds = 260
  Tests = {TRUE, FALSE}
CONSTANT Ss <- Ss_q
CONSTANT Maxs <- Maxs_q
INVARIANTS
  ZeroMeansNoCall
  TestOncePerThread
  SamplesExactly
  CallsExactly
  StopsAtFirstBoundary
  ElapsedDefinition
  SizesArePowersOfTwo
  ThresholdRule
  EarlierSamplesDiscarded
  BudgetCoversTuning
  NotCut
PROPERTY Termination
CHECK_DEADLOCK FALSE
