------------------------------ MODULE MC_Alloc ------------------------------
(***************************************************************************)
(* C10 on the design level: for every sequence of allocator operations     *)
(* since the clearing point, the incrementally maintained tally            *)
(* (Tally.tla Apply, the arithmetic of src/alloc.rs) equals the            *)
(* declarative definition of the statement: per kind the number of         *)
(* operations and the sum of their byte sizes, and max count / max size =  *)
(* the highest number of live allocations / live bytes relative to the     *)
(* clearing point after ANY prefix of the sequence (the empty one          *)
(* included).  Two threads: operations of one never change the other's.    *)
(***************************************************************************)
EXTENDS Tally, FiniteSets, TLC

CONSTANTS SizeSet, MaxOps, Threads

Ops == [op : {"alloc", "alloc_zeroed", "dealloc"}, size : SizeSet, new : {0}]
       \cup [op : {"realloc"}, size : SizeSet, new : SizeSet]

VARIABLES tally,   \* tally[t]
          hist     \* hist[t]: operations of t since its clear
vars == <<tally, hist>>

Init == tally = [t \in Threads |-> ZeroTally] /\ hist = [t \in Threads |-> <<>>]

Do(t, o) ==
  /\ Len(hist[t]) < MaxOps
  /\ tally' = [tally EXCEPT ![t] = Apply(@, o.op, o.size, o.new)]
  /\ hist' = [hist EXCEPT ![t] = Append(@, o)]

Clear(t) ==
  /\ hist[t] # <<>>
  /\ tally' = [tally EXCEPT ![t] = ZeroTally]
  /\ hist' = [hist EXCEPT ![t] = <<>>]

Next == \E t \in Threads : (\E o \in Ops : Do(t, o)) \/ Clear(t)
Spec == Init /\ [][Next]_vars

\* ---- declarative side
IsAlloc(o) == o.op \in {"alloc", "alloc_zeroed"}
IsGrow(o) == o.op = "realloc" /\ o.new >= o.size
IsShrink(o) == o.op = "realloc" /\ o.new < o.size
CountOf(h, P(_)) == Cardinality({i \in DOMAIN h : P(h[i])})
SumOf(h, P(_), B(_)) ==
  LET f[i \in 0..Len(h)] ==
        IF i = 0 THEN 0 ELSE f[i - 1] + (IF P(h[i]) THEN B(h[i]) ELSE 0)
  IN f[Len(h)]
SizeOf(o) == o.size
DeltaAbs(o) == Abs(o.new - o.size)
LiveCountDelta(o) == IF IsAlloc(o) THEN 1 ELSE IF o.op = "dealloc" THEN -1 ELSE 0
LiveSizeDelta(o) == IF IsAlloc(o) THEN o.size ELSE IF o.op = "dealloc" THEN -o.size ELSE o.new - o.size
All(o) == TRUE
LiveCount(h, k) == SumOf(SubSeq(h, 1, k), All, LiveCountDelta)
LiveSize(h, k) == SumOf(SubSeq(h, 1, k), All, LiveSizeDelta)
PrefixMax(F(_, _), h) == CHOOSE m \in {F(h, k) : k \in 0..Len(h)} : \A k \in 0..Len(h) : F(h, k) <= m

TallyExact ==
  \A t \in Threads :
    LET h == hist[t] x == tally[t] IN
    /\ x.alloc = <<CountOf(h, IsAlloc), SumOf(h, IsAlloc, SizeOf)>>
    /\ x.dealloc = <<CountOf(h, LAMBDA o : o.op = "dealloc"), SumOf(h, LAMBDA o : o.op = "dealloc", SizeOf)>>
    /\ x.grow = <<CountOf(h, IsGrow), SumOf(h, IsGrow, DeltaAbs)>>
    /\ x.shrink = <<CountOf(h, IsShrink), SumOf(h, IsShrink, DeltaAbs)>>
    /\ x.cur_count = LiveCount(h, Len(h))
    /\ x.cur_size = LiveSize(h, Len(h))

MaxIsPrefixMax ==
  \A t \in Threads :
    /\ tally[t].max_count = PrefixMax(LiveCount, hist[t])
    /\ tally[t].max_size = PrefixMax(LiveSize, hist[t])

\* max figures never negative and never below the current balance
MaxDominates == \A t \in Threads : tally[t].max_count >= 0 /\ tally[t].max_count >= tally[t].cur_count
                                   /\ tally[t].max_size >= 0 /\ tally[t].max_size >= tally[t].cur_size
=============================================================================
