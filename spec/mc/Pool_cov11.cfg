SPECIFICATION CovSpec
CONSTANTS
  MaxWorkers = 1
  MaxSpurious = 1
  RelOrd = "Release"
  AcqOrd = "Acquire"
  ParkLoop = TRUE
  CloneFirst = TRUE
CONSTANT History <- H_11
INVARIANTS
  OncePerIndex
  ReturnAfterAllCalls
  ReturnHappensAfterCalls
  NoAccessAfterDrop
CHECK_DEADLOCK FALSE
