SPECIFICATION MCSpec
CONSTANTS
  MaxWorkers = 3
  MaxSpurious = 1
  RelOrd = "Release"
  AcqOrd = "Acquire"
  ParkLoop = TRUE
  CloneFirst = TRUE
CONSTANT History <- H_3
INVARIANTS
  TypeOK
  OncePerIndex
  ReturnAfterAllCalls
  ReturnHappensAfterCalls
  NoAccessAfterDrop
  SpawnOnlyMissing
  NoDeadlock
PROPERTY Termination
CHECK_DEADLOCK FALSE
