------------------------------ MODULE MC_Pool ------------------------------
(* Bounded instance of Pool.tla: a fixed history of broadcasts followed by  *)
(* dropping the pool; every interleaving, every subset of panicking calls,  *)
(* spurious wake-ups up to MaxSpurious.                                     *)
EXTENDS Pool

CONSTANTS History,   \* sequence of aux-thread counts, e.g. <<2, 1>>
          RelOrd,    \* ordering of the workers' fetch_sub
          AcqOrd     \* ordering of the caller's load

H_2 == <<2>>
H_11 == <<1, 1>>
H_21 == <<2, 1>>
H_120 == <<1, 2, 0>>
H_1 == <<1>>
H_3 == <<3>>
H_232 == <<2, 3, 2>>

NB == Len(History)

MCNext ==
  \/ (bidx < NB /\ BcastCall(History[bidx + 1]))
  \/ (bidx = NB /\ PoolDrop)
  \/ CallerCoreStep(AcqOrd)
  \/ \E w \in W : WorkerStep(w, RelOrd)

CallerStep ==
  \/ (bidx < NB /\ BcastCall(History[bidx + 1]))
  \/ (bidx = NB /\ PoolDrop)
  \/ CallerCoreStep(AcqOrd)

MCSpec ==
  /\ Init /\ [][MCNext]_vars
  /\ WF_vars(CallerStep)
  /\ \A w \in W : WF_vars(WorkerStep(w, RelOrd))

\* C07: the intended final state is the only state without a successor.
NoDeadlock == (ENABLED MCNext) \/ AllDone

\* C07: every history runs to completion and every worker exits.
Termination == <>AllDone

\* C07: a stale token left by an earlier broadcast is harmless (covered by
\* the safety invariants holding in states where it is set at BcastCall).
StaleTokenSeen == ~(pc[0] = "hnew" /\ token)   \* used as a reachability probe
=============================================================================
