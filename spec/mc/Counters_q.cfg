SPECIFICATION Spec
CONSTANTS
  Kinds <- K2
  Values <- V3
  MaxSamples = 3
  OverrideDropsInput = TRUE
INVARIANTS FiguresBelongToTheirSamples MeanOverRecordedSamples
CHECK_DEADLOCK FALSE
