SPECIFICATION Spec
CONSTANTS
  MaxDepth = 2
  MaxFan = 3
INVARIANTS
  BalancedPrefix
  GlyphsEncodePosition
  ParseBack
  EachNodeOnceInDfsOrder
PROPERTY Termination
CHECK_DEADLOCK FALSE
