------------------------------ MODULE MC_Loop ------------------------------
(***************************************************************************)
(* Bounded exhaustive exploration of the round loop of Loop.tla over every *)
(* clock history drawn from small sets: per-round duration of the slowest  *)
(* thread and time spent outside the timed sections (generation, drops).   *)
(* Checks the properties of C03 / C04 / C19 that speak about whole runs.   *)
(***************************************************************************)
EXTENDS Loop

CONSTANTS Ns,        \* set of sample_count values
          Ss,        \* set of sample_size options (-1 = unset)
          Ts,        \* set of thread counts
          Mins, Maxs,\* sets of time limits in ps (Maxs may contain Huge)
          PerIter,   \* set of per-iteration costs in ps
          Gaps,      \* set of external time per round in ps
          Precisions,
          MaxRounds,
          Tests      \* set of BOOLEAN: test mode

Ss_q == {-1, 0, 1, 2}
Maxs_q == {0, 2000, 7000, Huge}
Ss_t == {-1, 0, 1, 2, 3}
Maxs_t == {0, 1000, 2000, 7000, 20000, Huge}

VARIABLES p, st, now, initStart, phase, rounds, sizes, perIter

vars == <<p, st, now, initStart, phase, rounds, sizes, perIter>>

Params ==
  [test : Tests, n : Ns, sOpt : Ss, T : Ts, min : Mins, max : Maxs,
   skip : BOOLEAN, precision : Precisions, ov : {<<0, 0, 0, 0>>}]

Init ==
  /\ p \in Params
  /\ perIter \in PerIter
  /\ st = InitialState(p)
  /\ now = 1000 /\ initStart = IF p.skip THEN -1 ELSE 1000
  /\ phase = IF EarlyReturn(p) THEN "returned" ELSE "loop"
  /\ rounds = 0 /\ sizes = <<>>

\* One round: all threads start together; the slowest takes size * perIter.
Round(gap) ==
  /\ phase = "loop" /\ Continue(p, st) /\ rounds < MaxRounds
  /\ LET start == now + gap
         dur == st.size * perIter
         s == [t \in 1..p.T |-> start]
         e == [t \in 1..p.T |-> start + dur]
     IN /\ now' = start + dur
        /\ sizes' = Append(sizes, st.size)
        /\ IF p.test
             THEN st' = st /\ phase' = "returned"
             ELSE st' = AfterRound(p, st, s, e, initStart) /\ phase' = "loop"
  /\ rounds' = rounds + 1
  /\ UNCHANGED <<p, initStart, perIter>>

Return ==
  /\ phase = "loop" /\ ~Continue(p, st)
  /\ phase' = "returned"
  /\ UNCHANGED <<p, st, now, initStart, rounds, sizes, perIter>>

Next == (\E g \in Gaps : Round(g)) \/ Return
Spec == Init /\ [][Next]_vars /\ WF_vars(Next)

Returned == phase = "returned"
Unlimited == p.min = 0 /\ IsHuge(p.max)

\* C03: nothing runs for n = 0, s = 0 or max_time = 0.
ZeroMeansNoCall == EarlyReturn(p) => rounds = 0
\* C03: test mode runs exactly one round and stores nothing.
TestOncePerThread == (Returned /\ p.test /\ ~EarlyReturn(p)) => (rounds = 1 /\ st.nsamples = 0)
\* C03: T * ceil(n / T) samples when no time limit interferes (fixed or tuned size).
SamplesExactly ==
  (Returned /\ ~p.test /\ ~EarlyReturn(p) /\ Unlimited) => st.nsamples = p.T * CeilDiv(p.n, p.T)
\* C03: with a fixed size every round uses it and ceil(n / T) rounds run.
CallsExactly ==
  (Returned /\ ~p.test /\ ~EarlyReturn(p) /\ Unlimited /\ p.sOpt > 0)
    => (rounds = CeilDiv(p.n, p.T) /\ \A i \in 1..Len(sizes) : sizes[i] = p.sOpt)
\* C04: max_time has priority: no round starts once elapsed >= max_time;
\* and the run ends as soon as count and min_time are satisfied.
StopsAtFirstBoundary ==
  (phase = "loop" /\ rounds > 0 /\ ~p.test) =>
     (Continue(p, st) <=> (Lt(st.elapsed, p.max) /\ ((st.rem = -1 \/ st.rem > 0) \/ Lt(st.elapsed, p.min))))
\* C04: elapsed time as documented.
ElapsedDefinition ==
  (rounds > 0 /\ ~p.test) =>
     IF p.skip THEN st.elapsed >= 1000 * rounds ELSE st.elapsed = now - 1000
\* C19: sizes double from one while tuning; all recorded samples use the final size.
SizesArePowersOfTwo ==
  p.sOpt = -1 /\ ~p.test => \A i \in 1..Len(sizes) : sizes[i] = 2 ^ (IF i <= Len(sizes) THEN
        (CHOOSE e \in 0..30 : 2 ^ e = sizes[i]) ELSE 0) /\ (i > 1 => sizes[i] \in {sizes[i - 1], 2 * sizes[i - 1]})
\* C19: a size is kept exactly when the previous round passed the threshold.
ThresholdRule ==
  (p.sOpt = -1 /\ ~p.test) => \A i \in 2..Len(sizes) :
      (sizes[i] = sizes[i - 1]) <=> (\E j \in 1..(i - 1) : (sizes[j] * perIter) \div p.precision > 100)
\* C19: after a tuning round only that round's samples are stored.
EarlierSamplesDiscarded == st.mode = "tune" => st.nsamples \in {0, p.T}
\* C19: the budget covers tuning: no round starts after max_time even while tuning.
BudgetCoversTuning == (phase = "loop" /\ Geq(st.elapsed, p.max)) => ~Continue(p, st)
\* progress bound: the exploration is not cut by MaxRounds (anti-vacuity)
NotCut == ~(phase = "loop" /\ Continue(p, st) /\ rounds >= MaxRounds)
Termination == <>Returned
=============================================================================
