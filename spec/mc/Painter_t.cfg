SPECIFICATION Spec
CONSTANTS
  MaxDepth = 4
  MaxFan = 2
INVARIANTS
  BalancedPrefix
  GlyphsEncodePosition
  ParseBack
  EachNodeOnceInDfsOrder
PROPERTY Termination
CHECK_DEADLOCK FALSE
