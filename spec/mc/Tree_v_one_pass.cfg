SPECIFICATION Spec
CONSTANTS
  Plain <- PlainQ
  Generic <- GenericQ
  Modules <- ModulesQ
  Filters <- FiltersQ
  Mode = "one_pass"
INVARIANTS ResultIsDeclarative GroupsReachTheirBenchmarks
CHECK_DEADLOCK FALSE
