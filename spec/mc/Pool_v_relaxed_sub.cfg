SPECIFICATION MCSpec
CONSTANTS
  MaxWorkers = 2
  MaxSpurious = 0
  RelOrd = "Relaxed"
  AcqOrd = "Acquire"
  ParkLoop = TRUE
  CloneFirst = TRUE
CONSTANT History <- H_2
INVARIANTS
  TypeOK
  OncePerIndex
  ReturnAfterAllCalls
  ReturnHappensAfterCalls
  NoAccessAfterDrop
  SpawnOnlyMissing
  NoDeadlock

CHECK_DEADLOCK FALSE
