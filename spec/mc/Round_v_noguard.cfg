SPECIFICATION MCSpec
CONSTANTS
  MaxNT = 2
  NTc = 2
  Sc = 1
  HasInputsC = TRUE
  AllowPanic = TRUE
  Guard = FALSE
  Rounds = 1
INVARIANTS
  TypeOK
  NoStartBeforeAllGeneratedAndCleared
  NoDropBeforeAllEnded
  OnlyCallsInTimedSection
  NoDeadlock
CHECK_DEADLOCK FALSE
