SPECIFICATION CovSpec
CONSTANTS
  MaxWorkers = 2
  MaxSpurious = 0
  RelOrd = "Release"
  AcqOrd = "Acquire"
  ParkLoop = TRUE
  CloneFirst = TRUE
CONSTANT History <- H_21
INVARIANTS
  OncePerIndex
  ReturnAfterAllCalls
  ReturnHappensAfterCalls
  NoAccessAfterDrop
CHECK_DEADLOCK FALSE
