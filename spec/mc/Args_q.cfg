SPECIFICATION Spec
CONSTANTS
  N = 3
  G = 2
  Lookup = "identity"
  FnHome = "runner"
  Label <- LabelDup
INVARIANTS
  RowMeasuresItsArgument
  RowRunsItsInstance
  EvaluatedOnce
  EachRowOnce
PROPERTY Termination
CHECK_DEADLOCK FALSE
