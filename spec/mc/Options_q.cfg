SPECIFICATION Spec
INVARIANTS
  NearestRule
  RunnerFirst
  BenchmarkNext
  InnermostGroupNext
  UnsetEverywhereStaysUnset
  Independence
  WalkOrderAgrees
  OverwriteUnit
  OverwriteAssociative
  WellFormed
CHECK_DEADLOCK FALSE
