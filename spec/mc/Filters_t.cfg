SPECIFICATION Spec
CONSTANTS
  StrLen = 3
  MaxCalls = 4
INVARIANTS
  LiteralIsSubstring
  BolIsPrefix
  EolIsSuffix
  BothIsEquality
  StarBetween
  AnyBetween
  AnchoredStar
  Trivial
  AlternationIsDisjunction
  ConcatOfLiterals
  NoAlternativeMatchesNothing
  ImplementationShapeAgrees
  SplitVectorInvariant
  EmptySetSelectsAll
  SkipWins
  SkipOnlyRemoves
  OrderIrrelevant
CHECK_DEADLOCK FALSE
