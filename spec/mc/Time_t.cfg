SPECIFICATION Spec
CONSTANTS
  MaxIter = 60000
CONSTANT Grid <- Grid_t
CONSTANT Freqs <- Freqs_t
CONSTANT Shifts <- Shifts_q
CONSTANT Nanos <- Nanos_q
CONSTANT Clocks <- Clocks_t
INVARIANTS
  ZeroWhenBackwards
  DivisionLaw
  NoOverflow
  MonotoneInB
  Additive
  TranslationInvariant
  DurationExact
  LoopBounded
  ReportsTheStep
  PlainClockSamples
  Finishes
CHECK_DEADLOCK FALSE
