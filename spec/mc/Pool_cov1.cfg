SPECIFICATION CovSpec
CONSTANTS
  MaxWorkers = 1
  MaxSpurious = 1
  RelOrd = "Release"
  AcqOrd = "Acquire"
  ParkLoop = TRUE
  CloneFirst = TRUE
CONSTANT History <- H_1
INVARIANTS
  OncePerIndex
  ReturnAfterAllCalls
  ReturnHappensAfterCalls
  NoAccessAfterDrop
CHECK_DEADLOCK FALSE
