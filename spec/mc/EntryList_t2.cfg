SPECIFICATION Spec
CONSTANTS
  ThreadIds <- T3
  Readers <- R2
  Plans <- PlansT2
  MaxSpurious = 1
INVARIANTS TypeOK ListIsHistory NoDuplicates EveryEntryExactlyOnce PerThreadLifo ReaderSeesSnapshot
PROPERTIES PublishedLinksFrozen
CHECK_DEADLOCK FALSE
