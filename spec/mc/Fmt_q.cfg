SPECIFICATION Spec
CONSTANTS
  Dense = 12000
CONSTANT Bounds <- Bounds_q
CONSTANT RatNums <- RatNums_q
CONSTANT RatDens <- RatDens_q
INVARIANTS
  Shape
  NoExponentNoPadding
  CanonicalNumber
  DigitBudget
  TruthfulTruncation
  WithinLastPrintedPlace
  RightUnit
  Idempotent
  RatTheorems
  AcceptanceIsTight
  RejectsMalformed
CHECK_DEADLOCK FALSE
