------------------------------ MODULE MC_Stats ------------------------------
(* Theorems of Stats.tla over all small sample sequences.                   *)
EXTENDS Stats

CONSTANTS MaxLen, MaxDur, Sizes

VARIABLE d, size
vars == <<d, size>>

Seqs == UNION {[1..n -> 0..MaxDur] : n \in 0..MaxLen}
Init == d \in Seqs /\ size \in Sizes
Next == UNCHANGED vars
Spec == Init /\ [][Next]_vars

\* hence fastest <= median <= slowest and fastest <= mean <= slowest
Ordered ==
  /\ Fastest(d, size) <= Median(d, size) /\ Median(d, size) <= Slowest(d, size)
  /\ Fastest(d, size) <= Mean(d, size) /\ Mean(d, size) <= Slowest(d, size)
\* zero samples: every figure is zero, nothing is undefined
EmptyIsZero == N(d) = 0 => Fastest(d, size) = 0 /\ Slowest(d, size) = 0 /\ Median(d, size) = 0 /\ Mean(d, size) = 0
\* order statistics are values of the sequence; rank sets are never empty
RanksInhabited == N(d) > 0 => \A k \in 1..N(d) : AtRank(d, k) # {} /\ Kth(d, k) \in Range(d)
\* ranks are monotone
RanksMonotone == \A k \in 1..(N(d) - 1) : Kth(d, k) <= Kth(d, k + 1)
\* a consistent choice of supplying samples always exists
ChoiceExists == N(d) > 0 => Choices(d) # {}
\* the middle ranks split the sequence evenly
MiddleIsMiddle == N(d) > 0 => Lo(d) - 1 = N(d) - Hi(d)
=============================================================================
