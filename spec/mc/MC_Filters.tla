----------------------------- MODULE MC_Filters -----------------------------
(***************************************************************************)
(* Sanity of Filters.tla decided exhaustively by TLC over the alphabet     *)
(* {a, b, :}:                                                              *)
(*  - the AST matcher agrees with independent declarative readings         *)
(*    (literal = substring, ^lit = prefix, lit$ = suffix, ^lit$ = equality,*)
(*    x.*y, x.y, empty pattern, alternation = disjunction, concatenation   *)
(*    of literals = literal of the concatenation);                         *)
(*  - filter-set algebra: skip filters only remove, a matching skip filter *)
(*    always wins, the order of the filters is irrelevant;                 *)
(*  - the implementation-shaped algorithm of config::filter (split vector, *)
(*    position of the first matching filter) computes the declarative      *)
(*    IsMatch for every sequence of include / exclude calls.               *)
(***************************************************************************)
EXTENDS Filters, TLC

CONSTANTS StrLen,     \* subject strings of length <= StrLen
          MaxCalls    \* filter sets built by <= MaxCalls calls

Alphabet == {97, 98, 58}
Strs(n) == UNION {[1..k -> Alphabet] : k \in 0..n}
Lits == {<<97>>, <<98>>, <<97, 98>>, <<58, 58>>, <<97, 58>>}

VARIABLES stage, s, x, y, calls
vars == <<stage, s, x, y, calls>>

\* the filters the call sequences draw from
A == <<97>>
B == <<98>>
Pool == <<
  [kind |-> "exact", text_cp |-> A],
  [kind |-> "exact", text_cp |-> <<97, 58, 58, 98>>],
  [kind |-> "regex", text_cp |-> A, ast |-> Ast(<< <<Lit(A)>> >>)],
  [kind |-> "regex", text_cp |-> <<94, 97>>, ast |-> Ast(<< <<BolItem, Lit(A)>> >>)],
  [kind |-> "regex", text_cp |-> <<98, 36>>, ast |-> Ast(<< <<Lit(B), EolItem>> >>)],
  [kind |-> "regex", text_cp |-> <<97, 46, 42, 98>>, ast |-> Ast(<< <<Lit(A), StarItem, Lit(B)>> >>)],
  [kind |-> "regex", text_cp |-> <<58, 58, 124, 98, 98>>, ast |-> Ast(<< <<Lit(<<58, 58>>)>>, <<Lit(<<98, 98>>)>> >>)] >>
Call(i, inc) == [inclusive |-> inc, kind |-> Pool[i].kind, text_cp |-> Pool[i].text_cp,
                 ast |-> IF Pool[i].kind = "regex" THEN Pool[i].ast ELSE Ast(<<>>)]
Calls == {Call(i, inc) : i \in 1..Len(Pool), inc \in BOOLEAN}

Init == stage = 0 /\ s = <<>> /\ x = <<>> /\ y = <<>> /\ calls = <<>>

Next ==
  \/ stage = 0 /\ s' \in Strs(StrLen) /\ stage' = 1 /\ UNCHANGED <<x, y, calls>>
  \/ stage = 1 /\ x' \in Lits /\ y' \in Lits /\ stage' = 2 /\ UNCHANGED <<s, calls>>
  \/ /\ stage = 1 /\ stage' = 3 /\ UNCHANGED <<s, x, y>>
     /\ \E n \in 0..MaxCalls : calls' \in [1..n -> Calls]

Spec == Init /\ [][Next]_vars

M(items) == Matches(Ast(<<items>>), s)

\* ---------------------------------------------------------------- matcher
AtPatterns == stage = 2
LiteralIsSubstring == AtPatterns => (M(<<Lit(x)>>) <=> IsSubstring(x, s))
BolIsPrefix == AtPatterns => (M(<<BolItem, Lit(x)>>) <=> IsPrefix(x, s))
EolIsSuffix == AtPatterns => (M(<<Lit(x), EolItem>>) <=> IsSuffix(x, s))
BothIsEquality == AtPatterns => (M(<<BolItem, Lit(x), EolItem>>) <=> s = x)
StarBetween ==
  AtPatterns => (M(<<Lit(x), StarItem, Lit(y)>>) <=>
     \E i \in 0..Len(s), j \in 0..Len(s) :
       /\ i + Len(x) <= j /\ j + Len(y) <= Len(s)
       /\ SubSeq(s, i + 1, i + Len(x)) = x /\ SubSeq(s, j + 1, j + Len(y)) = y)
AnyBetween ==
  AtPatterns => (M(<<Lit(x), AnyItem, Lit(y)>>) <=>
     \E c \in Alphabet : IsSubstring(x \o <<c>> \o y, s))
AnchoredStar ==
  AtPatterns => (M(<<BolItem, Lit(x), StarItem, Lit(y), EolItem>>) <=>
     (IsPrefix(x, s) /\ IsSuffix(y, s) /\ Len(x) + Len(y) <= Len(s)))
Trivial ==
  AtPatterns => /\ M(<<>>) /\ M(<<StarItem>>) /\ M(<<BolItem>>) /\ M(<<EolItem>>)
                /\ (M(<<BolItem, EolItem>>) <=> s = <<>>)
                /\ (M(<<AnyItem>>) <=> s # <<>>)
                /\ (M(<<BolItem, AnyItem, EolItem>>) <=> Len(s) = 1)
                /\ ~M(<<Lit(x), BolItem, Lit(y)>>)
AlternationIsDisjunction ==
  AtPatterns => (Matches(Ast(<< <<Lit(x)>>, <<BolItem, Lit(y)>> >>), s) <=> (M(<<Lit(x)>>) \/ M(<<BolItem, Lit(y)>>)))
ConcatOfLiterals == AtPatterns => (M(<<Lit(x), Lit(y)>>) <=> M(<<Lit(x \o y)>>))
NoAlternativeMatchesNothing == AtPatterns => ~Matches(Ast(<<>>), s)

\* ------------------------------------------------------------- filter sets
AtSets == stage = 3

\* SplitVec::insert: skip filters before the split, positive ones after it;
\* inserting before the split moves the element at the split to the end.
RECURSIVE Build(_, _)
Build(cs, n) == \* state of the split vector after the first n calls
  IF n = 0 THEN [items |-> <<>>, split |-> 0]
  ELSE LET v == Build(cs, n - 1)
           c == cs[n]
       IN IF c.inclusive THEN [items |-> Append(v.items, c), split |-> v.split]
          ELSE IF v.split = Len(v.items)
                 THEN [items |-> Append(v.items, c), split |-> v.split + 1]
                 ELSE [items |-> [i \in 1..(Len(v.items) + 1) |->
                                    IF i = v.split + 1 THEN c
                                    ELSE IF i = Len(v.items) + 1 THEN v.items[v.split + 1]
                                    ELSE v.items[i]],
                       split |-> v.split + 1]

ImplIsMatch(cs, str) ==
  LET v == Build(cs, Len(cs))
      hits == {i \in 1..Len(v.items) : FilterMatches(v.items[i], str)}
  IN IF hits # {}
       THEN (CHOOSE i \in hits : \A j \in hits : i <= j) > v.split    \* 1-based: index >= split
       ELSE Len(v.items) = v.split

ImplementationShapeAgrees == AtSets => (ImplIsMatch(calls, s) <=> IsMatch(calls, s))
SplitVectorInvariant ==
  AtSets => LET v == Build(calls, Len(calls)) IN
            /\ Len(v.items) = Len(calls)
            /\ \A i \in 1..Len(v.items) : v.items[i].inclusive <=> i > v.split
EmptySetSelectsAll == (AtSets /\ calls = <<>>) => IsMatch(calls, s)
SkipWins ==
  AtSets => ((\E i \in 1..Len(calls) : ~calls[i].inclusive /\ FilterMatches(calls[i], s)) => ~IsMatch(calls, s))
SkipOnlyRemoves ==
  AtSets => \A c \in Calls : (~c.inclusive /\ IsMatch(Append(calls, c), s)) => IsMatch(calls, s)
\* expected to FAIL (Filters_v_positive_wins): "a matching positive filter
\* selects whatever the skip filters say" is a different rule
PositiveWins ==
  AtSets => ((\E i \in 1..Len(calls) : calls[i].inclusive /\ FilterMatches(calls[i], s)) => IsMatch(calls, s))
OrderIrrelevant ==
  (AtSets /\ Len(calls) >= 2) =>
     (IsMatch(calls, s) <=> IsMatch([i \in 1..Len(calls) |-> calls[Len(calls) + 1 - i]], s))
=============================================================================
