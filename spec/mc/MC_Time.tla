------------------------------ MODULE MC_Time ------------------------------
(***************************************************************************)
(* C11, checked on the specification itself.                               *)
(*                                                                         *)
(* 1. The algebraic laws of the statement, for every (a, b, f) of a        *)
(*    boundary grid of 64-bit counter values and frequencies:              *)
(*      zero when b < a; the defining division law (so BigNat division is  *)
(*      cross-checked by multiplication on wide operands); no overflow of  *)
(*      128 bits; monotone in b; additive up to one picosecond per term;   *)
(*      independent of the absolute counter value.                         *)
(*    Duration conversion: exactly nanoseconds * 1000, fits 128 bits.      *)
(* 2. The precision loop of Time.tla run as a state machine against clock  *)
(*    scripts that advance in uniform steps (plain: every read costs one   *)
(*    step; quantised: the counter shows multiples of a quantum and reads  *)
(*    cost less than it): the loop terminates and reports the step.        *)
(*                                                                         *)
(* The state graph is a tree root -> frequency f -> point (a, b, f) so that *)
(* the workers share the evaluation; clock scripts hang off the root.      *)
(***************************************************************************)
EXTENDS Time, TLC

CONSTANTS Grid,      \* sequence of counter values (BigNat)
          Freqs,     \* sequence of frequencies (BigNat)
          Shifts,    \* sequence of translations (BigNat)
          Nanos,     \* set of sub-second nanosecond values (native)
          Clocks,    \* set of clock scripts
          MaxIter    \* bound on loop iterations per script

P32 == Pow2(32)
P63 == Pow2(63)
N(x) == FromInt(x)

Grid_q == << Zero, One, N(2), N(3), N(1000), Sub(P32, One), P32, Add(P32, One),
             Sub(P63, One), P63, Add(P63, One), Sub(U64Max, One), U64Max >>
Grid_t == Grid_q \o << N(7), N(9999), N(10000), Pow10(9), Pow10(12), Sub(Pow10(19), One),
                       Pow10(19), Mul(P32, N(3)), Sub(P63, P32) >>
Freqs_q == << One, N(3), Pow10(9), MulSmall(Pow10(8), 25), Pow10(10), U64Max >>
Freqs_t == Freqs_q \o << N(2), N(7), N(1000), Pow10(12), Add(Pow10(12), One),
                         P32, P63, MulSmall(Pow10(6), 19200), Sub(Pow10(9), One) >>
Shifts_q == << One, N(999), P32, P63, Sub(P63, One) >>
Nanos_q == {0, 1, 999, 1000, 999999999}

Plain(r, fi) == [q |-> 0, r |-> r, fi |-> fi, start |-> 1000]
Quant(q, r, s, fi) == [q |-> q, r |-> r, fi |-> fi, start |-> s]
StepOf(c) == IF c.q = 0 THEN c.r ELSE c.q

\* A quantised script shows the loop a tick only if some start/end pair
\* straddles a multiple of the quantum.
Straddles(c, t) == (t + c.r) \div c.q > t \div c.q
Observable(c) == c.q = 0 \/ \E k \in 0..c.q : Straddles(c, c.start + 2 * c.r * k)

AllClocks(plainSteps, quants, fis) ==
  {Plain(r, fi) : r \in plainSteps, fi \in fis}
  \cup {Quant(x[1], x[2], s, fi) : x \in quants, s \in {0, 1, 5}, fi \in fis}

Usable(cs) ==
  {c \in cs : Observable(c) /\ PrecisionOfUniformClock(N(StepOf(c)), Freqs[c.fi]) # Zero}

Quants_q == {<<3, 1>>, <<3, 2>>, <<7, 7>>, <<10, 3>>, <<10, 7>>, <<10, 10>>, <<1000, 999>>}
Quants_t == Quants_q \cup {<<2, 1>>, <<5, 1>>, <<9, 2>>, <<64, 5>>, <<100, 9>>, <<1000, 7>>,
                           <<1024, 1023>>, <<33, 1>>}
Clocks_q == Usable(AllClocks({1, 2, 3, 10, 999, 1000, 65536, 1000000}, Quants_q, 1..5))
Clocks_t == Usable(AllClocks(1..40 \cup {99, 100, 101, 999, 1000, 1001, 4096, 65535, 65536,
                                          1000000, 5000000}, Quants_t, 1..5))

VARIABLES k,    \* "root" | "freq" | "pt" | "clk"
          pt,   \* <<index of a, index of b, index of f>>
          tab,  \* at "freq" / "pt": Elapsed over Grid x Grid for the frequency
          ck    \* clock script, its current time and the loop state

vars == <<k, pt, tab, ck>>

NoClock == [c |-> Plain(1, 1), now |-> 0, ps |-> PrecInit]
NG == Len(Grid)

Init == k = "root" /\ pt = <<0, 0, 0>> /\ tab = <<>> /\ ck = NoClock

\* The table is computed once per frequency (TLCEval forces it) and handed
\* down to the points, so that laws relating several values look them up.
ToFreq ==
  /\ k = "root"
  /\ \E fi \in 1..Len(Freqs) :
       /\ pt' = <<0, 0, fi>>
       /\ tab' = TLCEval([ia \in 1..NG, ib \in 1..NG |->
                            Elapsed(Grid[ia], Grid[ib], Freqs[fi])])
  /\ k' = "freq" /\ UNCHANGED ck

ToPoint ==
  /\ k = "freq"
  /\ \E ia \in 1..NG, ib \in 1..NG : pt' = <<ia, ib, pt[3]>>
  /\ k' = "pt" /\ UNCHANGED <<tab, ck>>

ToClock ==
  /\ k = "root"
  /\ \E c \in Clocks : ck' = [c |-> c, now |-> c.start, ps |-> PrecInit]
  /\ k' = "clk" /\ UNCHANGED <<pt, tab>>

Shown(c, t) == IF c.q = 0 THEN t ELSE (t \div c.q) * c.q

\* One iteration of the measuring loop: two reads in immediate succession.
ClockIter ==
  /\ k = "clk" /\ ~ck.ps.done
  /\ LET c == ck.c
         s == Shown(c, ck.now)
         e == Shown(c, ck.now + c.r)
     IN ck' = [ck EXCEPT !.now = @ + 2 * c.r,
                         !.ps = PrecStep(@, Elapsed(N(s), N(e), Freqs[c.fi]))]
  /\ UNCHANGED <<k, pt, tab>>

Next == ToFreq \/ ToPoint \/ ToClock \/ ClockIter
Spec == Init /\ [][Next]_vars

(* ------------------------------ the laws ------------------------------- *)
\* The optimised shift by 10^12 agrees with general multiplication.
ASSUME \A i \in 1..NG : MulPow10(Grid[i], 12) = Mul(Grid[i], PicosPerSec)
\* Division law for arbitrary grid operands: a = q * b + r with r < b.
ASSUME \A i \in 1..NG, j \in 1..NG :
         Grid[j] # Zero =>
           LET qr == DivMod(Grid[i], Grid[j])
           IN Add(Mul(qr[1], Grid[j]), qr[2]) = Grid[i] /\ Lt(qr[2], Grid[j])
                /\ IsBigNat(qr[1]) /\ IsBigNat(qr[2])

AtPoint == k = "pt"
A == Grid[pt[1]]
Bv == Grid[pt[2]]
F == Freqs[pt[3]]
E == tab[pt[1], pt[2]]

ZeroWhenBackwards == AtPoint /\ Lt(Bv, A) => E = Zero

DivisionLaw ==
  AtPoint /\ Le(A, Bv) =>
    LET x == Mul(Sub(Bv, A), PicosPerSec)
    IN Le(Mul(E, F), x) /\ Lt(x, Mul(Add(E, One), F))

NoOverflow == AtPoint => IsBigNat(E) /\ Le(E, U128Max)

MonotoneInB ==
  AtPoint => \A ic \in 1..NG :
    Le(Bv, Grid[ic]) => Le(E, tab[pt[1], ic])

\* a <= b <= c: the two parts add up to the whole, short of at most 1 ps.
Additive ==
  AtPoint /\ Le(A, Bv) => \A ic \in 1..NG :
    Le(Bv, Grid[ic]) =>
      LET parts == Add(E, tab[pt[2], ic])
          whole == tab[pt[1], ic]
      IN Le(parts, whole) /\ Le(whole, Add(parts, One))

TranslationInvariant ==
  AtPoint /\ Le(A, Bv) => \A it \in 1..Len(Shifts) :
    LET t == Shifts[it] IN
    Le(Add(Bv, t), U64Max) => Elapsed(Add(A, t), Add(Bv, t), F) = E

\* Duration: seconds from the grid, sub-second part from Nanos.
DurationExact ==
  AtPoint /\ pt[2] = 1 => \A n \in Nanos :
    LET d == FromDuration(A, n)
        nanos == Add(Mul(A, Pow10(9)), N(n))
    IN /\ d = Mul(nanos, N(1000))
       /\ DivMod(d, N(1000)) = <<nanos, Zero>>
       /\ Le(d, U128Max)

(* --------------------------- the precision loop ------------------------ *)
LoopBounded == k = "clk" => ck.ps.iter <= MaxIter

ReportsTheStep ==
  k = "clk" /\ ck.ps.done =>
    ck.ps.result = PrecisionOfUniformClock(N(StepOf(ck.c)), Freqs[ck.c.fi])

\* A plain uniform clock needs exactly 101 samples.
PlainClockSamples ==
  k = "clk" /\ ck.ps.done /\ ck.c.q = 0 => ck.ps.iter = 101

Finishes == k = "clk" => (ck.ps.done \/ ENABLED ClockIter)
=============================================================================
