SPECIFICATION SpecBlind
CONSTANTS
  ThreadIds <- T3
  Readers <- R1
  Plans <- PlansV
  MaxSpurious = 0
INVARIANTS ListIsHistory
CHECK_DEADLOCK FALSE
