SPECIFICATION Spec
CONSTANTS
  Plain <- PlainQ
  Generic <- GenericQ
  Modules <- ModulesQ
  Filters <- FiltersQ
  Mode = "skip_generic_groups"
INVARIANTS ResultIsDeclarative GroupsReachTheirBenchmarks
CHECK_DEADLOCK FALSE
