SPECIFICATION Spec
CONSTANTS
  SizeSet = {0, 1, 3}
  MaxOps = 4
  Threads = {1}
INVARIANTS
  TallyExact
  MaxIsPrefixMax
  MaxDominates
CHECK_DEADLOCK FALSE
