------------------------------ MODULE MC_Tree ------------------------------
EXTENDS Tree
\* crate c: plain benchmark c::b; module c::m declared as bench_group "M" holding ONLY the
\* generic function g (display "G", instances i1, i2); module c::n (no group entry) with a
\* plain benchmark and a generic function h under its own name
PlainQ == {<<"c", "b">>, <<"c", "n", "p">>}
GenericQ == {[path |-> <<"c", "m", "g">>, display |-> "G", insts |-> {"i1", "i2"}],
             [path |-> <<"c", "n", "h">>, display |-> "h", insts |-> {"i1"}]}
ModulesQ == {[path |-> <<"c", "m">>, display |-> "M"], [path |-> <<"c", "x">>, display |-> "X"]}
FiltersQ == {"all", "has_M", "has_m", "skip_G", "has_g"}
=============================================================================
