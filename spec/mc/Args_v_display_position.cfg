SPECIFICATION Spec
CONSTANTS
  N = 3
  G = 1
  Lookup = "position_if_unfiltered"
  FnHome = "runner"
  Label <- LabelDistinct
INVARIANTS
  RowMeasuresItsArgument
  RowRunsItsInstance
  EvaluatedOnce
  EachRowOnce
PROPERTY Termination
CHECK_DEADLOCK FALSE
