------------------------------ MODULE MC_Names ------------------------------
(***************************************************************************)
(* Sanity of the specification operators of Names.tla themselves, decided  *)
(* exhaustively by TLC on bounded domains over the alphabet                *)
(*   { a, b, 0, 1, 9, -, ., _ }.                                           *)
(* The state graph is a three-level tree (choose a, then b, then c), so    *)
(* every pair (stage 2) and every triple (stage 3) is one state and the    *)
(* invariants are evaluated by all workers in parallel.                    *)
(*   pairs   : reflexivity, antisymmetry, agreement of the operational     *)
(*             comparators with declarative definitions that use the       *)
(*             numeric VALUE of digit runs / of numeric names;             *)
(*   triples : transitivity of NaturalCmp and of ArgNameCmp under each     *)
(*             attribute and direction.                                    *)
(* The documented argument order is NOT transitive on triples that mix     *)
(* exactly two numeric names with one non-numeric name (TransAll is        *)
(* expected to fail: configuration Names_v_mixed); it is on all others.    *)
(***************************************************************************)
EXTENDS Names, TLC

CONSTANTS PairLen,    \* pairs over strings of length <= PairLen
          TripleLen   \* triples over strings of length <= TripleLen

Alphabet == {97, 98, 48, 49, 57, 45, 46, 95}
Strs(n) == UNION {[1..k -> Alphabet] : k \in 0..n}

VARIABLES stage, a, b, c
vars == <<stage, a, b, c>>

Init == stage = 0 /\ a = <<>> /\ b = <<>> /\ c = <<>>

Next ==
  \/ stage = 0 /\ a' \in Strs(PairLen) /\ stage' = 1 /\ UNCHANGED <<b, c>>
  \/ stage = 1 /\ b' \in Strs(PairLen) /\ stage' = 2 /\ UNCHANGED <<a, c>>
  \/ /\ stage = 2 /\ Len(a) <= TripleLen /\ Len(b) <= TripleLen
     /\ c' \in Strs(TripleLen) /\ stage' = 3 /\ UNCHANGED <<a, b>>

Spec == Init /\ [][Next]_vars

Pair == stage = 2
Triple == stage = 3

\* ------------------------------------------- declarative counterparts

\* s < t lexicographically, without recursion.
DeclLexLess(s, t) ==
  \E k \in 1..(Len(t)) :
    /\ \A i \in 1..(k - 1) : i <= Len(s) /\ s[i] = t[i]
    /\ (k = Len(s) + 1 \/ (k <= Len(s) /\ s[k] < t[k]))
DeclLex(s, t) == IF s = t THEN 0 ELSE IF DeclLexLess(s, t) THEN -1 ELSE 1

\* Token boundaries: <<i, j>> is a token of s iff s[i..j] is a maximal run.
DeclTokenSpans(s) ==
  {<<i, j>> \in (1..Len(s)) \X (1..Len(s)) :
     /\ i <= j
     /\ \A k \in i..j : IsDigit(s[k]) = IsDigit(s[i])
     /\ (i = 1 \/ IsDigit(s[i - 1]) # IsDigit(s[i]))
     /\ (j = Len(s) \/ IsDigit(s[j + 1]) # IsDigit(s[i]))}

\* Numeric value of a digit run as a TLA+ integer (runs are short here).
RunVal(d) == DigitsVal(d)

\* The k-th token of s by start position.
DeclToken(s, k) ==
  CHOOSE sp \in DeclTokenSpans(s) : Cardinality({q \in DeclTokenSpans(s) : q[1] < sp[1]}) = k - 1
DeclNTok(s) == Cardinality(DeclTokenSpans(s))
DeclTokText(s, k) == LET sp == DeclToken(s, k) IN SubSeq(s, sp[1], sp[2])
DeclTokIsInt(s, k) == IsDigit(s[DeclToken(s, k)[1]])

\* Comparison of the k-th tokens by VALUE.
DeclTokCmp(s, t, k) ==
  IF DeclTokIsInt(s, k) /\ DeclTokIsInt(t, k)
    THEN Sgn(RunVal(DeclTokText(s, k)) - RunVal(DeclTokText(t, k)))
    ELSE DeclLex(DeclTokText(s, k), DeclTokText(t, k))

\* s before t: at the first token position where they differ in value (or
\* where s ends), s is smaller.
DeclNatLess(s, t) ==
  \E k \in 1..DeclNTok(t) :
    /\ \A i \in 1..(k - 1) : i <= DeclNTok(s) /\ DeclTokCmp(s, t, i) = 0
    /\ (k = DeclNTok(s) + 1 \/ (k <= DeclNTok(s) /\ DeclTokCmp(s, t, k) < 0))
DeclNaturalCmp(s, t) ==
  IF DeclNatLess(s, t) THEN -1 ELSE IF DeclNatLess(t, s) THEN 1 ELSE 0

\* Canonical text: every digit run replaced by its value without leading
\* zeros.  Natural ties are exactly equal canonical texts.
RECURSIVE CanonFrom(_, _)
CanonFrom(toks, i) ==
  IF i > Len(toks) THEN <<>>
  ELSE (IF toks[i].int
          THEN (IF StripZeros(toks[i].text) = <<>> THEN <<48>> ELSE StripZeros(toks[i].text))
          ELSE toks[i].text) \o CanonFrom(toks, i + 1)
Canon(s) == CanonFrom(Tokens(s), 1)

\* Declarative numeric reading for the plain forms of this alphabet:
\* [-] digits [. digits] with at least one digit; value = N / 10^f.
DeclIsPlainNumber(s) ==
  LET body == IF s # <<>> /\ s[1] = 45 THEN Tail(s) ELSE s
  IN /\ \A i \in 1..Len(body) : body[i] \in {48, 49, 57, 46}
     /\ Cardinality({i \in 1..Len(body) : body[i] = 46}) <= 1
     /\ \E i \in 1..Len(body) : body[i] # 46
DeclIsPlainInt(s) ==
  LET body == IF s # <<>> /\ s[1] = 45 THEN Tail(s) ELSE s
  IN body # <<>> /\ \A i \in 1..Len(body) : body[i] \in {48, 49, 57}
DeclScaled(s) == \* <<N, f>> with value = N / 10^f, N signed
  LET neg == s # <<>> /\ s[1] = 45
      body == IF neg THEN Tail(s) ELSE s
      digits == SelectSeq(body, IsDigit)
      dots == {i \in 1..Len(body) : body[i] = 46}
      f == IF dots = {} THEN 0 ELSE Len(body) - (CHOOSE i \in dots : TRUE)
      n == DigitsVal(digits)
  IN <<IF neg THEN 0 - n ELSE n, f>>
DeclValCmp(s, t) ==
  LET x == DeclScaled(s)
      y == DeclScaled(t)
  IN Sgn(x[1] * (10 ^ y[2]) - y[1] * (10 ^ x[2]))

\* ------------------------------------------------------------ pair checks

NatReflexive == Pair => NaturalCmp(a, a) = 0
NatAntisymmetric == Pair => NaturalCmp(a, b) = 0 - NaturalCmp(b, a)
NatAgreesWithValueDefinition == Pair => NaturalCmp(a, b) = DeclNaturalCmp(a, b)
NatTiesAreLeadingZerosOnly == Pair => ((NaturalCmp(a, b) = 0) <=> (Canon(a) = Canon(b)))
NatSetSane ==
  Pair => /\ NaturalCmp(a, b) \in NaturalCmpSet(a, b)
          /\ NaturalCmpSet(b, a) = NegSet(NaturalCmpSet(a, b))
          /\ (a = b => NaturalCmpSet(a, b) = {0})
TokensPartition ==
  Pair => LET t == Tokens(a) IN
          /\ Len(t) = DeclNTok(a)
          /\ \A k \in 1..Len(t) : t[k].text = DeclTokText(a, k) /\ t[k].int = DeclTokIsInt(a, k)
LexAgrees == Pair => Lex(a, b) = DeclLex(a, b)

KindAgrees ==
  Pair => /\ (ArgKind(a) = "int") = DeclIsPlainInt(a)
          /\ (ArgKind(a) \in {"int", "dec"}) = DeclIsPlainNumber(a)
          /\ ArgKind(a) # "unp"
NumericByValue ==
  (Pair /\ DeclIsPlainNumber(a) /\ DeclIsPlainNumber(b)) => NameCmp(a, b) = DeclValCmp(a, b)
NonNumericNatural ==
  (Pair /\ ~(DeclIsPlainNumber(a) /\ DeclIsPlainNumber(b))) => NameCmp(a, b) = NaturalCmp(a, b)

ArgReflexive ==
  Pair => \A attr \in Attrs : ArgNameCmp(attr, a, a, 1, 1) = 0
ArgAntisymmetric ==
  Pair => \A attr \in Attrs :
    /\ ArgNameCmp(attr, a, b, 1, 2) = 0 - ArgNameCmp(attr, b, a, 2, 1)
    /\ ArgNameCmp(attr, a, b, 2, 1) = 0 - ArgNameCmp(attr, b, a, 1, 2)
    /\ ArgNameCmpSet(attr, b, a, 2, 1) = NegSet(ArgNameCmpSet(attr, a, b, 1, 2))
\* distinct positions are never tied; location alone decides under "location"
ArgStrictOnDistinctPositions ==
  Pair => \A attr \in Attrs :
    /\ ArgNameCmp(attr, a, b, 1, 2) # 0 /\ ArgNameCmp(attr, a, b, 2, 1) # 0
    /\ 0 \notin ArgNameCmpSet(attr, a, b, 1, 2)
    /\ ArgNameCmp("location", a, b, 1, 2) = -1 /\ ArgNameCmp("location", a, b, 2, 1) = 1
\* kind never distinguishes arguments: sorting by kind = sorting by name
KindIsNameForArgs ==
  Pair => /\ ArgNameCmp("kind", a, b, 1, 2) = ArgNameCmp("name", a, b, 1, 2)
          /\ ArgNameCmp("kind", a, b, 2, 1) = ArgNameCmp("name", a, b, 2, 1)
\* name ties fall to the declaration position
NameTieFallsToPosition ==
  (Pair /\ NameCmp(a, b) = 0) => ArgNameCmp("name", a, b, 1, 2) = -1 /\ ArgNameCmp("name", a, b, 2, 1) = 1
CanonicalIsPermitted ==
  Pair => \A attr \in Attrs : \A rev \in BOOLEAN :
    ArgNameCmpDir(attr, rev, a, b, 1, 2) \in ArgNameCmpDirSet(attr, rev, a, b, 1, 2)
ReverseIsExactReverse ==
  Pair => \A attr \in Attrs :
    ArgNameCmpDir(attr, TRUE, a, b, 1, 2) = 0 - ArgNameCmpDir(attr, FALSE, a, b, 1, 2)
\* the matrix form used on whole lists is the same comparator
MatrixFormAgrees ==
  Pair => \A attr \in Attrs :
    LET M == ArgMatrix(attr, <<a, b>>) IN
    /\ M[1][2] = ArgNameCmp(attr, a, b, 1, 2) /\ M[2][1] = ArgNameCmp(attr, b, a, 2, 1)
    /\ M[1][1] = 0 /\ M[2][2] = 0
\* On this alphabet every permitted set is a singleton except for the
\* documented open cases.
OpenCasesOnly ==
  (Pair /\ NameCmpSet(a, b) # {NameCmp(a, b)}) =>
     \/ (~(IsNumeric(a) /\ IsNumeric(b)) /\ a # b /\ Canon(a) = Canon(b))       \* P1
     \/ (IsNumeric(a) /\ IsNumeric(b) /\ IsZero(Num(a)) /\ IsZero(Num(b)))      \* P3

\* ---------------------------------------------------------- triple checks

NatTransitive ==
  Triple => ((NaturalCmp(a, b) <= 0 /\ NaturalCmp(b, c) <= 0) => NaturalCmp(a, c) <= 0)

NumCount == Cardinality({i \in 1..3 : IsNumeric(<<a, b, c>>[i])})

\* positions 1, 2, 3 in every arrangement
TransAtAllPositions(attr, rev) ==
  \A p \in {<<1, 2, 3>>, <<1, 3, 2>>, <<2, 1, 3>>, <<2, 3, 1>>, <<3, 1, 2>>, <<3, 2, 1>>} :
    (ArgNameCmpDir(attr, rev, a, b, p[1], p[2]) <= 0 /\ ArgNameCmpDir(attr, rev, b, c, p[2], p[3]) <= 0)
       => ArgNameCmpDir(attr, rev, a, c, p[1], p[3]) <= 0

ArgTransitive ==
  (Triple /\ NumCount # 2) => \A attr \in Attrs : \A rev \in BOOLEAN : TransAtAllPositions(attr, rev)
\* The same theorem without its redundant instances (quick tier): "kind" is
\* "name" for arguments (KindIsNameForArgs), "location" is the position, and
\* the reverse direction of (a, b, c) is the forward direction of (c, b, a),
\* which is another triple of the same domain.
ArgTransitiveCore ==
  (Triple /\ NumCount # 2) => TransAtAllPositions("name", FALSE)
LocationAlwaysTransitive ==
  Triple => \A rev \in BOOLEAN : TransAtAllPositions("location", rev)
\* expected to FAIL (Names_v_mixed): the documented order on mixed lists
TransAll ==
  Triple => \A attr \in Attrs : TransAtAllPositions(attr, FALSE)
=============================================================================
