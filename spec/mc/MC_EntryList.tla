--------------------------- MODULE MC_EntryList ---------------------------
(* Exhaustive instances of EntryList.tla and two expected-to-fail variants *)
(* showing that the retry loop's re-store and the compare-exchange are     *)
(* each necessary for the invariants (so the invariants are not vacuous).  *)
EXTENDS EntryList, TLC

T3 == {10, 11, 12}
R1 == {20}
R2 == {20, 21}
Nodes22 == (10 :> <<2, 3>>) @@ (11 :> <<4, 5>>)
Nodes222 == (10 :> <<2, 3>>) @@ (11 :> <<4, 5>>) @@ (12 :> <<6, 7>>)
Nodes321 == (10 :> <<2, 3, 4>>) @@ (11 :> <<5, 6>>) @@ (12 :> <<7>>)
Nodes111 == (10 :> <<2>>) @@ (11 :> <<3>>) @@ (12 :> <<4>>)
Nodes4 == (10 :> <<2, 3, 4, 5>>)
Nodes31 == (10 :> <<2, 3, 4>>) @@ (11 :> <<5>>)
Nodes0 == (10 :> <<>>) @@ (11 :> <<2>>)
PlansQ == {Nodes22, Nodes111, Nodes4, Nodes31, Nodes0}
PlansT1 == {Nodes222}
PlansT2 == {Nodes321}
PlansV == {Nodes22}

(* Variant: on a failed exchange only the local copy is refreshed, the     *)
(* node's link is not rewritten before retrying.                           *)
CasFailNoRestore(t) ==
    /\ pc[t] = "cas"
    /\ next[Root] # old[t]
    /\ old' = [old EXCEPT ![t] = next[Root]]
    /\ pc' = [pc EXCEPT ![t] = "cas"]
    /\ UNCHANGED <<NodesOf, next, idx, spur, order, rpc, cur, seen, snap>>

NextNoRestore ==
    \/ \E t \in Pushers : Load(t) \/ StoreNext(t) \/ CasOk(t) \/ CasFailNoRestore(t) \/ CasSpurious(t)
    \/ \E r \in Readers : RStep(r)
SpecNoRestore == Init /\ [][NextNoRestore]_vars

(* Variant: plain store instead of compare-exchange.                       *)
BlindPublish(t) ==
    /\ pc[t] = "cas"
    /\ next' = [next EXCEPT ![Root] = Node(t)]
    /\ order' = Append(order, Node(t))
    /\ IF idx[t] < Len(NodesOf[t])
         THEN idx' = [idx EXCEPT ![t] = @ + 1] /\ pc' = [pc EXCEPT ![t] = "load"]
         ELSE idx' = idx /\ pc' = [pc EXCEPT ![t] = "done"]
    /\ UNCHANGED <<NodesOf, old, spur, rpc, cur, seen, snap>>

NextBlind ==
    \/ \E t \in Pushers : Load(t) \/ StoreNext(t) \/ BlindPublish(t)
    \/ \E r \in Readers : RStep(r)
SpecBlind == Init /\ [][NextBlind]_vars
=============================================================================
