SPECIFICATION Spec
CONSTANTS
  Ns = {0, 1, 2, 3, 5}
  Ts = {1, 2, 3}
  Mins = {0, 1000, 3000, 9000}
  PerIter = {30, 400, 3000}
  Gaps = {0, 500}
  Precisions = {1, 5}
  MaxRounds = 330
  Tests = {TRUE, FALSE}
CONSTANT Ss <- Ss_t
CONSTANT Maxs <- Maxs_t
INVARIANTS
  ZeroMeansNoCall
  TestOncePerThread
  SamplesExactly
  CallsExactly
  StopsAtFirstBoundary
  ElapsedDefinition
  SizesArePowersOfTwo
  ThresholdRule
  EarlierSamplesDiscarded
  BudgetCoversTuning
  NotCut
PROPERTY Termination
CHECK_DEADLOCK FALSE
