SPECIFICATION Spec
CONSTANTS
  Mode = "labels_of_the_tree"
  NameLens = {1, 5}
  ThreadLens = {3, 4}
  ValLens = {2, 9}
  ColW = 8
  MaxRows = 4
  MaxDepth = 3
INVARIANTS
  NameColumnAligned
  SeparatorsAligned
PROPERTIES
  SpanIsFinal
  ColumnsOnlyGrow
  Termination
CHECK_DEADLOCK FALSE
