SPECIFICATION Spec
CONSTANTS
  N = 3
  G = 2
  Lookup = "identity"
  FnHome = "cell"
  Label <- LabelDistinct
INVARIANTS
  RowMeasuresItsArgument
  RowRunsItsInstance
  EvaluatedOnce
  EachRowOnce
PROPERTY Termination
CHECK_DEADLOCK FALSE
