------------------------------- MODULE Tally -------------------------------
(***************************************************************************)
(* The arithmetic of a thread's allocation tally (src/alloc.rs             *)
(* ThreadAllocInfo) as the property C10 states it: per operation kind the  *)
(* number of operations and the sum of their byte sizes (for reallocations *)
(* the absolute size change), and the running peaks of live allocations /  *)
(* live bytes relative to the clearing point.                              *)
(***************************************************************************)
EXTENDS Integers, Sequences

ZeroTally ==
  [grow |-> <<0, 0>>, shrink |-> <<0, 0>>, alloc |-> <<0, 0>>,
   dealloc |-> <<0, 0>>, cur_count |-> 0, max_count |-> 0, cur_size |-> 0,
   max_size |-> 0]

Max(a, b) == IF a >= b THEN a ELSE b
Abs(x) == IF x < 0 THEN -x ELSE x
Bump(p, bytes) == <<p[1] + 1, p[2] + bytes>>

\* `asShrink` resolves the one case the statement leaves open: an equal-size
\* reallocation counts as one operation of 0 bytes, grow or shrink.
ApplyRealloc(t, old, new, asShrink) ==
  LET curSize == t.cur_size + (new - old) IN
  IF asShrink
    THEN [t EXCEPT !.shrink = Bump(@, Abs(new - old)),
                   !.cur_size = curSize,
                   !.max_size = Max(@, curSize)]
    ELSE [t EXCEPT !.grow = Bump(@, Abs(new - old)),
                   !.cur_size = curSize,
                   !.max_size = Max(@, curSize)]

\* op \in {"alloc", "alloc_zeroed", "dealloc", "realloc"}
Apply(t, op, size, new) ==
  CASE op \in {"alloc", "alloc_zeroed"} ->
         [t EXCEPT !.alloc = Bump(@, size),
                   !.cur_count = @ + 1,
                   !.max_count = Max(@, t.cur_count + 1),
                   !.cur_size = @ + size,
                   !.max_size = Max(@, t.cur_size + size)]
    [] op = "dealloc" ->
         [t EXCEPT !.dealloc = Bump(@, size),
                   !.cur_count = @ - 1,
                   !.cur_size = @ - size]
    [] op = "realloc" -> ApplyRealloc(t, size, new, new < size)
    [] OTHER -> t

\* Projection of a logged tally onto the fields above (field order free).
Proj(info) ==
  [grow |-> info.grow, shrink |-> info.shrink, alloc |-> info.alloc,
   dealloc |-> info.dealloc, cur_count |-> info.cur_count,
   max_count |-> info.max_count, cur_size |-> info.cur_size,
   max_size |-> info.max_size]
=============================================================================
