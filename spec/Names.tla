------------------------------- MODULE Names -------------------------------
(***************************************************************************)
(* Orders on names (C16), as DOCUMENTED by the property statement - not a  *)
(* transcription of the comparators in src/util/sort.rs and                *)
(* src/config/mod.rs.                                                      *)
(*                                                                         *)
(* A string is a finite sequence of Unicode code points (naturals).  The   *)
(* real tokenizer walks UTF-8 BYTES and compares token text byte-wise;     *)
(* code points are a sound abstraction of that: (i) every byte of a        *)
(* multi-byte UTF-8 sequence is >= 0x80, so a byte is an ASCII digit iff   *)
(* it is a one-byte code point that is an ASCII digit, hence byte-level    *)
(* and code-point-level token boundaries coincide; (ii) byte-wise          *)
(* lexicographic order of well-formed UTF-8 equals lexicographic order of  *)
(* the code-point sequences.                                               *)
(*                                                                         *)
(* Every comparator comes in two forms:                                    *)
(*   XCmp(...)     \in {-1, 0, 1}  the canonical documented result, ties   *)
(*                                 reported as 0;                          *)
(*   XCmpSet(...)  \subseteq {-1,0,1}  every result the statement permits. *)
(* The set is larger than {XCmp} only where the statement leaves the       *)
(* order open (listed at NameCmpSet).  An observed result r is acceptable  *)
(* iff r \in XCmpSet(...).                                                 *)
(***************************************************************************)
EXTENDS Integers, Sequences, FiniteSets, TLC

Sgn(x) == IF x < 0 THEN -1 ELSE IF x > 0 THEN 1 ELSE 0
NegSet(S) == {0 - x : x \in S}
AnyResult == {-1, 0, 1}

IsDigit(c) == c >= 48 /\ c <= 57

\* ------------------------------------------------------------- sequences

\* Lexicographic comparison of two sequences of naturals.
RECURSIVE LexFrom(_, _, _)
LexFrom(a, b, i) ==
  IF i > Len(a) THEN (IF i > Len(b) THEN 0 ELSE -1)
  ELSE IF i > Len(b) THEN 1
  ELSE IF a[i] < b[i] THEN -1
  ELSE IF a[i] > b[i] THEN 1
  ELSE LexFrom(a, b, i + 1)
Lex(a, b) == LexFrom(a, b, 1)

RECURSIVE StripZeros(_)
StripZeros(d) == IF d # <<>> /\ Head(d) = 48 THEN StripZeros(Tail(d)) ELSE d

RECURSIVE StripTrailingZeros(_)
StripTrailingZeros(d) ==
  IF d # <<>> /\ d[Len(d)] = 48 THEN StripTrailingZeros(SubSeq(d, 1, Len(d) - 1)) ELSE d

\* -------------------------------------------------------------- tokenizer

\* Index of the last element of the maximal run starting at i whose
\* elements have digit-ness d.
RECURSIVE RunEnd(_, _, _)
RunEnd(s, i, d) == IF i < Len(s) /\ IsDigit(s[i + 1]) = d THEN RunEnd(s, i + 1, d) ELSE i

RECURSIVE TokensFrom(_, _)
TokensFrom(s, i) ==
  IF i > Len(s) THEN <<>>
  ELSE LET d == IsDigit(s[i])
           j == RunEnd(s, i, d)
       IN <<[int |-> d, text |-> SubSeq(s, i, j)]>> \o TokensFrom(s, j + 1)

\* Maximal runs of ASCII digits vs. anything else, left to right.
Tokens(s) == TokensFrom(s, 1)

\* Digit runs by numeric value: strip leading zeros, then the longer run is
\* the larger number, then digit by digit.  (The empty run is zero.)
CmpInt(x, y) ==
  LET a == StripZeros(x)
      b == StripZeros(y)
  IN IF Len(a) # Len(b) THEN Sgn(Len(a) - Len(b)) ELSE Lex(a, b)

TokCmp(t, u) == IF t.int /\ u.int THEN CmpInt(t.text, u.text) ELSE Lex(t.text, u.text)

RECURSIVE TokSeqCmp(_, _, _)
TokSeqCmp(ta, tb, i) ==
  IF i > Len(ta) THEN (IF i > Len(tb) THEN 0 ELSE -1)
  ELSE IF i > Len(tb) THEN 1
  ELSE LET c == TokCmp(ta[i], tb[i])
       IN IF c # 0 THEN c ELSE TokSeqCmp(ta, tb, i + 1)

\* "natural order in which digit runs compare by numeric value": the token
\* sequences compare lexicographically; two digit runs by value, any other
\* pair of runs code-point-wise.
NaturalCmp(a, b) == TokSeqCmp(Tokens(a), Tokens(b), 1)

\* NaturalCmp(a, b) = 0 for a # b happens exactly when the two strings
\* differ only in leading zeros of digit runs ("0" vs "00", "a1" vs "a01").
\* The statement says that digit runs compare by value and is silent on
\* whether two such names are then equal or ordered by some finer rule
\* (util::sort::tests sorts ["0", "00"] and accepts that order, which both
\* readings allow), so every result is permitted for them.
NaturalCmpSet(a, b) ==
  LET c == NaturalCmp(a, b)
  IN IF c # 0 THEN {c} ELSE IF a = b THEN {0} ELSE AnyResult

\* ------------------------------------------------------ numeric arguments

U128Max == \* 2^128 - 1
  << 51,52,48,50,56,50,51,54,54,57,50,48,57,51,56,52,54,51,52,54,
     51,51,55,52,54,48,55,52,51,49,55,54,56,50,49,49,52,53,53 >>
I128MinMag == \* 2^127
  << 49,55,48,49,52,49,49,56,51,52,54,48,52,54,57,50,51,49,55,51,
     49,54,56,55,51,48,51,55,49,53,56,56,52,49,48,53,55,50,56 >>

Lower(c) == IF c >= 65 /\ c <= 90 THEN c + 32 ELSE c
LowerSeq(s) == [i \in 1..Len(s) |-> Lower(s[i])]
AllDigits(t) == \A i \in 1..Len(t) : IsDigit(t[i])

HasSign(s) == s # <<>> /\ s[1] \in {43, 45}
IsNegSigned(s) == s # <<>> /\ s[1] = 45
Body(s) == IF HasSign(s) THEN Tail(s) ELSE s

\* First position of an exponent marker in b, 0 if none.
ExpPos(b) ==
  LET P == {i \in 1..Len(b) : b[i] \in {101, 69}}
  IN IF P = {} THEN 0 ELSE CHOOSE i \in P : \A j \in P : i <= j

\* [digits][.digits] with at most one point and at least one digit
\* ("5.", ".5" are accepted by f64::from_str, "." is not).
IsMantissa(m) ==
  /\ \A i \in 1..Len(m) : IsDigit(m[i]) \/ m[i] = 46
  /\ Cardinality({i \in 1..Len(m) : m[i] = 46}) <= 1
  /\ \E i \in 1..Len(m) : IsDigit(m[i])

MantDigits(m) == SelectSeq(m, IsDigit)
FracLen(m) ==
  LET P == {i \in 1..Len(m) : m[i] = 46}
  IN IF P = {} THEN 0 ELSE Len(m) - (CHOOSE i \in P : TRUE)

\* [sign]digits+
IsExponent(x) == LET d == Body(x) IN d # <<>> /\ AllDigits(d)

RECURSIVE DigitsVal(_)
DigitsVal(d) == IF d = <<>> THEN 0 ELSE 10 * DigitsVal(SubSeq(d, 1, Len(d) - 1)) + (d[Len(d)] - 48)

MaxExpDigits == 4

NotNumeric == [k |-> "other", neg |-> FALSE, inf |-> FALSE, d |-> <<>>, e |-> 0]

(***************************************************************************)
(* Num(s): how the name s reads as a number.                               *)
(*   k = "int"   optional sign and ASCII digits within the range of        *)
(*               u128 / i128 (what str::parse::<u128 / i128> accepts);     *)
(*   k = "dec"   any other text f64::from_str accepts and whose exact value *)
(*               this module computes: [sign] mantissa [exponent], or      *)
(*               [sign] inf / infinity in any letter case;                 *)
(*   k = "unp"   accepted by f64::from_str but without a value the         *)
(*               statement could order it by: NaN, and exponents of more   *)
(*               than MaxExpDigits significant digits (not evaluated here);*)
(*   k = "other" not a number.                                             *)
(* For "int"/"dec": the value is (-1)^neg * D * 10^e with D the natural    *)
(* number written by the digit sequence d (no leading zeros; <<>> = 0), or *)
(* (-1)^neg * infinity when inf.                                           *)
(***************************************************************************)
Num(s) ==
  LET neg == IsNegSigned(s)
      b == Body(s)
      lb == LowerSeq(b)
      ep == ExpPos(b)
      mant == IF ep = 0 THEN b ELSE SubSeq(b, 1, ep - 1)
      expo == IF ep = 0 THEN <<>> ELSE SubSeq(b, ep + 1, Len(b))
      expDigits == StripZeros(Body(expo))
      expVal == IF IsNegSigned(expo) THEN 0 - DigitsVal(expDigits) ELSE DigitsVal(expDigits)
  IN
  IF b # <<>> /\ AllDigits(b) /\ CmpInt(b, IF neg THEN I128MinMag ELSE U128Max) <= 0
    THEN [k |-> "int", neg |-> neg, inf |-> FALSE, d |-> StripZeros(b), e |-> 0]
  ELSE IF lb \in { <<105,110,102>>, <<105,110,102,105,110,105,116,121>> }
    THEN [k |-> "dec", neg |-> neg, inf |-> TRUE, d |-> <<>>, e |-> 0]
  ELSE IF lb = <<110,97,110>>
    THEN [k |-> "unp", neg |-> neg, inf |-> FALSE, d |-> <<>>, e |-> 0]
  ELSE IF IsMantissa(mant) /\ (ep = 0 \/ IsExponent(expo))
    THEN IF Len(expDigits) > MaxExpDigits
           THEN [k |-> "unp", neg |-> neg, inf |-> FALSE, d |-> <<>>, e |-> 0]
           ELSE [k |-> "dec", neg |-> neg, inf |-> FALSE,
                 d |-> StripZeros(MantDigits(mant)),
                 e |-> (IF ep = 0 THEN 0 ELSE expVal) - FracLen(mant)]
  ELSE NotNumeric

\* "int" | "dec" | "unp" | "other"
ArgKind(s) == Num(s).k
IsNumeric(s) == ArgKind(s) \in {"int", "dec"}

\* Digit sequences of equal leading position, the shorter padded with zeros.
RECURSIVE PadLexFrom(_, _, _)
PadLexFrom(x, y, i) ==
  IF i > Len(x) /\ i > Len(y) THEN 0
  ELSE LET cx == IF i > Len(x) THEN 48 ELSE x[i]
           cy == IF i > Len(y) THEN 48 ELSE y[i]
       IN IF cx < cy THEN -1 ELSE IF cx > cy THEN 1 ELSE PadLexFrom(x, y, i + 1)

IsZero(x) == ~x.inf /\ x.d = <<>>
ValSign(x) == IF IsZero(x) THEN 0 ELSE IF x.neg THEN -1 ELSE 1

\* Exact comparison of magnitudes D * 10^e (scaled digit sequences, no
\* floating point): position of the leading digit, then the digits.
MagCmp(x, y) ==
  IF x.inf \/ y.inf THEN (IF x.inf /\ y.inf THEN 0 ELSE IF x.inf THEN 1 ELSE -1)
  ELSE IF x.d = <<>> \/ y.d = <<>> THEN Sgn(Len(x.d) - Len(y.d))
  ELSE LET tx == Len(x.d) + x.e
           ty == Len(y.d) + y.e
       IN IF tx # ty THEN Sgn(tx - ty) ELSE PadLexFrom(x.d, y.d, 1)

\* Exact comparison of the values of two "int"/"dec" readings.
ValCmp(x, y) ==
  LET sx == ValSign(x)
      sy == ValSign(y)
  IN IF sx # sy THEN Sgn(sx - sy)
     ELSE IF sx = 0 THEN 0
     ELSE IF sx > 0 THEN MagCmp(x, y) ELSE 0 - MagCmp(x, y)

\* A decimal is read by the code into an f64.  Reading is monotone, and it
\* is exact enough to keep DISTINCT values apart whenever both have at most
\* 15 significant digits (DBL_DIG) and lie well inside the normal range;
\* outside that, two different decimals may round to the same f64 (never
\* to f64s in the opposite order).
F64Safe(x) ==
  \/ x.inf
  \/ x.d = <<>>
  \/ /\ Len(StripTrailingZeros(x.d)) <= 15
     /\ Len(x.d) + x.e >= -290 /\ Len(x.d) + x.e <= 290

(***************************************************************************)
(* Name order of two runtime-argument labels, as the statement documents   *)
(* it: both integers -> by value; else both numeric (integers or decimals, *)
(* negatives included) -> by value; else NaturalCmp.                       *)
(* Permitted beyond the canonical result:                                  *)
(*  (P1) names that differ only in leading zeros of digit runs and are not *)
(*       both numeric: any result (see NaturalCmpSet);                     *)
(*  (P2) two numeric names that are not both integers, one of them not     *)
(*       F64Safe: also 0 ("by value" of floats is by f64 value);           *)
(*  (P3) two zeros of different sign ("-0" vs "0"): also "negative zero    *)
(*       first" (the statement does not say whether -0 = 0 or -0 < 0);     *)
(*  (P4) a NaN / unevaluated-exponent name against a numeric name: any     *)
(*       result (no value to order by).                                    *)
(* Two numeric names of equal value ("1" vs "1.0", "+5" vs "5") are a tie: *)
(* the next attribute decides.                                             *)
(***************************************************************************)
NameCmp(a, b) ==
  LET x == Num(a)
      y == Num(b)
  IN IF x.k \in {"int", "dec"} /\ y.k \in {"int", "dec"} THEN ValCmp(x, y)
     ELSE NaturalCmp(a, b)

NameCmpSet(a, b) ==
  IF a = b THEN {0} ELSE
  LET x == Num(a)
      y == Num(b)
  IN IF x.k \in {"int", "dec"} /\ y.k \in {"int", "dec"}
       THEN LET c == ValCmp(x, y)
            IN {c}
               \cup (IF ~(x.k = "int" /\ y.k = "int") /\ ~(F64Safe(x) /\ F64Safe(y))
                       THEN {0} ELSE {})                                   \* P2
               \cup (IF IsZero(x) /\ IsZero(y) /\ x.neg # y.neg
                       THEN {IF x.neg THEN -1 ELSE 1} ELSE {})             \* P3
     ELSE IF x.k # "other" /\ y.k # "other" THEN AnyResult                 \* P4
     ELSE NaturalCmpSet(a, b)                                              \* P1

\* ---------------------------------------------- attributes and tie-breakers

Attrs == {"kind", "name", "location"}

\* SortingAttr::with_tie_breakers as documented ("kind, then name and
\* location", "name, then location and kind", "location, then kind and name").
TieBreakers(attr) ==
  CASE attr = "kind" -> <<"kind", "name", "location">>
    [] attr = "name" -> <<"name", "location", "kind">>
    [] attr = "location" -> <<"location", "kind", "name">>

\* One key of two arguments of ONE benchmark: kind never distinguishes
\* arguments, location is the declaration position.
ArgKeyCmp(key, a, b, posA, posB) ==
  CASE key = "kind" -> 0
    [] key = "name" -> NameCmp(a, b)
    [] key = "location" -> Sgn(posA - posB)

ArgKeyCmpSet(key, a, b, posA, posB) ==
  CASE key = "kind" -> {0}
    [] key = "name" -> NameCmpSet(a, b)
    [] key = "location" -> {Sgn(posA - posB)}

RECURSIVE ChainCmp(_, _, _, _, _, _)
ChainCmp(keys, i, a, b, posA, posB) ==
  IF i > Len(keys) THEN 0
  ELSE LET c == ArgKeyCmp(keys[i], a, b, posA, posB)
       IN IF c # 0 THEN c ELSE ChainCmp(keys, i + 1, a, b, posA, posB)

RECURSIVE ChainCmpSet(_, _, _, _, _, _)
ChainCmpSet(keys, i, a, b, posA, posB) ==
  IF i > Len(keys) THEN {0}
  ELSE LET S == ArgKeyCmpSet(keys[i], a, b, posA, posB)
       IN (S \ {0}) \cup (IF 0 \in S THEN ChainCmpSet(keys, i + 1, a, b, posA, posB) ELSE {})

\* Argument a declared at position posA against argument b at posB under
\* --sort attr.
ArgNameCmp(attr, a, b, posA, posB) == ChainCmp(TieBreakers(attr), 1, a, b, posA, posB)
ArgNameCmpSet(attr, a, b, posA, posB) == ChainCmpSet(TieBreakers(attr), 1, a, b, posA, posB)

\* --sortr is exactly the reverse relation.
ArgNameCmpDir(attr, reverse, a, b, posA, posB) ==
  IF reverse THEN 0 - ArgNameCmp(attr, a, b, posA, posB) ELSE ArgNameCmp(attr, a, b, posA, posB)
ArgNameCmpDirSet(attr, reverse, a, b, posA, posB) ==
  IF reverse THEN NegSet(ArgNameCmpSet(attr, a, b, posA, posB))
  ELSE ArgNameCmpSet(attr, a, b, posA, posB)

\* Two constants of one generic benchmark: by the type's own ordering
\* (ord \in {-1, 0, 1}, or "none" when partial_cmp has no answer), equal or
\* unordered values by name.
ConstCmp(ord, a, b) == IF ord \in {-1, 1} THEN ord ELSE NaturalCmp(a, b)

\* ------------------------------------------------------- order-theoretic

\* C(x, y) \in {-1, 0, 1} is a comparator of a total preorder on S.
IsTotalPreorder(S, C(_, _)) ==
  /\ \A x \in S : C(x, x) = 0
  /\ \A x, y \in S : C(x, y) = 0 - C(y, x)
  /\ \A x, y, z \in S : (C(x, y) <= 0 /\ C(y, z) <= 0) => C(x, z) <= 0

\* The same for an n x n matrix of comparison results.
MatrixIsTotalPreorder(M, n) ==
  /\ \A i \in 1..n : M[i][i] = 0
  /\ \A i, j \in 1..n : M[i][j] = 0 - M[j][i]
  /\ \A i, j, k \in 1..n : (M[i][j] <= 0 /\ M[j][k] <= 0) => M[i][k] <= 0

\* Documented comparison matrix of an argument list (positions = indices).
\* (TLCEval: TLC would otherwise re-evaluate an entry at every use.)
ArgMatrix(attr, names) ==
  LET nums == TLCEval([i \in 1..Len(names) |-> Num(names[i])])
      nameCmp(i, j) ==
        IF nums[i].k \in {"int", "dec"} /\ nums[j].k \in {"int", "dec"}
          THEN ValCmp(nums[i], nums[j]) ELSE NaturalCmp(names[i], names[j])
      key(k, i, j) == CASE k = "kind" -> 0 [] k = "name" -> nameCmp(i, j) [] k = "location" -> Sgn(i - j)
      keys == TieBreakers(attr)
      cmp(i, j) == IF key(keys[1], i, j) # 0 THEN key(keys[1], i, j)
                   ELSE IF key(keys[2], i, j) # 0 THEN key(keys[2], i, j)
                   ELSE key(keys[3], i, j)
  IN TLCEval([i \in 1..Len(names) |-> TLCEval([j \in 1..Len(names) |-> cmp(i, j)])])

\* The documented relation is a total preorder on this very list.  (On lists
\* that mix numeric and non-numeric names it need not be: ".1" < ".a" and
\* ".a" < "0" in natural order but "0" < ".1" by value.)
ArgOrderIsTotalOn(attr, names) ==
  LET M == ArgMatrix(attr, names) IN MatrixIsTotalPreorder(M, Len(names))

IsPermutationOf(perm, n) ==
  /\ Len(perm) = n
  /\ \A i \in 1..n : \E k \in 1..n : perm[k] = i

\* perm (1-based positions into names, in output order) is a sorted
\* arrangement: every adjacent pair is in a permitted non-descending order.
IsSortedBy(attr, reverse, names, perm) ==
  \A k \in 1..(Len(perm) - 1) :
    \E c \in ArgNameCmpDirSet(attr, reverse, names[perm[k]], names[perm[k + 1]],
                              perm[k], perm[k + 1]) : c <= 0
=============================================================================
