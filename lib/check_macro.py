"""C12 and the macro level of C17: generated crates that use the real
attribute macros (back-end M, lib/mgen.py), judged by RunnerTrace.tla.

Flow: generate N programs -> one cargo build -> per binary a registry dump and
runs under several configurations -> `run` records -> TLC -> negative controls.
Python generates sources / configurations, runs cargo and the binaries, lexes
output and parses TLC's verdict; it never decides a property.
"""
import copy
import json
import os
import random
import subprocess
import time

import check_runner
import mgen
import progs
import vcheck as V

cp = progs.cp
N_PROGRAMS = {"quick": 10, "thorough": 120}
N_PROGRAMS_BY_PROP = {"C15": {"quick": 5, "thorough": 60}}


# ------------------------------------------------- inputs: paths and filters

def _type_display(raw):
    """Runner.tla's TypeDisplay: leading module components (plain identifiers followed by ::) removed."""
    while True:
        k = raw.find("::")
        if k <= 0 or not all(c.isalnum() or c == "_" for c in raw[:k]):
            return raw
        raw = raw[k + 2:]


def _parent_display(prog, raw_path):
    out = []
    for n in range(1, len(raw_path) + 1):
        g = [g for g in prog["groups"] if g["mods"] == raw_path[:n - 1] and g["raw"] == raw_path[n - 1]] if n >= 2 else []
        out.append(g[0]["name"] if g else progs.strip_raw(raw_path[n - 1]))
    return out


def case_paths(prog):
    """[(leaf display path, [argument labels])] - fodder for filters (inputs only)."""
    out = []
    for b in prog["benches"]:
        out.append(("::".join(_parent_display(prog, b["mods"]) + [b["name"]]), b.get("args", []) if b["kind"] == "args" else None))
    for x in prog["ginst"]:
        g = prog["groups"][x["group"]]
        comps = _parent_display(prog, g["mods"] + [g["raw"]])
        if "const" in x:
            if "type" in x:
                comps.append(_type_display(x["type_raw"]))
            comps.append(str(x["const"]))
        else:
            comps.append(_type_display(x["type_raw"]))
        gen = g["generic"]
        out.append(("::".join(comps), gen.get("args", []) if gen["kind"] == "args" else None))
    return out


def _exact(text, inclusive=True):
    return {"inclusive": inclusive, "kind": "exact", "text": text, "text_cp": cp(text), "ast": {"alts": []}}


def _regex_eol(text, inclusive=True):
    return {"inclusive": inclusive, "kind": "regex", "text": text + "$", "text_cp": cp(text + "$"),
            "ast": {"alts": [[{"t": "lit", "cp": cp(text)}, {"t": "eol"}]]}}


def _safe(text):
    return all(c in progs.SAFE for c in text) and not text.startswith("-")


def base_cfg(action):
    cfg = {"action": action, "sort": "kind", "reverse": False, "run_ignored": "no", "filters": [],
           "argv": [], "env": {}, "builder": [], "entry": "main",
           "src_after": {}, "src_cli": {}, "src_env": {}, "src_before": {}}
    if action == "test":
        cfg["argv"] = ["--test"]
    elif action == "list":
        cfg["argv"] = ["--list"]
    elif action == "list_terse":
        cfg["argv"] = ["--list", "--format", "terse"]
        cfg["env"]["NEXTEST"] = "1"
    else:
        cfg["argv"] = ["--bench", "--sample-count", "1", "--sample-size", "1"]
        cfg["src_cli"] = {"sample_count": 1, "sample_size": 1}
    cfg["argv"] += ["--timer", "tsc"]
    return cfg


def add_filters(cfg, filters):
    if any(f["kind"] == "exact" for f in filters):
        cfg["argv"].append("--exact")
    for f in filters:
        cfg["filters"].append(f)
        cfg["argv"] += [f["text"]] if f["inclusive"] else ["--skip", f["text"]]
    return cfg


def m_configs(rnd, prog, prop, tier):
    """Configurations of one program: the three actions, every sort and
    reversal, filters keeping a strict subset of the arguments, --exact paths,
    ignore modes, one --bench run, and random ones from progs.gen_config."""
    if prop == "C15":
        # option resolution as written in the attributes (parsed by the macros): what the loop saw in
        # test and bench mode, ignore modes, and run-time options on top (flag / variable / builder)
        out = [base_cfg("test"), base_cfg("bench")]
        c = base_cfg("test"); c["run_ignored"] = "yes"; c["argv"].append("--include-ignored"); out.append(c)
        c = base_cfg("bench"); c["run_ignored"] = "only"; c["argv"].append("--ignored"); out.append(c)
        flat = [p for p, a in case_paths(prog)]
        for _ in range(3):
            out.append(progs.gen_config(rnd, prog, action=rnd.choice(["test", "bench", "bench"]), paths=flat, nf=0))
        return out
    out = [base_cfg("test"), base_cfg("list"), base_cfg("list_terse")]
    for attr in ("kind", "name", "location"):
        for rev in (False, True):
            action = "test" if prop == "C17" or rnd.random() < 0.5 else rnd.choice(["list", "test"])
            c = base_cfg(action)
            c["sort"], c["reverse"] = attr, rev
            if rnd.random() < 0.7:
                c["argv"] += ["--sortr" if rev else "--sort", attr]
            else:
                c["env"]["DIVAN_SORTR" if rev else "DIVAN_SORT"] = attr
            out.append(c)
    paths = case_paths(prog)
    with_args = [(p, a) for p, a in paths if a and len(a) >= 2]
    # filters keeping a strict, non-empty subset of the arguments of one benchmark
    for _ in range(2 if prop == "C17" else 1):
        if not with_args:
            break
        p, a = rnd.choice(with_args)
        keep = rnd.sample(a, rnd.randint(1, len(a) - 1))
        c = base_cfg(rnd.choice(["test", "test", "list_terse"]))
        if rnd.random() < 0.5 and all(_safe(f"{p}::{x}") for x in keep):
            add_filters(c, [_regex_eol(f"{p}::{x}") for x in keep])
        else:
            add_filters(c, [_exact(f"{p}::{x}") for x in keep])
        if rnd.random() < 0.5:
            attr, rev = rnd.choice(["kind", "name", "location"]), rnd.random() < 0.5
            c["sort"], c["reverse"] = attr, rev
            c["argv"] += ["--sortr" if rev else "--sort", attr]
        c["run_ignored"] = "yes"
        c["argv"].append("--include-ignored")
        out.append(c)
    # the complement: skip some arguments
    if with_args:
        p, a = rnd.choice(with_args)
        drop = rnd.sample(a, rnd.randint(1, len(a) - 1))
        c = base_cfg("test")
        add_filters(c, [_exact(f"{p}::{x}", inclusive=False) for x in drop])
        out.append(c)
    # --exact full paths of leaves / cases
    if paths:
        c = base_cfg("test")
        picks = []
        for p, a in rnd.sample(paths, min(2, len(paths))):
            picks.append(f"{p}::{rnd.choice(a)}" if a else p)
        add_filters(c, [_exact(x) for x in picks])
        c["run_ignored"] = "yes"
        c["argv"].append("--include-ignored")
        out.append(c)
    # ignore modes
    c = base_cfg(rnd.choice(["test", "list_terse"]))
    c["run_ignored"] = "yes"
    c["argv"].append("--include-ignored")
    out.append(c)
    c = base_cfg(rnd.choice(["test", "list"]))
    c["run_ignored"] = "only"
    c["argv"].append("--ignored")
    out.append(c)
    # measured once
    c = base_cfg("bench")
    if rnd.random() < 0.5:
        c["run_ignored"] = "yes"
        c["argv"].append("--include-ignored")
    out.append(c)
    # random configurations (CLI / environment / builder calls / public entry points)
    flat = [p for p, a in paths] + [f"{p}::{x}" for p, a in paths if a for x in a[:2]]
    for _ in range(2):
        c = progs.gen_config(rnd, prog, action=rnd.choice(["test", "test", "list", "list_terse"]), paths=flat)
        out.append(c)
    return out


# ---------------------------------------------------------------- execution

def gen_batch(prop, tier, seed):
    rnd = random.Random(seed * 7919 + int(prop[1:]))
    n = N_PROGRAMS_BY_PROP.get(prop, N_PROGRAMS)[tier]
    # binaries of all batches land in one target directory: crate names are unique per batch
    crate = lambda k: f"{prop.lower()}{tier[0]}_{k:03d}"
    programs = [mgen.gen_program(rnd, f"{prop}-m{k}", crate(k)) for k in range(n)]
    # the quantifier asks for argument lists of length 0..30: make sure a long and an empty one are present
    def longest(p):
        return max([len(b.get("args", [])) for b in p["benches"] if b["kind"] == "args"] + [-1])
    def has_empty(p):
        return any(b["kind"] == "args" and not b["args"] for b in p["benches"])
    for _ in range(300):
        if any(longest(p) >= 20 for p in programs):
            break
        programs[0] = mgen.gen_program(rnd, f"{prop}-m0", crate(0))
    slot = next((k for k, p in enumerate(programs) if longest(p) < 20), 0)
    for _ in range(300):
        if any(has_empty(p) for p in programs):
            break
        programs[slot] = mgen.gen_program(rnd, f"{prop}-m{slot}", crate(slot))
    return rnd, programs


def build(programs, batch):
    d = mgen.write_package(batch, programs)
    wall = mgen.build_package(d)
    return d, wall


def execute(rnd, programs, prop, tier, label):
    """-> (ndjson path, records, by_name, registries)."""
    path = os.path.join(V.WORK, f"{label}.runs.ndjson")
    recs, by_name, regs = [], {}, {}
    with open(path, "w") as f:
        for prog in programs:
            prog["first_rec"] = len(recs)
            rendered = mgen.render_program(prog)
            reg = mgen.dump_registry(prog)
            regs[prog["id"]] = reg
            for k, cfg in enumerate(m_configs(rnd, prog, prop, tier)):
                name = f"{prog['id']}c{k}"
                # C12 judges the registry together with the three plain runs (--test, --list, terse)
                rec = mgen.run_program(prog, rendered, cfg, name, registry=reg if (prop == "C12" and k < 3) else None)
                recs.append(rec)
                by_name[name] = (prog, cfg)
                f.write(json.dumps(rec) + "\n")
    return path, recs, by_name, regs


def sample_of(prog, reg):
    """A generated source snippet with the registry entry it produced (evidence)."""
    for b in prog["benches"]:
        hit = [e for e in reg["benches"] if e["raw_name"] == b["raw"] and e["module_path"] == "::".join(b["mods"])]
        if hit and (b["kind"] == "args" or b["opts"]):
            e = {k: v for k, v in hit[0].items() if not k.endswith("_cp")}
            return {"program": prog["id"], "source": b.get("snippet", []), "written_at": [b["file"], b["line"], b["col"]],
                    "registry_entry": e}
    return None


# --------------------------------------------------------------- validation

MAX_REPORTED = 6


def validate_chunks(res, prop, programs, recs, by_name, label):
    """The runs of each program form one trace (records are independent);
    the traces are validated by parallel TLC processes.  A trace TLC does not
    accept is re-examined record by record through check_runner.validate_runs
    (offending record removed, the rest examined), at most three offending
    runs per program and MAX_REPORTED in total - one defect in the macros
    typically shows in every program."""
    from concurrent.futures import ThreadPoolExecutor
    chunks = []
    bounds = [p["first_rec"] for p in programs] + [len(recs)]
    for k, prog in enumerate(programs):
        part = recs[bounds[k]:bounds[k + 1]]
        if not part:
            continue
        path = os.path.join(V.WORK, f"{prop}.macro.{prog['crate']}.ndjson")
        with open(path, "w") as f:
            for r in part:
                f.write(json.dumps(r) + "\n")
        chunks.append((path, part))
    workers = max(1, min(8, (os.cpu_count() or 2) // 2))
    with ThreadPoolExecutor(max_workers=workers) as ex:
        results = list(ex.map(lambda c: V.tlc_trace("RunnerTrace", f"RunnerTrace_{prop}", c[0]), chunks))
    found, skipped = 0, 0
    for (path, part), r in zip(chunks, results):
        if r["accepted"]:
            res.add_trace(label, r, len(part), sum(len(x["lines"]) + len(x["invokes"]) + len(x["terse"]) for x in part))
        elif found >= MAX_REPORTED:
            skipped += 1
        else:
            found += check_runner.validate_runs(res, prop, path, label, by_name, max_rounds=3)
    if skipped:
        res.notes.append(f"{label}: {skipped} further program(s) with offending runs not re-examined after {found} reported violations")
    return found


# --------------------------------------------------------- negative controls

def negative_controls(res, prop, recs):
    out = {}
    if prop == "C12":
        base = next((r for r in recs if "registry" in r and len(r["registry"]["benches"]) >= 2), None)
        if base is None:
            raise V.ToolError("negative control: no run with a registry")
        a = copy.deepcopy(base)
        del a["registry"]["benches"][0]
        b = copy.deepcopy(base)
        b["registry"]["benches"][-1]["line"] += 1
        c = copy.deepcopy(base)
        gen = next((g for r in [base] for g in r["registry"]["groups"] if g["instances"]), None)
        cases = [("registry entry deleted", a), ("line number changed", b)]
        if gen is not None:
            for g in c["registry"]["groups"]:
                if g["instances"]:
                    g["instances"] = g["instances"][:-1]
                    break
            cases.append(("generic instance deleted", c))
        for what, rec in cases:
            p = os.path.join(V.WORK, f"{prop}.macro.negctl.ndjson")
            with open(p, "w") as f:
                f.write(json.dumps(rec) + "\n")
            r = V.tlc_trace("RunnerTrace", f"RunnerTrace_{prop}", p)
            out[what] = {"got": r.get("violated"), "rules": [x for x in V.bad_rules(r["out"]) if x.startswith("C12:")]}
            if r.get("violated") != "C12Holds" or not out[what]["rules"]:
                raise V.ToolError(f"negative control not caught: {what} ({r.get('violated')})")
    elif prop == "C15":
        base = next((r for r in recs if any(u.get("has_loop") for u in r["invokes"])), None)
        if base is None:
            raise V.ToolError("negative control: no run with a loop observation")
        a = copy.deepcopy(base)
        u = next(u for u in a["invokes"] if u.get("has_loop"))
        u["loop"]["threads"] += 1
        p = os.path.join(V.WORK, f"{prop}.macro.negctl.ndjson")
        with open(p, "w") as f:
            f.write(json.dumps(a) + "\n")
        r = V.tlc_trace("RunnerTrace", f"RunnerTrace_{prop}", p)
        out["observed thread count changed"] = {"got": r.get("violated"), "rules": [x for x in V.bad_rules(r["out"]) if x.startswith("C15:")]}
        if r.get("violated") != "C15Holds":
            raise V.ToolError(f"negative control not caught ({r.get('violated')})")
    else:
        cases = []
        for rec in recs:
            inv = [i for i, u in enumerate(rec["invokes"]) if u["has_arg"] and u["recv"]]
            if inv and not cases:
                a = copy.deepcopy(rec)
                a["invokes"][inv[0]]["arg_cp"] = a["invokes"][inv[0]]["arg_cp"] + [120]
                for q in a["invokes"][inv[0]]["recv"]:
                    q["arg_cp"] = q["arg_cp"] + [120]
                cases.append(("received argument changed", a))
                b = copy.deepcopy(rec)
                b["invokes"][inv[0]]["recv"][-1]["arg_cp"] = b["invokes"][inv[0]]["recv"][-1]["arg_cp"] + [121]
                cases.append(("one call received another argument", b))
            g = [i for i, u in enumerate(rec["invokes"]) if u["what"] == "g" and u["has_const"]]
            if g and len(cases) < 3 and cases:
                c = copy.deepcopy(rec)
                c["invokes"][g[0]]["const"] += 1
                for q in c["invokes"][g[0]]["recv"]:
                    q["const"] += 1
                cases.append(("received const changed", c))
            if len(cases) >= 3:
                break
        ev = next((r for r in recs if any(a["what"] == "g" for a in r["args_evals"])), None)
        if ev is not None:
            d = copy.deepcopy(ev)
            d["args_evals"].append(next(a for a in d["args_evals"] if a["what"] == "g"))
            cases.append(("argument list evaluated twice", d))
        if not cases:
            raise V.ToolError("negative control: no run with an argument")
        for what, rec in cases:
            p = os.path.join(V.WORK, f"{prop}.macro.negctl.ndjson")
            with open(p, "w") as f:
                f.write(json.dumps(rec) + "\n")
            r = V.tlc_trace("RunnerTrace", f"RunnerTrace_{prop}", p)
            out[what] = {"got": r.get("violated"), "rules": [x for x in V.bad_rules(r["out"]) if x.startswith("C17:")]}
            if r.get("violated") != "C17Holds" or not out[what]["rules"]:
                raise V.ToolError(f"negative control not caught: {what} ({r.get('violated')})")
    return out


# ------------------------------------------------------------------- entries

def run_macro_level(res, prop, tier, seed):
    """Generates, builds, runs and validates the macro-level programs of
    `prop` (C12 or C17) into `res`.  Returns the number of violations found."""
    t0 = time.time()
    rnd, programs = gen_batch(prop, tier, seed)
    d, build_s = build(programs, f"{prop}_{tier}")
    path, recs, by_name, regs = execute(rnd, programs, prop, tier, f"{prop}.macro")
    res.assumptions += [
        "macro level: programs are generated Rust crates using the real #[divan::bench] / #[divan::bench_group] attributes; the generator knows what it wrote (module path, names, file, line and column of each attribute, option values, argument labels, the std::any::type_name text of each type)",
        "item names are unique per module up to letter case (the macros derive a static's name from the upper-cased identifier); a generic function and a sibling module never share a name",
        "link / constructor order is whatever the toolchain produced (permuted registration orders are exercised by back-end R)",
    ]
    res.extra["macro_level"] = {
        "programs": len(programs), "bins": len(programs), "runs": len(recs),
        "benchmarks_written": sum(len(p["benches"]) for p in programs),
        "bench_group_modules": sum(1 for p in programs for g in p["groups"] if "generic" not in g),
        "generic_functions": sum(1 for p in programs for g in p["groups"] if "generic" in g),
        "generic_instances": sum(len(p["ginst"]) for p in programs),
        "argument_cases": sum(len(b.get("args", [])) for p in programs for b in p["benches"]),
        "max_args_length": max([len(b.get("args", [])) for p in programs for b in p["benches"]] + [0]),
        "source_files": sum(len(p["files"]) for p in programs),
        "actions": {a: sum(1 for r in recs if r["config"]["action"] == a) for a in ("bench", "test", "list", "list_terse")},
        "syntactic_forms": sorted(mgen.FORMS), "syntactic_form_count": len(mgen.FORMS),
        "build_s": build_s, "package": d,
    }
    for prog in programs:
        s = sample_of(prog, regs[prog["id"]])
        if s and len(res.samples) < 3:
            res.samples.append(s)
    bad_rc = [r["id"] for r in recs if r["rc"] != 0 and not r["panicked"]]
    if bad_rc:
        res.notes.append(f"macro level: runs with non-zero exit and no recorded panic: {bad_rc[:5]}")
    found = validate_chunks(res, prop, programs, recs, by_name, "macro:impl->spec")
    if not found:
        res.extra["macro_level"]["negative_controls"] = negative_controls(res, prop, recs)
    res.extra["macro_level"]["wall_s"] = round(time.time() - t0, 1)
    return found


def run(prop, tier, seed):
    res = V.Result(prop, tier, seed)
    res.assumptions = [
        "regular expressions are restricted to the subset Filters.tla gives semantics to; names contain no box-drawing characters and no runs of two blanks",
        "virtual timestamp counter; sequentially consistent, deterministic schedule",
        "a generic function whose types / consts list is empty must register no instance; whether a childless group entry for the function itself remains is not observable in any run and is left open",
    ]
    run_macro_level(res, prop, tier, seed)
    if prop == "C12":
        # the tree-building pipeline, for every order of the two registration lists (Tree.tla);
        # three harmless-looking reorderings of its steps must each break the invariant
        r = V.tlc_mc("MC_Tree", "Tree_q", workers=4)
        res.add_mc("Tree_q", r)
        if not r.get("ok"):
            raise V.ToolError(f"MC_Tree: {r.get('violated') or r.get('error')}")
        for cfg in ("Tree_v_one_pass", "Tree_v_retain_first", "Tree_v_skip_generic_groups"):
            r = V.tlc_mc("MC_Tree", cfg, workers=1, coverage=False)
            res.extra.setdefault("necessity_variants", []).append(
                {"config": cfg, "expected": ["ResultIsDeclarative", "GroupsReachTheirBenchmarks"], "got": r.get("violated")})
            if r.get("violated") not in ("ResultIsDeclarative", "GroupsReachTheirBenchmarks"):
                raise V.ToolError(f"{cfg}: expected a violation, got {r.get('violated')}")
        names_level(res, tier, seed)
        push_order_level(res, tier, seed)
        import check_entrylist
        check_entrylist.level(res, tier, seed)
    return res.finish()


def push_order_level(res, tier, seed):
    """"...does not depend on link or constructor order": the order in which
    pre-main constructors push entries cannot be steered in a compiled crate,
    so the same programs are registered at run time (back-end R) in several
    permuted orders; every run must satisfy the same specification, which
    does not mention the order."""
    rnd = random.Random(seed * 31 + 5)
    runs = []
    for k in range({"quick": 20, "thorough": 200}[tier]):
        prog = progs.gen_program(rnd, f"o{k}", roots=2 if rnd.random() < 0.15 else 1)
        cfg = progs.gen_config(rnd, prog, action=rnd.choice(["test", "list", "list_terse"]),
                               paths=check_runner.display_paths(prog))
        for perm in range(3):
            p2 = copy.deepcopy(prog)
            if perm == 1:
                p2["push"].reverse()
            elif perm == 2:
                rnd.shuffle(p2["push"])
            runs.append((p2, cfg, f"C12-o{k}p{perm}"))
    # bench_group modules whose subtree holds ONLY generic benchmarks (their tree
    # node exists only once the generic instances are inserted), every order of
    # the group entries
    import itertools
    for k in range({"quick": 10, "thorough": 80}[tier]):
        line = [0]
        def loc():
            line[0] += rnd.randint(2, 7)
            return {"file": "src/a.rs", "line": line[0], "col": 1}
        depth = rnd.choice([1, 2])
        mods = ["prog", "outer"] + (["inner"] if depth == 2 else [])
        groups = [{"mods": mods[:-1], "raw": mods[-1], "name": rnd.choice(["renamed grp", mods[-1]]), **loc(),
                   "opts": {"sample_count": 1, "sample_size": rnd.choice([1, 2])}, "has_opts": True}]
        if depth == 2 and rnd.random() < 0.5:
            groups.append({"mods": ["prog"], "raw": "outer", "name": "Outer", **loc(), "opts": {"ignore": False}, "has_opts": True})
        ginst = []
        gen_groups = []
        for j in range(rnd.choice([1, 2])):
            g = {"mods": mods, "raw": f"genfn{j}", "name": f"genfn{j}", **loc(), "opts": {}, "has_opts": rnd.random() < 0.5,
                 "generic": {"kind": "plain", "rows": []}}
            gi = len(groups) + len(gen_groups)
            types, consts = rnd.choice([([0, 1], None), (None, [3, 1]), ([2, 0], [5, 4])])
            if consts is None:
                row = []
                for t in types:
                    ginst.append({"group": gi, "type": t, "cost": 100}); row.append(len(ginst) - 1)
                g["generic"]["rows"].append(row)
            else:
                for t in (types if types is not None else [None]):
                    row = []
                    for c in consts:
                        x = {"group": gi, "const": c, "cost": 100}
                        if t is not None:
                            x["type"] = t
                        ginst.append(x); row.append(len(ginst) - 1)
                    g["generic"]["rows"].append(row)
            gen_groups.append(g)
        groups += gen_groups
        benches = []
        if rnd.random() < 0.4:
            benches.append({"mods": ["prog"], "raw": "plain", "name": "plain", **loc(), "kind": "plain",
                            "opts": {"sample_count": 1, "sample_size": 1}, "has_opts": True, "cost": 100})
        base_push = [["g", i] for i in range(len(groups))] + [["b", i] for i in range(len(benches))]
        prog = {"id": f"go{k}", "crate": "prog", "clock": {"start": 1000, "read_step": 0, "precision": 1},
                "benches": benches, "groups": groups, "ginst": ginst, "push": base_push, "builder": [], "entry": "main"}
        cfg = progs.gen_config(rnd, prog, action=rnd.choice(["test", "list", "bench"]), paths=[], nf=0)
        perms = list(itertools.permutations(base_push))
        rnd.shuffle(perms)
        for pi, perm in enumerate(perms[:6]):
            p2 = copy.deepcopy(prog)
            p2["push"] = [list(x) for x in perm]
            runs.append((p2, cfg, f"C12-go{k}p{pi}"))
    # a function and a module with the SAME name as siblings (legal Rust): the module is a
    # bench_group with options and holds several benchmarks; the function is pushed first / last
    for k in range({"quick": 10, "thorough": 80}[tier]):
        line = [0]
        def loc2():
            line[0] += rnd.randint(2, 7)
            return {"file": "src/a.rs", "line": line[0], "col": 1}
        nm = rnd.choice(["alpha", "beta_long_name", "m2"])
        gname = rnd.choice([nm, nm, "Renamed"])
        groups = [{"mods": ["prog"], "raw": nm, "name": gname, **loc2(),
                   "opts": rnd.choice([{"ignore": True}, {"sample_count": 1, "sample_size": 2}, {"ignore": True, "sample_count": 2}]),
                   "has_opts": True}]
        benches = [{"mods": ["prog"], "raw": nm, "name": nm, **loc2(), "kind": "plain",
                    "opts": {"sample_count": 1, "sample_size": 1}, "has_opts": True, "cost": 100}]
        for j in range(rnd.choice([2, 3])):
            benches.append({"mods": ["prog", nm], "raw": f"inner{j}", "name": f"inner{j}", **loc2(), "kind": "plain",
                            "opts": {}, "has_opts": False, "cost": 100})
        if rnd.random() < 0.5:
            benches.append({"mods": ["prog", nm, "deep"], "raw": "leaf", "name": "leaf", **loc2(), "kind": "plain",
                            "opts": {}, "has_opts": False, "cost": 100})
        others = [["b", i] for i in range(1, len(benches))] + [["g", 0]]
        prog = {"id": f"sn{k}", "crate": "prog", "clock": {"start": 1000, "read_step": 0, "precision": 1},
                "benches": benches, "groups": groups, "ginst": [], "push": [], "builder": [], "entry": "main"}
        # (the function must stay a leaf row: with several thread counts it would have rows below it
        # like the module of the same name, and rows are told apart by path and "has rows below")
        for _ in range(50):
            cfg = progs.gen_config(rnd, prog, action=rnd.choice(["test", "list", "list_terse"]), paths=[], nf=0)
            if not any("threads" in cfg[k] for k in ("src_cli", "src_env", "src_before", "src_after")):
                break
        for pi in range(3):
            rnd.shuffle(others)
            p2 = copy.deepcopy(prog)
            p2["push"] = [list(x) for x in ([["b", 0]] + others if pi == 0 else others + [["b", 0]] if pi == 1
                                            else others[:1] + [["b", 0]] + others[1:])]
            runs.append((p2, cfg, f"C12-sn{k}p{pi}"))
    by_name = {name: (prog, cfg) for prog, cfg, name in runs}
    path, recs = check_runner.execute(runs, "C12.order")
    res.extra["push_order_level"] = {"runs": len(runs), "note": "random programs in 3 orders each + generic-only bench_group modules in up to 6 orders each"}
    check_runner.validate_runs(res, "C12", path, "order:impl->spec", by_name, max_rounds=6)


def replay(prop, path):
    obj = json.load(open(path))
    if obj.get("level") == "entrylist":
        import check_entrylist
        return check_entrylist.replay(path)
    if (obj.get("program") or {}).get("backend") != "M":
        return check_runner.replay(prop, path)      # a run of the push-order level (back-end R)
    res = V.Result(prop, "quick", 0)
    prog, cfg = obj["program"], obj["config"]
    prog = copy.deepcopy(prog)
    prog["crate"] = prog.get("crate", "prog_000")
    build([prog], "replay")
    reg = mgen.dump_registry(prog)
    rec = mgen.run_program(prog, mgen.render_program(prog), cfg, "replay", registry=reg if prop == "C12" else None)
    p = os.path.join(V.WORK, f"{prop}.macro.replay.ndjson")
    with open(p, "w") as f:
        f.write(json.dumps(rec) + "\n")
    n = check_runner.validate_runs(res, prop, p, "replay", {"replay": (prog, cfg)})
    if n == 0:
        print("replay: no violation reproduced")
    return res.finish()


# ------------------------------------------------------------------ legal names
NAME_PROGRAMS = {
    # name -> (source with @B@ / @G@ where #[divan::bench] / #[divan::bench_group] go, written display paths
    #          as the `--list` tree names them: benchmarks and generic instances, not argument cases)
    "control": ("mod m {\n    @B@\n    pub fn alpha() {}\n    @B@\n    pub fn beta() {}\n}\n", ["m::alpha", "m::beta"]),
    "case_fns": ("mod m {\n    @B@\n    pub fn foo() {}\n    @B@\n    pub fn FOO() {}\n}\n", ["m::FOO", "m::foo"]),
    "case_bencher_fns": ("mod m {\n    @B@\n    pub fn run(b: divan::Bencher) { b.bench(|| 1) }\n    @B@\n"
                         "    pub fn Run(b: divan::Bencher) { b.bench(|| 2) }\n}\n", ["m::Run", "m::run"]),
    "fn_named_divan": ("@B@\npub fn divan() {}\n", ["divan"]),
    "sharp_s": ("mod m {\n    @B@\n    pub fn stra\u00dfe() {}\n    @B@\n    pub fn strasse() {}\n}\n",
                ["m::strasse", "m::stra\u00dfe"]),
    "case_groups": ("@G@\nmod grp {\n    @B@\n    pub fn a() {}\n}\n@G@\nmod GRP {\n    @B@\n    pub fn a() {}\n}\n",
                    ["GRP::a", "grp::a"]),
    "fn_named_divan_args": ("#[divan::bench(args = [1, 2])]\npub fn divan(x: i32) { let _ = x; }\n", ["divan"]),
    "fn_named_divan_bencher_args": ("#[divan::bench(args = [3])]\npub fn divan(b: divan::Bencher, x: i32) { b.bench(|| x) }\n", ["divan"]),
    "case_generic_fns": ("mod m {\n    #[divan::bench(types = [u8, u16])]\n    pub fn conv<T: Default>() { let _ = T::default(); }\n"
                         "    #[divan::bench(types = [u8])]\n    pub fn CONV<T: Default>() { let _ = T::default(); }\n}\n",
                         ["m::CONV::u8", "m::conv::u16", "m::conv::u8"]),
    "underscore_case": ("mod m {\n    @B@\n    pub fn ab_c() {}\n    @B@\n    pub fn AB_C() {}\n    @B@\n    pub fn aB_c() {}\n}\n",
                        ["m::AB_C", "m::aB_c", "m::ab_c"]),
}
NAME_HEAD = ("#![allow(non_snake_case, dead_code, unused, uncommon_codepoints, confusable_idents, "
             "mixed_script_confusables, non_upper_case_globals)]\nfn main() { divan::main(); }\n")


def names_level(res, tier, seed):
    """C12 quantifies over programs: every crate whose items are legal Rust
    (witness: it compiles with the attributes removed) must compile with the
    attributes and list exactly the written benchmarks.  Item names that
    differ only by case, by Unicode case folding, or that coincide with
    identifiers the macros introduce themselves are the generated shapes."""
    import progs
    d = os.path.join(mgen.MROOT, "c12names")
    os.makedirs(os.path.join(d, "src", "bin"), exist_ok=True)
    toml = ['[package]', 'name = "mgen-c12names"', 'version = "0.0.0"', 'edition = "2021"', 'publish = false',
            'autobins = false', '', '[dependencies]',
            'divan = { path = "%s", default-features = false, features = ["divan_verif"] }' % (V.REPO_OVERRIDE or "/repo"),
            '', '[workspace]', '', '[profile.dev]', 'opt-level = 0', 'debug = 0', 'incremental = false', '']
    for name, (src, _w) in NAME_PROGRAMS.items():
        for variant, b, g in (("a", "#[divan::bench]", "#[divan::bench_group]"), ("w", "", "")):
            text = NAME_HEAD + src.replace("@B@", b).replace("@G@", g)
            if variant == "w":      # attributes written with options are removed as whole lines
                text = "\n".join(l for l in text.split("\n") if not l.strip().startswith("#[divan::bench("))
            mgen._write_if_changed(os.path.join(d, "src", "bin", f"n_{name}_{variant}.rs"), text)
            toml += ['[[bin]]', f'name = "n_{name}_{variant}"', f'path = "src/bin/n_{name}_{variant}.rs"', '']
    mgen._write_if_changed(os.path.join(d, "Cargo.toml"), "\n".join(toml))
    mgen._write_if_changed(os.path.join(d, ".cargo", "config.toml"),
                           f'[net]\noffline = true\n\n[build]\ntarget-dir = "{mgen.TARGET}"\n')
    if not os.path.exists(os.path.join(d, "Cargo.lock")):
        import shutil
        shutil.copy(os.path.join(V.HARNESS, "Cargo.lock"), os.path.join(d, "Cargo.lock"))
    env = dict(os.environ)
    env["CARGO_NET_OFFLINE"] = "true"

    def build(binname):
        p = subprocess.run(["cargo", "build", "--offline", "--bin", binname], cwd=d, env=env,
                           stdout=subprocess.PIPE, stderr=subprocess.STDOUT, text=True)
        errs = [l for l in p.stdout.split("\n") if l.startswith("error")]
        return p.returncode == 0, errs[:4]

    recs = []
    by_name = {}
    for name, (src, written) in NAME_PROGRAMS.items():
        legal, werrs = build(f"n_{name}_w")
        if not legal:
            raise V.ToolError(f"names level: {name} is not legal Rust without the attributes: {werrs}")
        ok, errs = build(f"n_{name}_a")
        listed = []
        if ok:
            p = subprocess.run([os.path.join(mgen.TARGET, "debug", f"n_{name}_a"), "--list"],
                               env={k: v for k, v in env.items() if not k.startswith("DIVAN_") and k != "NEXTEST"},
                               stdout=subprocess.PIPE, stderr=subprocess.PIPE, timeout=60)
            stack = []
            rows = [r for r in progs.lex_stdout(p.stdout.decode("utf-8", "replace"), False) if r["t"] == "row"]
            for i, r in enumerate(rows):
                depth = len(r["prefix"]) + (0 if r["branch"] == "none" else 1)
                stack = stack[:depth] + [r["name"]]
                nxt = rows[i + 1] if i + 1 < len(rows) else None
                nd = (len(nxt["prefix"]) + (0 if nxt["branch"] == "none" else 1)) if nxt else 0
                if depth >= 1 and nd <= depth:      # a leaf
                    listed.append("::".join(stack[1:]))
        rec = {"seq": 0, "tid": -1, "ev": "compile", "id": f"C12-names-{name}", "legal": True, "compiled": ok,
               "written": [progs.cp(x) for x in sorted(written)], "listed": [progs.cp(x) for x in sorted(listed)],
               "errors": errs, "source": NAME_HEAD + src.replace("@B@", "#[divan::bench]").replace("@G@", "#[divan::bench_group]")}
        recs.append(rec)
        by_name[rec["id"]] = ({"source": rec["source"], "errors": errs}, {"action": "compile + --list"})
    path = os.path.join(V.WORK, "C12.names.ndjson")
    with open(path, "w") as f:
        for r in recs:
            f.write(json.dumps(r) + "\n")
    res.extra["legal_name_programs"] = {r["id"]: {"compiled": r["compiled"], "listed": len(r["listed"])} for r in recs}
    check_runner.validate_runs(res, "C12", path, "macro:legal-item-names", by_name)
    # negative control: a program reported as not compiling must be flagged
    bad = dict(recs[0], compiled=False, id="C12-names-negctl")
    npath = os.path.join(V.WORK, "C12.names.negctl.ndjson")
    with open(npath, "w") as f:
        f.write(json.dumps(bad) + "\n")
    r = V.tlc_trace("RunnerTrace", "RunnerTrace_C12", npath)
    if r["accepted"] or "C12:program_of_legal_items" not in r["out"]:
        raise V.ToolError("names level: negative control not reported")
