"""C03 / C04 / C19: the round loop (Loop.tla, LoopTrace.tla, MC_Loop)."""
import json
import os
import random

import benchgen as G
import vcheck as V

KEEP = {"reset", "bench_call", "precision_begin", "precision_end", "ts",
        "initial_start", "overheads_measured", "loop_begin", "call", "count", "tally_snapshot", "round_end",
        "test_break", "user_panic", "bench_return", "report", "report_failed",
        "sched_end"}


def loop_base(rnd, sid, threads=None, action="bench"):
    sc = G.base(rnd, sid, entry=rnd.choice(G.ENTRIES), threads=threads or rnd.choice([1, 1, 2, 3]),
                action=action)
    sc["alloc_script"] = {}
    sc["input_counters"] = []
    sc["clock"]["overheads"] = [0, 0, 0, 0]
    # min_time with a cheap function takes thousands of rounds
    sc["step_bound"] = 600000
    return sc


def gen_scenarios(prop, tier, seed):
    rnd = random.Random(seed * 6151 + {"C03": 1, "C04": 2, "C19": 3}[prop])
    scs = []
    big = tier != "quick"
    if prop == "C03":
        # every (n, s, T) of a grid, bench and test mode, no time limits
        ns = range(0, 7) if not big else list(range(0, 16)) + [20, 33]
        ss = [None, 0, 1, 2, 3]
        ts = [1, 2, 3, 4] if not big else [1, 2, 3, 4, 5, 7, 9, 16]
        k = 0
        for n in ns:
            for s in ss:
                for t in ts:
                    if s is None and rnd.random() < 0.6:
                        continue
                    for action in (("bench",) if rnd.random() < 0.7 else ("bench", "test")):
                        sc = loop_base(rnd, f"g{k}", threads=t, action=action)
                        sc["options"] = {"sample_count": n}
                        if s is not None:
                            sc["options"]["sample_size"] = s
                        else:
                            sc["clock"]["precision"] = 1
                            sc["costs"]["call"] = rnd.choice([60, 150])
                        scs.append(sc)
                        k += 1
        # attr_options::iter_count's three combinations, default sample_count
        for j, (n, s) in enumerate([(None, 1), (100, None), (3, 2)]):
            sc = loop_base(rnd, f"repo-iter-count-{j}", threads=1)
            sc["options"] = {}
            if n is not None:
                sc["options"]["sample_count"] = n
            if s is not None:
                sc["options"]["sample_size"] = s
            else:
                sc["clock"]["precision"] = 1
                sc["costs"]["call"] = 200
            scs.append(sc)
        # zero budget
        for j in range(6):
            sc = loop_base(rnd, f"z{j}", action=rnd.choice(["bench", "test"]))
            sc["options"] = {"sample_count": rnd.randint(1, 3), "sample_size": rnd.randint(1, 2), "max_time_ns": 0}
            scs.append(sc)
    n_rand = {"C03": 300, "C04": 1500, "C19": 400}[prop] * (30 if big else 1)
    for j in range(n_rand):
        sc = loop_base(rnd, f"t{j}", action="bench" if rnd.random() < 0.9 else "test")
        o = {"sample_count": rnd.choice([0, 1, 2, 3, 5, 8])}
        if rnd.random() < 0.7:
            o["sample_size"] = rnd.choice([0, 1, 1, 2, 3])
        else:
            sc["clock"]["precision"] = rnd.choice([1, 5, 10])
            sc["costs"]["call"] = rnd.choice([20, 60, 150, 700, 3000])
        if rnd.random() < 0.6:
            o["min_time_ns"] = rnd.choice([0, 1, 2, 5, 20, 60])
        if rnd.random() < 0.7:
            o["max_time_ns"] = rnd.choice([0, 1, 2, 3, 10, 40, 100])
        elif rnd.random() < 0.2:
            o["max_time_max"] = True
        if rnd.random() < 0.5:
            o["skip_ext_time"] = rnd.random() < 0.7
        sc["options"] = o
        # the first benchmark of a process also pays for divan's one-off self-measurement
        if rnd.random() < 0.3:
            sc["clock"]["overhead_measure_cost"] = rnd.choice([1, 40, 5000])
        sc["costs"]["gen"] = rnd.choice([0, 50, 900, 4000])
        sc["costs"]["drop_out"] = rnd.choice([0, 30, 2000])
        sc["costs"]["call"] = sc["costs"].get("call") if "sample_size" not in o else rnd.choice([0, 1, 100, 900, 2500])
        sc["costs"]["call_inc"] = rnd.choice([0, 0, 1, 50])
        sc["costs"]["call_noise"] = rnd.choice([[], [], [0, 300, 10], [5, 0, 0, 2000]])
        if rnd.random() < 0.3:
            sc["clock"]["overheads"] = [rnd.choice([0, 1, 3]), rnd.choice([0, 2]), rnd.choice([0, 2]), rnd.choice([0, 5])]
            sc["alloc_script"] = {"call": G.rand_ops(rnd, 2)}
        # a time floor is only ever reached if the (virtual) clock advances: keep the
        # number of rounds needed for min_time in the hundreds
        if o.get("min_time_ns", 0) > 0 and not o.get("skip_ext_time", False):
            if (sc["costs"]["call"] or 0) < 100:
                sc["costs"]["call"] = rnd.choice([100, 900])
            sc["clock"]["read_step"] = max(sc["clock"]["read_step"], 1)
        scs.append(sc)
    if prop == "C19":
        # tuning from far below to far above the precision; constant, growing, noisy costs
        k = 0
        for prec in (1, 5, 10, 50):
            for cost in (1, 3, 20, 99, 100, 101, 501, 5000, 20000):
                for t in (1, 2, 3):
                    if cost * 1 < prec and cost < 3 and prec >= 10 and tier == "quick":
                        continue
                    sc = loop_base(rnd, f"u{k}", threads=t)
                    sc["options"] = {"sample_count": rnd.choice([1, 2, 3, 4])}
                    sc["clock"]["precision"] = prec
                    sc["clock"]["read_step"] = rnd.choice([0, 1])
                    sc["costs"]["call"] = cost
                    sc["costs"]["call_inc"] = rnd.choice([0, 0, 1])
                    sc["costs"]["call_noise"] = rnd.choice([[], [0, 7, 1], [0, 0, 400]])
                    if rnd.random() < 0.3:
                        sc["options"]["max_time_ns"] = rnd.choice([1, 5, 30])
                    if rnd.random() < 0.3:
                        sc["options"]["skip_ext_time"] = True
                    if rnd.random() < 0.4:
                        sc["alloc_script"] = {"call": G.rand_ops(rnd, 2)}
                        sc["input_counters"] = [3] if sc["entry"] not in ("bench", "bench_local") else []
                    elif rnd.random() < 0.5:
                        # allocations only in the first calls of a thread (lazy initialisation):
                        # they belong to tuning rounds that get discarded
                        sc["alloc_script"] = {"call": [{"op": "alloc", "size": rnd.choice([8, 64])}],
                                              "call_until": rnd.choice([1, 1, 2, 3])}
                    scs.append(sc)
                    k += 1
    return scs


def make_replay(lines, start, end, line_no, r):
    reset = lines[start]
    sc = dict(reset.get("scenario", {}))
    sc["schedule"] = {"source": "replay", "tids": reset.get("tids", [])}
    return {"kind": "bench-trace", "scenario": sc, "invariant": r.get("violated"),
            "failing_event": lines[line_no - 1] if 0 < line_no <= len(lines) else None,
            "trace": [x for x in lines[start:end] if x.get("ev") != "call"][:400]}


def negative_control(res, prop, proj):
    lines = V.read_trace(proj)
    resets = [i for i, x in enumerate(lines) if x.get("ev") == "reset"] + [len(lines)]

    def pick(pred):
        for a, b in zip(resets, resets[1:]):
            run = lines[a:b]
            for i, x in enumerate(run):
                if pred(x):
                    return [json.loads(json.dumps(y)) for y in run], i
        raise V.ToolError("negative control: no suitable run")

    if prop == "C03":
        run, i = pick(lambda x: x.get("ev") == "round_end" and x.get("mode") == "collect" and x.get("rem", -1) >= 0)
        run[i]["rem"] += 1
    elif prop == "C04":
        run, i = pick(lambda x: x.get("ev") == "round_end" and x.get("elapsed", 0) > 0)
        run[i]["elapsed"] += 1
    else:
        run, i = pick(lambda x: x.get("ev") == "round_end" and x.get("mode") == "tune")
        run[i]["size"] *= 2
    p = os.path.join(V.WORK, f"{prop}.negctl.ndjson")
    with open(p, "w") as f:
        for x in run:
            f.write(json.dumps(x) + "\n")
    r = V.tlc_trace("LoopTrace", f"LoopTrace_{prop}", p)
    res.extra["negative_control"] = {"expected": f"{prop}Holds", "got": r.get("violated"), "rules": V.bad_rules(r["out"])}
    if r.get("violated") != f"{prop}Holds":
        raise V.ToolError(f"negative control not caught: {r.get('violated')}")


def run(prop, tier, seed):
    res = V.Result(prop, tier, seed)
    res.assumptions = [
        "virtual timestamp counter at 10^12 Hz (1 tick = 1 ps), all times below 2^31 ps; Duration::MAX-like limits are the symbol Huge",
        "timer precision and measurement overheads are scripted per scenario (their measurement is covered by C11)",
        "one managed thread runs at a time (sequentially consistent executions)",
    ]
    r = V.tlc_mc("MC_Loop", "Loop_q" if tier == "quick" else "Loop_t", workers=8, timeout=3000)
    res.add_mc("Loop_q" if tier == "quick" else "Loop_t", r)
    if not r.get("ok"):
        raise V.ToolError(f"MC_Loop: {r.get('violated') or r.get('error')}")

    scs = gen_scenarios(prop, tier, seed)
    trace_path, summary = V.run_driver(scs, f"{prop}.impl")
    res.extra["driver"] = summary
    proj, n = V.project(trace_path, KEEP)
    lines = V.read_trace(proj)
    res.samples = [{"scenario": scs[len(scs) // 2]},
                   {"events": [x for x in lines if x.get("ev") in ("loop_begin", "round_end")][:6]}]
    V.validate_monitor(res, prop, "LoopTrace", f"LoopTrace_{prop}", proj, "impl->spec", make_replay)
    bad = {k: v for k, v in summary.get("outcomes", {}).items()
           if k in ("step_bound", "wall_timeout", "replay_diverged", "crashed", "hung", "deadlock")}
    if bad and not res.violations:
        raise V.ToolError(f"driver outcomes without a verdict: {bad}")
    if not res.violations:
        negative_control(res, prop, proj)
    return res.finish()


def replay(prop, path):
    obj = json.load(open(path))
    res = V.Result(prop, "quick", 0)
    trace_path, summary = V.run_driver([obj["scenario"]], f"{prop}.replay")
    proj, _ = V.project(trace_path, KEEP)
    n = V.validate_monitor(res, prop, "LoopTrace", f"LoopTrace_{prop}", proj, "replay", make_replay)
    if n == 0:
        print("replay: no violation reproduced")
    return res.finish()
