"""Generator of bench scenarios (shared by the sample-loop, round-loop and
statistics checks)."""
import random

ENTRIES = ["bench", "bench_local", "bench_values", "bench_local_values",
           "bench_refs", "bench_local_refs"]
SHAPES = ["zst", "zst_drop", "sized", "sized_drop"]

OPS = [
    {"op": "alloc", "size": 8}, {"op": "alloc", "size": 0}, {"op": "alloc_zeroed", "size": 24},
    {"op": "dealloc", "size": 8}, {"op": "dealloc", "size": 100},
    {"op": "realloc", "size": 8, "new": 32}, {"op": "realloc", "size": 32, "new": 4},
    {"op": "realloc", "size": 16, "new": 0}, {"op": "alloc", "size": 1000},
]


def rand_ops(rnd, maxlen=3):
    return [dict(rnd.choice(OPS)) for _ in range(rnd.randint(0, maxlen))]


def rand_alloc_script(rnd, heavy=False):
    if not heavy and rnd.random() < 0.4:
        return {}
    return {site: rand_ops(rnd) for site in ("gen", "count", "call", "drop_out", "drop_in")
            if rnd.random() < 0.7}


def rand_schedule(rnd):
    return {"source": "random", "seed": rnd.randrange(1 << 30),
            "switch": rnd.choice([0, 100, 300, 600, 1000])}


def base(rnd, sid, entry=None, in_shape=None, out_shape=None, threads=None,
         action=None):
    entry = entry or rnd.choice(ENTRIES)
    has_inputs = entry not in ("bench", "bench_local")
    sc = {
        "kind": "bench", "id": sid, "entry": entry,
        "in_shape": in_shape or rnd.choice(SHAPES),
        "out_shape": out_shape or rnd.choice(SHAPES),
        "action": action or rnd.choice(["bench", "bench", "bench", "test"]),
        "threads": threads or rnd.choice([1, 1, 2, 2, 3]),
        "options": {},
        "clock": {"start": 1000, "read_step": rnd.choice([0, 1, 3]),
                  "precision": rnd.choice([1, 5, 10]),
                  "overheads": [0, 0, 0, 0]},
        "costs": {"gen": rnd.choice([0, 5, 40]), "count": rnd.choice([0, 2]),
                  "call": rnd.choice([1, 10, 100, 700]),
                  "call_per_tid": [0, rnd.choice([0, 3, 50]), rnd.choice([0, 7])],
                  "call_inc": rnd.choice([0, 0, 1]),
                  "drop_out": rnd.choice([0, 3, 30]), "drop_in": rnd.choice([0, 2, 20])},
        "input_counters": sorted(rnd.sample([0, 1, 2, 3], rnd.choice([0, 0, 1, 2]))) if has_inputs else [],
        "alloc_script": rand_alloc_script(rnd),
        "panic": {"where": "none", "tid": -1, "nth": 0},
        "schedule": rand_schedule(rnd),
    }
    return sc


def fixed_size(rnd, sc, max_n=3, max_s=3):
    sc["options"]["sample_count"] = rnd.randint(0, max_n)
    sc["options"]["sample_size"] = rnd.randint(0, max_s)
    return sc


def matrix_scenarios(rnd, per_cell=1, threads_choices=(1, 2, 3)):
    """Every entry point x input shape x output shape."""
    out = []
    k = 0
    for entry in ENTRIES:
        ins = SHAPES if entry not in ("bench", "bench_local") else ["zst"]
        for i in ins:
            for o in SHAPES:
                for _ in range(per_cell):
                    sc = base(rnd, f"m{k}", entry, i, o, threads=rnd.choice(threads_choices))
                    if rnd.random() < 0.8:
                        fixed_size(rnd, sc)
                        if sc["options"]["sample_count"] == 0 and rnd.random() < 0.7:
                            sc["options"]["sample_count"] = 2
                        if sc["options"]["sample_size"] == 0 and rnd.random() < 0.7:
                            sc["options"]["sample_size"] = 2
                    else:
                        # tuned sample size: make the threshold reachable fast
                        sc["options"]["sample_count"] = rnd.randint(1, 3)
                        sc["clock"]["precision"] = 1
                        sc["costs"]["call"] = rnd.choice([30, 60, 150])
                    out.append(sc)
                    k += 1
    return out


def panic_scenarios(rnd, n, single_thread_only):
    out = []
    for k in range(n):
        sc = base(rnd, f"p{k}", entry=rnd.choice(ENTRIES[2:] if rnd.random() < 0.7 else ENTRIES))
        sc["options"] = {"sample_count": rnd.randint(1, 3), "sample_size": rnd.randint(1, 3)}
        sc["action"] = rnd.choice(["bench", "test"])
        if single_thread_only:
            sc["threads"] = 1
        has_inputs = sc["entry"] not in ("bench", "bench_local")
        where = rnd.choice(["gen", "call", "call"] if has_inputs else ["call"])
        local = "local" in sc["entry"]
        t = sc["threads"] if not local else 1
        sc["panic"] = {"where": where, "tid": rnd.randrange(t), "nth": rnd.randint(0, 3)}
        out.append(sc)
    return out
