"""Back-end R: generation of benchmark programs, execution through
harness/runprog, and lexing of what divan printed into records.

Python never judges: it renders the abstract program to the JSON runprog
registers, renders a configuration to argv / environment / builder calls,
and splits stdout lines into (prefix glyph groups, branch glyph, name, cells).
"""
import json
import os
import random
import subprocess

import vcheck as V

RUNPROG = os.path.join(V.TARGET, "debug", "runprog")

BAR, BLANK = "│  ", "   "
TEE, CORNER = "├─ ", "╰─ "


def cp(s):
    return [ord(c) for c in s]


KIND_KEYS = ["bytes", "chars", "cycles", "items"]


def opts_record(o):
    """Options as the record Options.tla expects: every key, [] = unset, [v] = set."""
    o = o or {}
    r = {k: [] for k in ["sample_count", "sample_size", "threads", "min_time", "max_time",
                         "skip_ext_time", "ignore"] + KIND_KEYS}
    for k in ("sample_count", "sample_size", "skip_ext_time", "ignore"):
        if k in o:
            r[k] = [o[k]]
    if "threads" in o:
        r["threads"] = [list(o["threads"])]
    if "min_time_ns" in o:
        r["min_time"] = [o["min_time_ns"] * 1000]
    if "max_time_ns" in o:
        r["max_time"] = [o["max_time_ns"] * 1000]
    for kind, v in o.get("counters", []):
        r[KIND_KEYS[kind]] = [v]
    return r


# ------------------------------------------------------------------ programs

NAMES = ["f", "g", "add", "sub", "a1", "a01", "a10", "a2", "b", "z9", "r#fn", "r#mod", "x_y", "Zeta",
         "é", "名前", "f10", "f2", "f1", "k"]
MODS = ["m", "n", "m2", "m10", "r#mod", "util", "deep", "a", "b"]
FILES = ["src/a.rs", "src/b.rs", "src/lib.rs", "benches/x.rs"]
INT_ARGS = [["1", "2", "3"], ["10", "2", "33", "1", "-5"], ["0", "12", "7"], ["5"], [],
            ["100", "20", "3"], ["-1", "-10", "2"], ["9", "10", "11", "8"]]
STR_ARGS = [["a", "b"], ["x10", "x2", "x1"], ["foo", "Bar", "baz"], ["1.5", "0.25", "10"], ["é", "e", "z"],
            ["a b", "c"], []]
TYPE_DISPLAY = ["T0", "T1", "T2", "T3", "Vec<verif_runprog::T0>", "u8", "Option<verif_runprog::deep::T2>", "String"]


def strip_raw(s):
    return s[2:] if s.startswith("r#") else s


def rand_opts(rnd, p_each=0.35, allow_zero=False, with_threads=True):
    o = {}
    if rnd.random() < p_each:
        o["sample_count"] = rnd.choice([1, 2, 3, 4] + ([0] if allow_zero else []))
    if rnd.random() < p_each:
        o["sample_size"] = rnd.choice([1, 2, 3] + ([0] if allow_zero else []))
    if with_threads and rnd.random() < p_each * 0.6:
        # 0 stands for the available parallelism P: lists that name it twice (0 and P), put it
        # before smaller counts, or repeat it must collapse and sort after the substitution
        P = parallelism()
        o["threads"] = rnd.choice([[1], [2], [1, 2], [2, 1, 2], [0], [3, 1], [1, 1],
                                   [0, 1], [0, P], [P, 0, 2], [0, 0], [P, 1, P]])
    if rnd.random() < p_each * 0.4:
        o["min_time_ns"] = rnd.choice([0, 1, 2])
    if rnd.random() < p_each * 0.4:
        o["max_time_ns"] = rnd.choice([50, 100, 1000])
    if rnd.random() < p_each * 0.4:
        o["skip_ext_time"] = rnd.random() < 0.5
    if rnd.random() < p_each * 0.6:
        o["ignore"] = rnd.random() < 0.6
    if rnd.random() < p_each * 0.6:
        o["counters"] = [[k, rnd.randint(1, 5000)] for k in sorted(rnd.sample(range(4), rnd.choice([1, 1, 2])))]
    return o


def gen_program(rnd, pid, size=None, roots=1, generic=True, args=True, ensure_counts=True,
                unique_locations=True):
    """An abstract program: modules, groups, benches, generic instances."""
    crates = ["prog"] if roots == 1 else ["prog", "other"]
    # module tree
    mod_paths = [[c] for c in crates]
    for _ in range(rnd.randint(0, 4)):
        parent = rnd.choice(mod_paths)
        if len(parent) < 4:
            name = rnd.choice(MODS)
            cand = parent + [name]
            # raw names that only differ by r# would collide in display; keep raw-unique and display-unique
            if all(strip_raw(name) != strip_raw(p[-1]) or p[:-1] != parent for p in mod_paths):
                mod_paths.append(cand)
    benches, groups, ginst = [], [], []
    line = [1]

    def loc():
        line[0] += rnd.randint(1, 9)
        return {"file": rnd.choice(FILES) if rnd.random() < 0.4 else "src/a.rs", "line": line[0], "col": rnd.choice([1, 1, 5, 9])}

    used = {}   # parent path tuple -> set of display names / raw names used
    def fresh_name(path):
        u = used.setdefault(tuple(path), set(strip_raw(p[-1]) for p in mod_paths if p[:-1] == path))
        for _ in range(50):
            n = rnd.choice(NAMES)
            if strip_raw(n) not in u:
                u.add(strip_raw(n))
                return n
        n = f"uniq{len(u)}"
        u.add(n)
        return n

    nb = size or rnd.randint(1, 7)
    for _ in range(nb):
        path = rnd.choice(mod_paths)
        raw = fresh_name(path)
        b = {"mods": path, "raw": raw, "name": strip_raw(raw), **loc(), "kind": "plain",
             "opts": rand_opts(rnd), "cost": rnd.choice([100, 500, 1000, 3000]),
             "cost_var": rnd.choice([0, 3, 17, 250])}
        # allocator activity inside the benchmarked function (AllocProfiler is the process allocator)
        if rnd.random() < 0.3:
            b_alloc = {"alloc_blocks": [rnd.choice([1, 8, 64, 1000, 4096]) for _ in range(rnd.randint(1, 4))]}
            if rnd.random() < 0.4:
                b_alloc["free_input"] = rnd.choice([16, 1000, 100000])
        else:
            b_alloc = {}
        b.update(b_alloc)
        if rnd.random() < 0.2:
            custom = rnd.choice(["Custom", "my bench", "α", "n1"])
            if custom not in used[tuple(path)]:
                used[tuple(path)].add(custom)
                b["name"] = custom
        b["has_opts"] = bool(b["opts"]) or rnd.random() < 0.5
        if args and rnd.random() < 0.35:
            b["kind"] = "args"
            if rnd.random() < 0.6:
                b["arg_kind"], b["args"] = "int", list(rnd.choice(INT_ARGS))
            else:
                b["arg_kind"], b["args"] = "str", list(rnd.choice(STR_ARGS))
        if rnd.random() < 0.15:
            b["bencher_counter"] = [rnd.randrange(4), rnd.randint(1, 999)]
        benches.append(b)
    # groups for some module paths (bench_group on a module)
    for path in mod_paths:
        if len(path) >= 2 and rnd.random() < 0.6:
            raw = path[-1]
            g = {"mods": path[:-1], "raw": raw, "name": strip_raw(raw), **loc(), "opts": rand_opts(rnd, 0.4)}
            if rnd.random() < 0.3:
                custom = rnd.choice(["Group One", "G", "grp"])
                sib = used.setdefault(tuple(path[:-1]), set(strip_raw(p[-1]) for p in mod_paths if p[:-1] == path[:-1]))
                if custom not in sib:
                    sib.add(custom)
                    g["name"] = custom
            g["has_opts"] = True
            groups.append(g)
    # a group whose module holds no benchmark at all (must not appear)
    if rnd.random() < 0.3:
        groups.append({"mods": [crates[0]], "raw": "empty_mod", "name": "empty_mod", **loc(), "opts": {}, "has_opts": True})
    # generic benchmarks: a group named after the function with instances below
    if generic and rnd.random() < 0.6:
        for _ in range(rnd.choice([1, 1, 2])):
            path = rnd.choice(mod_paths)
            raw = fresh_name(path)
            g = {"mods": path, "raw": raw, "name": strip_raw(raw), **loc(), "opts": rand_opts(rnd, 0.4),
                 "has_opts": True}
            if rnd.random() < 0.35:
                # #[divan::bench(name = "...", types = [...])]: the instances live below the display name
                g["name"] = rnd.choice(["Generic ", "renamed_", "zz "]) + strip_raw(raw)
            types = rnd.choice([None, [0, 1], [2, 0], [1], [3, 2, 0], []])
            consts = rnd.choice([None, [3, 1, 2], [10, 9, 100], [-1, 5], [7], []])
            if types is None and consts is None:
                types = [0, 1]
            kind = "args" if args and rnd.random() < 0.3 else "plain"
            gen = {"kind": kind, "rows": []}
            if kind == "args":
                gen["arg_kind"], gen["args"] = "int", list(rnd.choice(INT_ARGS))
            gi0 = len(ginst)
            if consts is None:
                row = []
                for t in types:
                    ginst.append({"group": len(groups), "type": t, "cost": rnd.choice([100, 700]), "cost_var": rnd.choice([0, 9])})
                    row.append(len(ginst) - 1)
                gen["rows"].append(row)
            else:
                for t in (types if types is not None else [None]):
                    row = []
                    for c in consts:
                        gi = {"group": len(groups), "const": c, "cost": rnd.choice([100, 700])}
                        if t is not None:
                            gi["type"] = t
                        ginst.append(gi)
                        row.append(len(ginst) - 1)
                    gen["rows"].append(row)
            g["generic"] = gen
            groups.append(g)
    if ensure_counts:
        # every benchmark gets an effective sample_count / sample_size from SOME level
        # (its own attribute, an enclosing group, or - see configs - the runner)
        pass
    push = [["b", i] for i in range(len(benches))] + [["g", i] for i in range(len(groups))]
    rnd.shuffle(push)
    prog = {"id": pid, "crate": crates[0], "clock": {"start": 1000, "read_step": rnd.choice([0, 1]), "precision": 1},
            "benches": benches, "groups": groups, "ginst": ginst, "push": push, "builder": [], "entry": "main"}
    return prog


def forests(max_depth, max_fan):
    """All forests Painter.tla's MC instance explores (a tree is a list of
    subtrees, [] is a leaf); roots are crates and therefore parents."""
    def trees(d):
        if d == 0:
            return [[]]
        sub = trees(d - 1)
        out = [[]]
        import itertools
        for k in range(1, max_fan + 1):
            out += [list(c) for c in itertools.product(sub, repeat=k)]
        return out
    one = [[t] for t in trees(max_depth) if t]
    two = [[a, b] for a in trees(max_depth - 1) if a for b in trees(max_depth - 1) if b]
    return one + two


def program_from_shape(forest, pid):
    """A program whose module tree has exactly this shape: parents are
    modules, leaves are plain benchmarks; names sort in child order."""
    benches = []
    line = [0]

    def walk(nodes, mods):
        for i, sub in enumerate(nodes):
            name = f"n{i + 1}"
            if sub == []:
                line[0] += 3
                benches.append({"mods": mods, "raw": name, "name": name, "file": "src/a.rs", "line": line[0],
                                "col": 1, "kind": "plain", "opts": {"sample_count": 1, "sample_size": 1},
                                "has_opts": True, "cost": 100})
                # every third benchmark runs with two thread counts: `t=N` rows one level
                # below short names (the widest labels of such a tree)
                if len(benches) % 3 == 2:
                    benches[-1]["opts"]["threads"] = [1, 2] if len(benches) % 2 else [0, 1]
            else:
                walk(sub, mods + [name])
    for r, tree in enumerate(forest):
        walk(tree, [f"crate{r + 1}"])
    return {"id": pid, "crate": "crate1", "clock": {"start": 1000, "read_step": 0, "precision": 1},
            "benches": benches, "groups": [], "ginst": [],
            "push": [["b", i] for i in range(len(benches))], "builder": [], "entry": "main"}


def render_program(prog):
    """The JSON runprog reads (strings) + the code-point mirror the spec reads."""
    def entry(e, is_group=False):
        r = dict(e)
        r["module_path"] = "::".join(e["mods"])
        r["mods_cp"] = [cp(m) for m in e["mods"]]
        r["raw_cp"] = cp(e["raw"])
        r["name_cp"] = cp(e["name"])
        r["file_cp"] = cp(e["file"])
        r["opts_rec"] = opts_record(e.get("opts") if e.get("has_opts") else {})
        if "args" in e:
            r["args_cp"] = [cp(a) for a in e["args"]]
        if is_group:
            r["is_generic"] = "generic" in e
            if "generic" in e and "args" in e["generic"]:
                r["generic"] = dict(e["generic"])
                r["generic"]["args_cp"] = [cp(a) for a in e["generic"]["args"]]
        if "bencher_counter" in e:
            r["has_bencher_counter"] = True
        else:
            r["has_bencher_counter"] = False
            r["bencher_counter"] = []
        if not is_group:
            r["is_args"] = e.get("kind") == "args"
            if "args" not in e:
                r["args"] = []
                r["args_cp"] = []
        return r
    out = dict(prog)
    out["benches"] = [entry(b) for b in prog["benches"]]
    out["groups"] = [entry(g, True) for g in prog["groups"]]
    gi_out = []
    for gi in prog["ginst"]:
        r = dict(gi)
        r["has_type"] = "type" in gi
        r["has_const"] = "const" in gi
        r["type_cp"] = cp(TYPE_DISPLAY[gi["type"]]) if "type" in gi else []
        r["const_cp"] = cp(str(gi["const"])) if "const" in gi else []
        if "const" not in gi:
            r["const"] = 0
        if "type" not in gi:
            r["type_idx"] = -1
        else:
            r["type_idx"] = gi["type"]
        r["has_bencher_counter"] = False
        r["bencher_counter"] = []
        gi_out.append(r)
    out["ginst"] = gi_out
    return out


# ------------------------------------------------------------ configurations

def gen_config(rnd, prog, action=None, paths=None, nf=None):
    """A configuration: action, sort, ignore mode, filters, runner-level options
    and HOW each is set (CLI flag, DIVAN_* variable, builder call)."""
    action = action or rnd.choice(["bench", "bench", "test", "list", "list_terse"])
    cfg = {"action": action, "sort": "kind", "reverse": False, "run_ignored": "no", "filters": [],
           "argv": [], "env": {}, "builder": [], "entry": "main",
           "src_after": {}, "src_cli": {}, "src_env": {}, "src_before": {}}
    argv = cfg["argv"]
    # the public entry points that fix the action themselves
    if action in ("bench", "test", "list") and rnd.random() < 0.2:
        cfg["entry"] = {"bench": "run_benches", "test": "test_benches", "list": "list_benches"}[action]
        if rnd.random() < 0.5:
            argv.append(rnd.choice(["--bench", "--test", "--list"]))
    elif action == "bench":
        argv.append("--bench")
    elif action == "test":
        if rnd.random() < 0.5:
            argv.append("--test")
    elif action == "list":
        argv.append("--list")
    else:
        argv += ["--list", "--format", "terse"]
        cfg["env"]["NEXTEST"] = "1"
    argv += ["--timer", "tsc"] if rnd.random() < 0.7 else []
    if rnd.random() < 0.5:
        cfg["env"]["DIVAN_TIMER"] = "tsc"
    if "--timer" not in argv and "DIVAN_TIMER" not in cfg["env"]:
        argv += ["--timer", "tsc"]
    # sort
    if rnd.random() < 0.7:
        attr = rnd.choice(["kind", "name", "location"])
        rev = rnd.random() < 0.4
        cfg["sort"], cfg["reverse"] = attr, rev
        how = rnd.choice(["cli", "env"])
        if how == "cli":
            argv += ["--sortr" if rev else "--sort", attr]
        else:
            cfg["env"]["DIVAN_SORTR" if rev else "DIVAN_SORT"] = attr
    # ignore flags
    r = rnd.random()
    if r < 0.2:
        cfg["run_ignored"] = "yes"
        if rnd.random() < 0.7:
            argv.append("--include-ignored")
        else:
            cfg["builder"].append(["run_ignored", True, "before"])
    elif r < 0.35:
        cfg["run_ignored"] = "only"
        if rnd.random() < 0.7:
            argv.append("--ignored")
        else:
            cfg["builder"].append(["run_only_ignored", True, "before"])
    # runner-level options
    def put(src, key, val):
        cfg[src][key] = val
    ro = rand_opts(rnd, 0.25, with_threads=True)
    ro.pop("ignore", None)
    for key, val in ro.items():
        how = rnd.choice(["cli", "env", "before", "after"]) if key != "counters" else rnd.choice(["cli", "env", "after"])
        flag = {"sample_count": "sample-count", "sample_size": "sample-size", "threads": "threads",
                "min_time_ns": "min-time", "max_time_ns": "max-time", "skip_ext_time": "skip-ext-time"}.get(key)
        if key == "counters":
            val = val[:1]
            kind, v = val[0]
            name = ["bytes", "chars", "cycles", "items"][kind]
            if how == "cli":
                argv += [f"--{name}-count", str(v)]
            elif how == "env":
                cfg["env"][f"DIVAN_{name.upper()}_COUNT"] = str(v)
            else:
                cfg["builder"].append([f"{name}_count", v, "after"])
            put({"cli": "src_cli", "env": "src_env", "after": "src_after"}[how], "counters", val)
            continue
        if key in ("min_time_ns", "max_time_ns"):
            text = f"{val / 1e9:.9f}"
        elif key == "threads":
            text = ",".join(str(x) for x in val)
        elif key == "skip_ext_time":
            text = "true" if val else "false"
        else:
            text = str(val)
        if how == "cli":
            argv += [f"--{flag}", text]
            put("src_cli", key, val)
        elif how == "env":
            cfg["env"]["DIVAN_" + flag.upper().replace("-", "_")] = text
            put("src_env", key, val)
        else:
            cfg["builder"].append([key, val, how])
            put("src_after" if how == "after" else "src_before", key, val)
    # filters
    paths = paths or []
    nf = rnd.choice([0, 0, 0, 1, 1, 2, 3]) if nf is None else nf
    exact = rnd.random() < 0.3
    if exact and nf:
        argv.append("--exact")
    for _ in range(nf):
        inclusive = rnd.random() < 0.65
        if paths and rnd.random() < 0.8:
            base = rnd.choice(paths)
        else:
            base = "nomatch"
        if base.startswith("-"):
            base = "nomatch"
        if exact:
            text = base if rnd.random() < 0.7 else base + "x"
            f = {"inclusive": inclusive, "kind": "exact", "text": text, "text_cp": cp(text), "ast": {"alts": []}}
        else:
            text, ast = regex_from(rnd, base)
            f = {"inclusive": inclusive, "kind": "regex", "text": text, "text_cp": cp(text), "ast": ast}
        cfg["filters"].append(f)
        if inclusive:
            argv.append(text)
        else:
            argv += ["--skip", text]
    return cfg


def add_filter(cfg, inclusive, kind, text, ast=None):
    """Appends one filter to a configuration (and its command line)."""
    if kind == "regex" and ast is None:
        ast = {"alts": [[{"t": "lit", "cp": cp(text)}]]}
    cfg["filters"].append({"inclusive": inclusive, "kind": kind, "text": text, "text_cp": cp(text),
                           "ast": ast if kind == "regex" else {"alts": []}})
    cfg["argv"] += [text] if inclusive else ["--skip", text]


SAFE = set("abcdefghijklmnopqrstuvwxyzABCDEFGHIJKLMNOPQRSTUVWXYZ0123456789:_ <>-")


def regex_from(rnd, base):
    """A pattern of the subset Filters.tla gives semantics to, with its AST."""
    def lit(s):
        return {"t": "lit", "cp": cp(s)}
    # a pattern starting with '-' would be taken for a flag by the argument parser
    segs = [s for s in base.split("::") if s and all(c in SAFE for c in s) and not s.startswith("-")] or ["zz"]
    k = rnd.random()
    if k < 0.35:
        s = rnd.choice(segs)
        return s, {"alts": [[lit(s)]]}
    if k < 0.5:
        s = rnd.choice(segs)
        return "^" + s, {"alts": [[{"t": "bol"}, lit(s)]]}
    if k < 0.65:
        s = rnd.choice(segs)
        return s + "$", {"alts": [[lit(s), {"t": "eol"}]]}
    if k < 0.8 and len(segs) >= 2:
        a, b = segs[0], segs[-1]
        return a + ".*" + b, {"alts": [[lit(a), {"t": "star"}, lit(b)]]}
    if k < 0.9:
        a, b = rnd.choice(segs), rnd.choice(segs + ["qq"])
        return a + "|" + b, {"alts": [[lit(a)], [lit(b)]]}
    s = rnd.choice(segs)
    if len(s) >= 2:
        return s[0] + "." + s[2:], {"alts": [[lit(s[0]), {"t": "any"}] + ([lit(s[2:])] if s[2:] else [])]}
    return s, {"alts": [[lit(s)]]}


def render_config(cfg):
    out = dict(cfg)
    for k in ("src_after", "src_cli", "src_env", "src_before"):
        out[k + "_rec"] = opts_record(cfg[k])
    out["sort_key"] = cfg["sort"]
    return out


# ----------------------------------------------------------------- execution

_parallelism = None


def parallelism():
    global _parallelism
    if _parallelism is None:
        _parallelism = len(os.sched_getaffinity(0))
    return _parallelism


def strip_prefix(text):
    rest, prefix = text, []
    while rest.startswith(BAR) or rest.startswith(BLANK):
        prefix.append("bar" if rest.startswith(BAR) else "blank")
        rest = rest[3:]
    branch = "none"
    if rest.startswith(TEE):
        branch, rest = "tee", rest[len(TEE):]
    elif rest.startswith(CORNER):
        branch, rest = "corner", rest[len(CORNER):]
    return prefix, branch, rest


def lex_stdout(stdout, has_columns):
    """-> list of line records.  Pure lexing, no decision is taken here.

    With columns a line is `<tree part> c1 │ c2 │ c3 │ c4 │ c5 │ c6`: the last
    five `│`-separated tokens are c2..c6, the token before them holds the tree
    part and c1.  A line whose tree part has a branch glyph (or that starts at
    column 0 with a name) is a named row, any other line continues the row
    above it."""
    recs = []
    for raw in stdout.split("\n"):
        if raw == "":
            recs.append({"t": "empty"})
            continue
        cells = []
        head = raw
        seps = []
        if has_columns:
            toks = raw.split("│")
            if len(toks) >= 6:
                cells = [c.strip() for c in toks[-5:]]
                head = "│".join(toks[:-5])
                # positions (in characters, from 0) of the five column separators
                pos = len(head)
                for t in toks[-5:]:
                    seps.append(pos)
                    pos += 1 + len(t)
        prefix, branch, rest = strip_prefix(head)
        named = branch != "none" or not (raw.startswith(" ") or raw.startswith("│"))
        if not named:
            c1 = rest.lstrip("│").strip()
            allc = [c1] + cells
            recs.append({"t": "cont", "groups": prefix, "cells": allc, "cells_cp": [cp(c) for c in allc], "raw_cp": cp(raw),
                         "seps": seps, "c1_at": (len(head.rstrip()) - len(c1)) if (c1 and seps) else -1})
            continue
        if "  " in rest:
            name, tail = rest.split("  ", 1)
            c1 = tail.strip()
        else:
            name, c1 = rest.rstrip(), ""
        allc = ([c1] + cells) if (has_columns or c1) else []
        recs.append({"t": "row", "prefix": prefix, "branch": branch, "name": name, "name_cp": cp(name),
                     "cells": allc, "cells_cp": [cp(c) for c in allc], "raw_cp": cp(raw),
                     "seps": seps, "c1_at": (len(head.rstrip()) - len(c1)) if (c1 and seps) else -1})
    while recs and recs[-1]["t"] == "empty":
        recs.pop()
    return recs


def run_program(prog, cfg, name, timeout=120):
    """Executes one (program, configuration); returns the `run` record."""
    V.build_harness()
    d = os.path.join(V.WORK, "rp")
    os.makedirs(d, exist_ok=True)
    rp = render_program(prog)
    rp["builder"] = cfg["builder"]
    rp["entry"] = cfg.get("entry", "main")
    if cfg.get("no_args"):
        rp["no_args"] = True
    ppath = os.path.join(d, f"{name}.program.json")
    lpath = os.path.join(d, f"{name}.log.ndjson")
    json.dump(rp, open(ppath, "w"))
    if os.path.exists(lpath):
        os.remove(lpath)
    env = {k: v for k, v in os.environ.items() if not k.startswith("DIVAN_") and k != "NEXTEST"}
    env.update(cfg["env"])
    env["VERIF_PROGRAM"] = ppath
    env["VERIF_LOG"] = lpath
    try:
        p = subprocess.run([RUNPROG] + cfg["argv"], env=env, stdout=subprocess.PIPE, stderr=subprocess.PIPE,
                           timeout=timeout)
        rc, stdout, stderr = p.returncode, p.stdout.decode("utf-8", "replace"), p.stderr.decode("utf-8", "replace")
    except subprocess.TimeoutExpired:
        rc, stdout, stderr = "timeout", "", ""
    events = []
    if os.path.exists(lpath):
        for line in open(lpath):
            if line.strip():
                events.append(json.loads(line))
        os.remove(lpath)
    os.remove(ppath)
    keep = [e for e in events if e.get("ev") in ("invoke", "call", "args_eval", "loop_begin", "leaf_stats", "exit", "user_panic")]
    # compress call events into counts attached to the preceding invoke
    evs = []
    for e in keep:
        if e["ev"] == "call":
            if evs and evs[-1]["ev"] == "invoke":
                evs[-1]["calls"] = evs[-1].get("calls", 0) + 1
                evs[-1]["call_tids"] = sorted(set(evs[-1].get("call_tids", [])) | {e["tid"]})
            else:
                evs.append({"ev": "stray_call", "what": e["what"], "id": e["id"]})
            continue
        if e["ev"] == "invoke":
            e = dict(e)
            e["calls"] = 0
            e["call_tids"] = []
            e["arg_cp"] = cp(e.get("arg", ""))
            e["has_loop"] = False
            e["has_stats"] = False
            e["loop"] = {}
            e["stats"] = {}
        if e["ev"] == "loop_begin" and evs and evs[-1]["ev"] == "invoke":
            evs[-1]["has_loop"] = True
            evs[-1]["loop"] = {k: e[k] for k in ("mode", "size", "rem", "min", "max", "skip", "threads")}
            continue
        if e["ev"] == "leaf_stats" and evs and evs[-1]["ev"] == "invoke":
            evs[-1]["has_stats"] = True
            evs[-1]["stats"] = e["stats"]
            evs[-1]["alloc_text"] = e.get("alloc_text", [])
            continue
        evs.append(e)
    has_columns = cfg["action"] == "bench"
    terse = []
    lines = []
    if cfg["action"] == "list_terse":
        for raw in stdout.split("\n"):
            if raw:
                terse.append({"text": raw, "text_cp": cp(raw)})
    else:
        lines = lex_stdout(stdout, has_columns)
    exit_ev = next((e for e in evs if e["ev"] == "exit"), None)
    return {
        "seq": 0, "tid": -1, "ev": "run", "id": name,
        "program": rp, "config": render_config(cfg), "parallelism": parallelism(),
        "lines": lines, "terse": terse,
        "invokes": [e for e in evs if e["ev"] == "invoke"],
        "args_evals": [{"what": e["what"], "id": e["id"]} for e in evs if e["ev"] == "args_eval"],
        "stray_calls": sum(1 for e in evs if e["ev"] == "stray_call"),
        "exit_seen": exit_ev is not None,
        "panicked": bool(exit_ev and exit_ev.get("panicked")),
        "panic_msg": (exit_ev or {}).get("msg", ""),
        "rc": rc if isinstance(rc, int) else -1,
        "stderr_tail": stderr[-400:],
    }
