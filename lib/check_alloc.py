"""C09 / C10: AllocProfiler forwarding and tallies (Tally.tla, MC_Alloc, AllocTrace)."""
import json
import os
import random
import subprocess

import vcheck as V

GALLOC = os.path.join(V.TARGET, "debug", "galloc")
SIZES = [0, 1, 2, 3, 7, 8, 16, 100, 4096, 65536, 10 ** 6, 3 * 10 ** 7]


def rand_op(rnd):
    k = rnd.random()
    if k < 0.35:
        return {"op": rnd.choice(["alloc", "alloc", "alloc_zeroed"]), "size": rnd.choice(SIZES)}
    if k < 0.6:
        return {"op": "dealloc", "size": rnd.choice(SIZES)}
    if k < 0.9:
        a = rnd.choice(SIZES)
        b = rnd.choice(SIZES + [a, a, 0])
        return {"op": "realloc", "size": a, "new": b}
    if k < 0.95:
        return {"op": "clear"}
    return {"op": "peek"}


def c10_scenarios(tier, seed):
    rnd = random.Random(seed * 577 + 1)
    scs = []
    # the repository's alloc::tests::tally (alloc, grow, shrink, dealloc of 4 bytes)
    scs.append({"kind": "alloc", "id": "repo-tally", "scripts": [[
        {"op": "alloc", "size": 4}, {"op": "clear"}, {"op": "realloc", "size": 4, "new": 8}, {"op": "clear"},
        {"op": "realloc", "size": 8, "new": 4}, {"op": "clear"}, {"op": "dealloc", "size": 4}, {"op": "clear"},
        {"op": "alloc", "size": 4}, {"op": "realloc", "size": 4, "new": 8}, {"op": "realloc", "size": 8, "new": 4},
        {"op": "dealloc", "size": 4}]], "schedule": {"source": "tape"}})
    # spec -> impl: every operation sequence of length <= 3 over sizes {0,1,3} (MC_Alloc's domain)
    import itertools
    small = [{"op": "alloc", "size": s} for s in (0, 1, 3)] + [{"op": "dealloc", "size": s} for s in (0, 1, 3)] + \
            [{"op": "realloc", "size": a, "new": b} for a in (0, 1, 3) for b in (0, 1, 3)]
    k = 0
    maxlen = 2 if tier == "quick" else 3
    for n in range(1, maxlen + 1):
        for seq in itertools.product(small, repeat=n):
            scs.append({"kind": "alloc", "id": f"e{k}", "scripts": [list(seq)], "schedule": {"source": "tape"}})
            k += 1
    for j in range(1000 if tier == "quick" else 10000):
        threads = rnd.choice([1, 1, 2, 3, 4, 8])
        n = rnd.choice([3, 10, 30]) if tier == "quick" else rnd.choice([3, 10, 60, 300])
        scripts = [[rand_op(rnd) for _ in range(n)] for _ in range(threads)]
        sc_unit = {}
        if rnd.random() < 0.35:
            # byte sizes up to 2^40 and beyond: sizes in units of 2^20 / 2^30 bytes
            sc_unit = {"unit": rnd.choice([1 << 20, 1 << 30, 1 << 32])}
            scripts = [[dict(o, size=o.get("size", 0) % 1500, new=o.get("new", 0) % 1500) for o in sc_] for sc_ in scripts]
        scs.append({"kind": "alloc", "id": f"r{j}", "scripts": scripts, **sc_unit,
                    "schedule": {"source": "random", "seed": rnd.randrange(1 << 30), "switch": rnd.choice([100, 500, 1000])}})
    return scs


def c09_scenarios(tier, seed):
    rnd = random.Random(seed * 911 + 2)
    scs = []
    aligns = [1, 2, 4, 8, 16, 64, 4096]
    for j in range(800 if tier == "quick" else 10000):
        scripts = []
        for _ in range(rnd.choice([1, 1, 2, 3])):
            ops = []
            for _ in range(rnd.randint(1, 12)):
                op = rnd.choice(["alloc", "alloc_zeroed", "dealloc", "realloc"])
                al = rnd.choice(aligns)
                size = rnd.choice([0, 1, 3, 8, 24, 4096, 10 ** 6, 2 ** 30])
                o = {"op": op, "size": size, "align": al,
                     "result": rnd.choice([0, 0, al * rnd.randint(1, 100000)])}
                if op in ("dealloc", "realloc"):
                    o["ptr"] = al * rnd.randint(1, 100000)
                if op == "realloc":
                    o["new"] = rnd.choice([0, 1, 5, size, 10 ** 6])
                ops.append(o)
            scripts.append(ops)
        scs.append({"kind": "fwd", "id": f"f{j}", "scripts": scripts, "schedule": {"source": "tape"}})
    return scs


def make_replay(lines, start, end, line_no, r):
    reset = lines[start]
    sc = dict(reset.get("scenario", {}))
    if "tids" in reset and sc.get("kind") in ("alloc", "fwd"):
        sc["schedule"] = {"source": "replay", "tids": reset.get("tids", [])}
    return {"kind": "alloc-trace", "scenario": sc, "invariant": r.get("violated"),
            "failing_event": lines[line_no - 1] if 0 < line_no <= len(lines) else None,
            "trace": lines[start:min(end, start + 300)]}


KEEP = {"reset", "alloc_clear", "alloc_step", "alloc_peek", "req", "inner", "ret", "sched_end"}


def galloc_traces(tier, seed):
    V.build_harness()
    path = os.path.join(V.WORK, "C09.galloc.ndjson")
    runs = 10 if tier == "quick" else 400
    with open(path, "w") as f:
        for i in range(runs):
            p = subprocess.run([GALLOC, str(seed * 100 + i + 1), str(1 + i % 6), str(20 + 15 * (i % 5))],
                               stdout=subprocess.PIPE, stderr=subprocess.PIPE, text=True, timeout=120)
            if p.returncode != 0:
                raise V.ToolError(f"galloc failed: {p.stderr[-500:]}")
            f.write(p.stdout)
    return path, runs


def negative_control(res, prop, proj):
    lines = V.read_trace(proj)
    if prop == "C10":
        idx = next(i for i, x in enumerate(lines) if x.get("ev") == "alloc_step" and x["op"] == "realloc")
        start = max(j for j in range(idx + 1) if lines[j].get("ev") == "reset")
        run = [json.loads(json.dumps(x)) for x in lines[start:idx + 1]]
        run[-1]["tally"]["max_size"] += 1
    else:
        idx = next(i for i, x in enumerate(lines) if x.get("ev") == "inner" and x["op"] == "realloc")
        start = max(j for j in range(idx + 1) if lines[j].get("ev") == "reset")
        end = next((j for j in range(idx, len(lines)) if lines[j].get("ev") == "ret"), idx) + 1
        run = [json.loads(json.dumps(x)) for x in lines[start:end]]
        for x in run:
            if x.get("ev") == "inner" and x["op"] == "realloc":
                x["new"] += 1
    p = os.path.join(V.WORK, f"{prop}.negctl.ndjson")
    with open(p, "w") as f:
        for x in run:
            f.write(json.dumps(x) + "\n")
    r = V.tlc_trace("AllocTrace", f"AllocTrace_{prop}", p)
    res.extra["negative_control"] = {"got": r.get("violated"), "rules": V.bad_rules(r["out"])}
    if r.get("violated") != f"{prop}Holds":
        raise V.ToolError("negative control not caught")


def run(prop, tier, seed):
    res = V.Result(prop, tier, seed)
    if prop == "C10":
        res.assumptions = ["sizes below 2^31 bytes directly, and up to 1500 * 2^32 bytes as exact multiples of a unit (2^20, 2^30, 2^32) logged in that unit; arbitrary huge non-multiples are outside this check",
                           "operations are issued as direct GlobalAlloc calls on a harness-owned AllocProfiler<Mock>, so only scripted operations reach the tally"]
        for cfg in (["Alloc_q", "Alloc_q2"] if tier == "quick" else ["Alloc_q", "Alloc_q2", "Alloc_t"]):
            r = V.tlc_mc("MC_Alloc", cfg, workers=8, coverage=False, timeout=3000)
            res.add_mc(cfg, r)
            if not r.get("ok"):
                raise V.ToolError(f"MC_Alloc {cfg}: {r.get('violated') or r.get('error')}")
        scs = c10_scenarios(tier, seed)
    else:
        res.assumptions = ["the wrapped allocator is a logging mock (scripted results incl. null) or, in the whole-process runs, the system allocator behind a logging shim",
                           "pointer values are compared for equality only"]
        # the wrapper as a state machine (Forward.tla): two threads, new / live / dying thread
        # records, any answer of the wrapped allocator; three shortcuts must each fail
        r = V.tlc_mc("MC_Forward", "Forward_q" if tier == "quick" else "Forward_t", workers=8, coverage=False, timeout=3000)
        res.add_mc("Forward", r)
        if not r.get("ok"):
            raise V.ToolError(f"MC_Forward: {r.get('violated') or r.get('error')}")
        for cfg, want in (("Forward_v_same_size", "OneIdenticalRequest"), ("Forward_v_hide_failed_shrink", "ReturnsTheAnswer"),
                          ("Forward_v_record_through_self", "NoReentry")):
            r = V.tlc_mc("MC_Forward", cfg, workers=1, coverage=False)
            res.extra.setdefault("necessity_variants", []).append({"config": cfg, "expected": [want], "got": r.get("violated")})
            if r.get("violated") != want:
                raise V.ToolError(f"{cfg}: expected {want} to fail, got {r.get('violated') or r.get('error')}")
        scs = c09_scenarios(tier, seed)
    trace_path, summary = V.run_driver(scs, f"{prop}.impl")
    res.extra["driver"] = summary
    proj, n = V.project(trace_path, KEEP)
    lines = V.read_trace(proj)
    res.samples = [lines[1:6]]
    V.validate_monitor(res, prop, "AllocTrace", f"AllocTrace_{prop}", proj, "impl->spec", make_replay)
    if prop == "C09":
        gpath, runs = galloc_traces(tier, seed)
        glines = V.read_trace(gpath)
        res.extra["galloc"] = {"runs": runs, "events": len(glines)}
        res.samples.append(glines[1:5])
        V.validate_monitor(res, prop, "AllocTrace", f"AllocTrace_{prop}", gpath, "impl->spec:global-allocator", make_replay)
    if not res.violations:
        negative_control(res, prop, proj)
    return res.finish()


def replay(prop, path):
    obj = json.load(open(path))
    res = V.Result(prop, "quick", 0)
    sc = obj["scenario"]
    if sc.get("kind") == "galloc":
        p = subprocess.run([GALLOC, str(sc["seed"]), str(sc["threads"]), str(sc["ops"])],
                           stdout=subprocess.PIPE, text=True)
        tp = os.path.join(V.WORK, f"{prop}.replay.ndjson")
        open(tp, "w").write(p.stdout)
        proj = tp
    else:
        trace_path, summary = V.run_driver([sc], f"{prop}.replay")
        proj, _ = V.project(trace_path, KEEP)
    n = V.validate_monitor(res, prop, "AllocTrace", f"AllocTrace_{prop}", proj, "replay", make_replay)
    if n == 0:
        print("replay: no violation reproduced")
    return res.finish()
