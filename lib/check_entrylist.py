"""Registration-list level of C12 (EntryList.tla).

* TLC explores EntryList.tla exhaustively (every interleaving of the atomic
  operations of concurrent `push` calls and concurrent iterations, spurious
  failures of the weak compare-exchange), plus two expected-to-fail variants.
* The real `EntryList` (src/entry/list.rs) is executed under the deterministic
  scheduler: sequential pushes in many orders (what pre-main constructors do),
  concurrent pushers / readers under random and depth-first schedules.  Every
  execution is validated twice by TLC: `EntryListL1Trace` (calls and results
  only, C12's vocabulary; gives the verdict) and `EntryListTrace` (every atomic
  operation is an action of EntryList.tla; invariants evaluated in every state;
  a rejection is reported as MODEL-DRIFT, not as a violation).
"""
import json
import os
import random

import vcheck as V

L1_KEEP = {"reset", "el_setup", "el_push_begin", "el_push_end", "el_iter_begin", "el_iter", "el_done"}
L2_KEEP = L1_KEEP | {"aptr_load", "aptr_store", "aptr_cas"}

MC = {"quick": ["EntryList_q"], "thorough": ["EntryList_q", "EntryList_t1", "EntryList_t2"]}
VARIANTS = [("EntryList_v_norestore", {"ListIsHistory"}), ("EntryList_v_blind", {"ListIsHistory"})]


def plan(rnd, threads, max_nodes, allow_empty=False):
    out, nxt = [], 2
    for _ in range(threads):
        k = rnd.randint(0 if allow_empty else 1, max_nodes)
        out.append(list(range(nxt, nxt + k)))
        nxt += k
    # node numbers carry no order information for the code: shuffle them
    names = list(range(2, nxt))
    rnd.shuffle(names)
    m = dict(zip(range(2, nxt), names))
    return [[m[n] for n in t] for t in out]


def gen_scenarios(tier, seed):
    rnd = random.Random(seed * 7919 + 12)
    scs = []
    n_seq, n_rand, dfs_runs, dfs_bound = {"quick": (20, 150, 1000, 2), "thorough": (200, 5000, 60000, 3)}[tier]
    # sequential registration, many orders (inline: the main thread pushes)
    for i in range(n_seq):
        scs.append({"kind": "entrylist", "id": f"el-seq{i}", "inline": True,
                    "pushers": plan(rnd, rnd.randint(1, 5), 4, allow_empty=True),
                    "read_between": rnd.random() < 0.5, "spurious": rnd.choice([0, 0, 2]),
                    "schedule": {"source": "random", "seed": rnd.randint(1, 1 << 30), "switch": 300}})
    scs.append({"kind": "entrylist", "id": "el-empty", "inline": True, "pushers": [], "schedule": {"source": "tape"}})
    # concurrent pushers and readers, random schedules
    for i in range(n_rand):
        scs.append({"kind": "entrylist", "id": f"el-rnd{i}",
                    "pushers": plan(rnd, rnd.randint(2, 4), 3), "readers": rnd.randint(0, 2),
                    "spurious": rnd.choice([0, 1, 3]),
                    "schedule": {"source": "random", "seed": rnd.randint(1, 1 << 30),
                                 "switch": rnd.choice([150, 400, 800])}})
    # bounded-exhaustive schedules of the smallest concurrent cases
    for j, (pl, readers, spur) in enumerate([([[2], [3]], 1, 0), ([[2, 3], [4]], 0, 1), ([[2], [3], [4]], 0, 0)]):
        scs.append({"kind": "entrylist", "id": f"el-dfs{j}", "pushers": pl, "readers": readers, "spurious": spur,
                    "schedule": {"source": "dfs", "bound": dfs_bound, "max_runs": dfs_runs}})
    return scs


def make_replay(layer):
    def f(lines, start, end, line_no, r):
        reset = lines[start]
        sc = dict(reset.get("scenario", {}))
        if reset.get("tids"):
            sc["schedule"] = {"source": "replay", "tids": reset["tids"]}
        return {"level": "entrylist", "layer": layer, "scenario": sc,
                "event": lines[min(line_no, len(lines)) - 1], "violated": r.get("violated")}
    return f


class Beyond:
    """Receives what the validators find on executions with CONCURRENT pushes.
    C12 quantifies over programs, whose constructors push one after the other;
    the list is nevertheless written (and documented) to be thread safe and
    EntryList.tla covers that.  A failure that needs concurrent pushes is
    therefore reported and recorded, but it is not a violation of C12."""

    def __init__(self, res):
        self.res, self.drift, self.notes = res, res.drift, res.notes
        self.found = []

    def add_trace(self, *a):
        self.res.add_trace(*a)

    def violation(self, what, replay_obj):
        replay_obj = dict(replay_obj, property="C12", what=what, beyond_property=True)
        path = V.write_replay("C12", replay_obj)
        self.found.append({"what": what, "replay": path})
        print(f"BEYOND-PROPERTY property=C12 (needs concurrent registration) {what} replay={path}", flush=True)


def split_runs(trace_path):
    """(sequential runs, concurrent runs) of a recorded trace, as two files."""
    lines = V.read_trace(trace_path)
    outs = {True: [], False: []}
    inline = True
    for x in lines:
        if x.get("ev") == "reset":
            inline = bool(x.get("scenario", {}).get("inline"))
        outs[inline].append(x)
    paths = {}
    for k, name in ((True, ".seq"), (False, ".conc")):
        paths[k] = trace_path + name
        with open(paths[k], "w") as f:
            for x in outs[k]:
                f.write(json.dumps(x) + "\n")
    return paths[True], paths[False]


def validate(res, trace_path, label):
    seq, conc = split_runs(trace_path)
    found = validate_part(res, seq, label + ":sequential")
    beyond = Beyond(res)
    validate_part(beyond, conc, label + ":concurrent")
    if beyond.found:
        res.extra.setdefault("beyond_property_findings", []).extend(beyond.found[:10])
    return found


def validate_part(res, trace_path, label):
    found = 0
    p1, n1 = V.project(trace_path, L1_KEEP, ".l1")
    found += V.validate_monitor(res, "C12", "EntryListL1Trace", "EntryListL1Trace_C12", p1,
                                f"{label}:L1", make_replay("L1"))
    path, _ = V.project(trace_path, L2_KEEP, ".l2")
    for attempt in range(8):
        lines = V.read_trace(path)
        if not lines:
            break
        runs = sum(1 for x in lines if x.get("ev") == "reset")
        r = V.tlc_trace("EntryListTrace", "EntryListTrace_C12", path)
        res.add_trace(f"{label}:L2", r, runs, len(lines))
        if r["accepted"]:
            break
        line_no = V.failing_line(r)
        reset, start, end = V.scenario_at(lines, line_no)
        if r.get("violated"):
            if not found:
                res.violation(f"{r['violated']} of EntryList.tla violated on an execution of the real list "
                              f"({label}:L2, scenario {reset.get('scenario', {}).get('id')})",
                              make_replay("L2")(lines, start, end, line_no, r))
                found += 1
        else:
            res.drift.append({"first_unmatched_event": lines[line_no - 1],
                              "scenario": reset.get("scenario", {}).get("id"),
                              "note": "EntryList.tla (L2) cannot follow the code; the L1 monitor decides"})
            print(f"MODEL-DRIFT property=C12 event={json.dumps(lines[line_no - 1])}", flush=True)
        rest = lines[:start] + lines[end:]
        path = trace_path + f".l2rest{attempt}"
        with open(path, "w") as f:
            for x in rest:
                f.write(json.dumps(x) + "\n")
    return found


def negative_control(res, trace_path):
    lines = V.read_trace(trace_path)
    resets = [i for i, x in enumerate(lines) if x.get("ev") == "reset"] + [len(lines)]
    pick = None
    for a, b in zip(resets, resets[1:]):
        run = lines[a:b]
        its = [x for x in run if x.get("ev") == "el_iter" and len(x["entries"]) >= 2]
        if its and any(x.get("ev") == "aptr_cas" and x["ok"] for x in run) and run[-1].get("outcome") == "completed":
            pick = run
            break
    if pick is None:
        raise V.ToolError("entry list negative control: no suitable run")
    out = {}
    # 1. an entry lost from the final iteration -> L1 rule
    bad = [json.loads(json.dumps(x)) for x in pick]
    last = [i for i, x in enumerate(bad) if x.get("ev") == "el_iter"][-1]
    bad[last]["entries"] = bad[last]["entries"][1:]
    p = os.path.join(V.WORK, "C12.el.negctl.ndjson")

    def write(rows, keep):
        with open(p, "w") as f:
            for x in rows:
                if x.get("ev") in keep:
                    f.write(json.dumps(x) + "\n")
    write(bad, L1_KEEP)
    r = V.tlc_trace("EntryListL1Trace", "EntryListL1Trace_C12", p)
    out["lost_entry_caught_by_L1"] = r.get("violated") == "C12Holds"
    # 2. a successful exchange reported with another operand -> L2 rejects
    bad = [json.loads(json.dumps(x)) for x in pick]
    i = next(i for i, x in enumerate(bad) if x.get("ev") == "aptr_cas" and x["ok"])
    bad[i]["old"] = bad[i]["old"] + 1
    write(bad, L2_KEEP)
    r = V.tlc_trace("EntryListTrace", "EntryListTrace_C12", p)
    out["corrupted_operand_rejected_by_L2"] = (not r["accepted"]) and "rejected_line" in r
    # 3. the link store of a pushed node dropped -> L2 rejects
    i = next(i for i, x in enumerate(pick) if x.get("ev") == "aptr_store")
    write(pick[:i] + pick[i + 1:], L2_KEEP)
    r = V.tlc_trace("EntryListTrace", "EntryListTrace_C12", p)
    out["dropped_event_rejected_by_L2"] = (not r["accepted"]) and "rejected_line" in r
    res.extra["entry_list_level"]["negative_controls"] = out
    if not all(out.values()):
        raise V.ToolError(f"entry list negative control not caught: {out}")


def level(res, tier, seed):
    for cfg in MC[tier]:
        r = V.tlc_mc("MC_EntryList", cfg, workers=8)
        res.add_mc(cfg, r)
        if not r.get("ok"):
            raise V.ToolError(f"MC {cfg}: {r.get('violated') or r.get('error')}")
        never = [a for a, n in (r.get("coverage") or {}).items() if n == 0]
        if never:
            res.notes.append(f"MC {cfg}: actions never taken: {never}")
    for cfg, expect in VARIANTS:
        r = V.tlc_mc("MC_EntryList", cfg, workers=1, coverage=False)
        res.extra.setdefault("necessity_variants", []).append(
            {"config": cfg, "expected": sorted(expect), "got": r.get("violated")})
        if r.get("violated") not in expect:
            raise V.ToolError(f"necessity variant {cfg}: expected {expect}, got {r.get('violated')}")

    scs = gen_scenarios(tier, seed)
    trace_path, summary = V.run_driver(scs, "C12.entrylist")
    res.extra["entry_list_level"] = {"scenarios": len(scs), "driver": summary}
    res.assumptions.append(
        "registration list: executions are sequentially consistent interleavings of the atomic pointer operations "
        "(the Ordering arguments are logged but a weaker memory model is not simulated); nodes are leaked heap "
        "objects instead of statics")
    bad = {k: v for k, v in summary.get("outcomes", {}).items() if k != "completed"}
    found = validate(res, trace_path, "list:impl->spec")
    if bad and not found:
        raise V.ToolError(f"entry list runs without a verdict: {bad}")
    if not found:
        negative_control(res, trace_path)
    return found


def replay(path):
    obj = json.load(open(path))
    res = V.Result("C12", "quick", 0)
    trace_path, summary = V.run_driver([obj["scenario"]], "C12.entrylist.replay")
    n = validate(res, trace_path, "replay")
    if n == 0:
        print("replay: no violation reproduced")
    return res.finish()
