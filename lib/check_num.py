"""C11 / C18: the stateless numeric stages (BigNat, Time.tla, Fmt.tla,
NumTrace.tla, MC_Time, MC_Fmt).

The judge is TLC: MC_Time / MC_Fmt check theorems about the specification
itself; NumTrace evaluates the specification on every (inputs, output) record
the driver logged from the real code.  This module only generates inputs,
runs driver and TLC and reads TLC's verdict.
"""
import concurrent.futures
import json
import os
import random
import threading

import vcheck as V

U32 = 2 ** 32
U63 = 2 ** 63
U64MAX = 2 ** 64 - 1
U128MAX = 2 ** 128 - 1

PS = {"ps": 1, "ns": 10 ** 3, "us": 10 ** 6, "ms": 10 ** 9, "s": 10 ** 12,
      "m": 60 * 10 ** 12, "h": 3600 * 10 ** 12, "d": 86400 * 10 ** 12}
UNITS = list(PS.values())

CHUNK = 2500          # records per TLC run
PARALLEL = 4          # concurrent TLC runs


def rnd_wide(rnd, bits):
    """Random value with a uniformly random bit length (log-uniform size)."""
    n = rnd.randint(0, bits)
    return rnd.getrandbits(n) if n else 0


def sc_(op, k, **kw):
    d = {"kind": "num", "id": f"{op}-{k}", "op": op}
    for key, v in kw.items():
        if v is None:
            continue
        d[key] = str(v) if isinstance(v, int) and not isinstance(v, bool) and key in WIDE else v
    return d


WIDE = {"a", "b", "f", "secs", "freq", "picos", "num", "den", "bits", "count"}

# ------------------------------------------------------------------ C11 gen

GRID = [0, 1, 2, 3, U32 - 1, U32, U32 + 1, U63 - 1, U63, U63 + 1, U64MAX - 1, U64MAX]
FREQS = [1, 2, 3, 7, 10, 1000, 10 ** 6, 19_200_000, 24_000_000, 10 ** 9 - 1, 10 ** 9,
         2_400_000_000, 2_500_000_000, 3_000_000_000, 10 ** 10, U32, 10 ** 12, 10 ** 12 + 1,
         U63, U64MAX]


def gen_c11(tier, seed):
    rnd = random.Random(seed * 7919 + 11)
    big = tier != "quick"
    scs = []
    k = 0

    def conv(a, b, f):
        nonlocal k
        scs.append(sc_("conv", k, a=a, b=b, f=f))
        k += 1

    # boundary grid (a may exceed b: the difference is then zero)
    for a in GRID:
        for b in GRID:
            for f in FREQS:
                conv(a, b, f)
    # products (b - a) * 10^12 around 2^64, 2^96, 2^104 and exact multiples of f
    for d in [18446743, 18446744, 18446745, 2 ** 24, 79228162514264, 79228162514265,
              U64MAX // 10 ** 12, U64MAX // 10 ** 6, U64MAX - 5, U64MAX]:
        for f in [1, 3, 999_999_999, 10 ** 9, 2_500_000_000, 10 ** 12, U64MAX]:
            for base in [0, 1, U64MAX - d]:
                if base + d <= U64MAX:
                    conv(base, base + d, f)
    for f in [3, 7, 10 ** 9, 2_400_000_000, 2_500_000_000, 3_579_545, U32 + 1]:
        for q in [1, 2, 999, 10 ** 6, rnd.randint(1, 10 ** 6)]:
            for eps in (-1, 0, 1):
                d = q * f + eps
                if 0 <= d <= U64MAX:
                    a = rnd_wide(rnd, 63)
                    if a + d <= U64MAX:
                        conv(a, a + d, f)
    # seeded random triples
    for _ in range(150000 if big else 8000):
        mode = rnd.random()
        f = rnd.choice([rnd_wide(rnd, 64), rnd.randint(1, 10 ** 10), rnd.choice(FREQS)]) or 1
        if mode < 0.4:
            a, b = rnd.getrandbits(64), rnd.getrandbits(64)
        elif mode < 0.8:
            a = rnd_wide(rnd, 64)
            b = min(U64MAX, a + rnd_wide(rnd, 64))
        else:
            a = rnd.getrandbits(64)
            b = max(0, min(U64MAX, a + rnd.randint(-3, 3)))
        conv(a, b, f)

    # Duration -> picoseconds
    nanos = [0, 1, 999, 1000, 1001, 999_999, 10 ** 6, 999_999_998, 999_999_999]
    j = 0
    for s in GRID + [10 ** 9, 10 ** 12, 18446744073, 18446744074, 340282366920938, 340282366920939]:
        for n in nanos:
            scs.append(sc_("dur", j, secs=s, nanos=n))
            j += 1
    # where an intermediate of width 2^k in some unit (s, ms, us, ns, ps) would overflow:
    # seconds around floor(2^k / 10^e) and the sub-second part that crosses 2^k exactly
    for kbits in (31, 32, 53, 63, 64, 96, 127, 128):
        for e in (0, 3, 6, 9, 12):
            s0 = (2 ** kbits) // 10 ** e
            for s_ in (s0 - 1, s0, s0 + 1):
                if not 0 <= s_ <= U64MAX:
                    continue
                # smallest sub-second part (in ns) that takes the total, in units of 10^-e s, to 2^k
                cross = -(-(2 ** kbits - s_ * 10 ** e) * 10 ** 9 // 10 ** e) if e else 0
                for n in {0, 1, 500_000_000, 999_999_999, cross - 1, cross, cross + 1}:
                    if 0 <= n <= 999_999_999:
                        scs.append(sc_("dur", j, secs=s_, nanos=n))
                        j += 1
    for _ in range(30000 if big else 1500):
        scs.append(sc_("dur", j, secs=rnd_wide(rnd, 64), nanos=rnd.randint(0, 999_999_999)))
        j += 1

    # Timer precision under clocks advancing in uniform steps
    p = 0
    pfreqs = [1, 3, 19_200_000, 10 ** 9, 2_400_000_000, 2_500_000_000, 3_000_000_000,
              10 ** 10, 10 ** 12]
    steps = list(range(1, 1501 if big else 101))
    x = 101
    while x <= 10 ** 6:
        steps += [x - 1, x, x + 1]
        x = int(x * (1.35 if big else 2.1)) + 1
    steps += [999_999, 10 ** 6, 5 * 10 ** 6]
    steps = sorted(set(steps))
    for step in steps:
        fs = pfreqs if (big or step <= 12) else rnd.sample(pfreqs, 3)
        for f in fs:
            if step * 10 ** 12 // f == 0:
                continue      # unobservable: the loop would never see a tick
            # 202 reads are expected; a loop that does not stop is cut short
            scs.append(sc_("precision", p, freq=f, step=step, start=rnd.choice([0, 1000, 123457]),
                           log_reads=(p % 9 == 0) or None, step_bound=3000))
            p += 1
    quants = [(3, 1), (3, 2), (7, 7), (10, 3), (10, 7), (10, 10), (1000, 999), (64, 5),
              (9, 2), (1024, 1023), (5, 1)]
    if big:
        quants += [(100, 9), (33, 1), (1000, 7), (1000, 13), (4096, 511), (2, 1), (100, 100),
                   (17, 3)]
    # very coarse clocks: more than 101 batches of 100 back-to-back pairs read zero before
    # the first tick is seen, i.e. the first non-zero sample arrives when the artificial
    # delay is already long (the loop's "delayed a lot" exit must not fire on it)
    # (the loop's artificial delay grows by one per 100 pairs, so the work is quadratic in the
    # ratio: these few are what a debug build affords)
    coarse = [(10301, 1), (20301, 1)] + ([(12011, 1)] if big else [])
    for (q, r) in quants + coarse:
        for start in ((0, 1, 5) if q < 10000 else (1,)):
            if not any((start + 2 * r * i + r) // q > (start + 2 * r * i) // q for i in range(q + 1)):
                continue      # no start/end pair ever straddles a tick
            for f in ([10 ** 9, 2_500_000_000, 10 ** 10] if (not big or q >= 10000) else pfreqs):
                if q * 10 ** 12 // f == 0:
                    continue
                scs.append(sc_("precision", p, freq=f, step=r, quantum=q, start=start,
                               log_reads=True if q < 10000 else None, step_bound=2000 + 1000 * (q // r + 1)))
                p += 1
    return scs


# ------------------------------------------------------------------ C18 gen

def dur_centres():
    cs = [10 ** k for k in range(0, 39)]
    for u in UNITS:
        for m in (1, 2, 9, 10, 11, 23, 24, 59, 60, 99, 100, 101, 999, 1000, 1001, 9999, 10000,
                  99999, 100000):
            cs.append(u * m)
        for num, den in ((19999, 2), (12345, 1000), (99995, 10000), (99995, 1000), (99995, 100),
                         (10005, 10000), (59999, 1000), (23999, 1000)):
            cs.append(u * num // den)
    cs += [U64MAX, 2 ** 127, U128MAX, 864 * 10 ** 18, 864 * 10 ** 17]
    return sorted(set(c for c in cs if c <= U128MAX))


def gen_c18(tier, seed):
    rnd = random.Random(seed * 7919 + 18)
    big = tier != "quick"
    scs = []
    k = 0

    def dur(picos, prec=None, width=None):
        nonlocal k
        if 0 <= picos <= U128MAX:
            scs.append(sc_("fmt_dur", k, picos=picos, prec=prec, width=width))
            k += 1

    # dense small range
    for x in range(0, 50001 if big else 5001):
        dur(x)
    # neighbourhoods of every unit boundary, digit-count change and 10^k
    span = 100 if big else 20
    for c in dur_centres():
        for d in range(-span, span + 1):
            dur(c + d)
    # fourth-digit truncation: values a hair around n.nnn5 of each unit
    for u in UNITS[1:]:
        for _ in range(300 if big else 60):
            digits = rnd.choice([1, 2, 3, 4])
            lead = rnd.randint(10 ** (digits - 1), 10 ** digits - 1)
            frac = rnd.randint(0, 10 ** 6 - 1)
            x = lead * u + frac * u // 10 ** 6
            for d in (-1, 0, 1):
                dur(x + d)
    # seeded random 128-bit values, log-uniform
    for _ in range(200000 if big else 10000):
        dur(rnd_wide(rnd, 128))
    # precisions / widths the table uses: default, .4, left-aligned widths
    pool = [rnd_wide(rnd, 128) for _ in range(300 if big else 60)] + dur_centres()[::3] \
        + [0, 1, 999, 1000, 10 ** 6, 10 ** 6 + 1, 1234567, U128MAX]
    for x in pool:
        dur(x, prec=4)
        w = rnd.choice([0, 1, 2, 5, 8, 9, 10, 11, 12, 16, 30])
        dur(x, width=w)
        dur(x, prec=4, width=rnd.choice([0, 8, 10, 12, 24]))

    # byte sizes (what format_bytes receives is a double)
    j = 0

    def size(op, binary, num=None, den=None, bits=None):
        nonlocal j
        scs.append(sc_(op, j, num=num, den=den, bits=bits, binary=binary))
        j += 1

    counts = list(range(0, 2100 if big else 1100))
    for base in (1000, 1024):
        for e in range(1, 7):
            c = base ** e
            for m, dnm in ((1, 1), (10, 1), (100, 1), (99995, 10000), (99995, 1000), (99995, 100),
                           (19999, 2), (12345, 1000), (1023, 1), (999, 1)):
                for d in range(-3, 4):
                    counts.append(c * m // dnm + d)
    counts += [2 ** 53 - 1, 2 ** 53, 2 ** 53 + 1, U64MAX, U64MAX - 1, 10 ** 18, 10 ** 19]
    counts += [rnd_wide(rnd, 64) for _ in range(15000 if big else 1200)]
    for c in counts:
        if c < 0:
            continue
        for binary in (False, True):
            size("fmt_bytes", binary, num=c)
    for _ in range(5000 if big else 800):   # means: halves, thirds, ...
        size("fmt_bytes", rnd.random() < 0.5, num=rnd_wide(rnd, 60),
             den=rnd.choice([2, 3, 7, 10, 100, 1000, 1024, rnd.randint(1, 10 ** 6)]))
    for c in counts[:: (3 if big else 9)]:
        size("fmt_f64", False, num=c)
    for _ in range(1000 if big else 200):
        size("fmt_f64", False, num=rnd_wide(rnd, 60), den=rnd.choice([2, 3, 7, 100, 1000, 4096]))
    # corners of the double format: smallest subnormal, smallest normal,
    # 2^-30, 0.1, 0.9999..., 2^53, 2^100, largest finite
    for bits in (0, 1, 0x000fffffffffffff, 0x0010000000000000, 0x3e10000000000000,
                 0x3fb999999999999a, 0x3fefffffffffffff, 0x3ff0000000000000,
                 0x3ff0000000000001, 0x408f3fffffffffff, 0x408f400000000000,
                 0x4340000000000000, 0x4630000000000000, 0x7fefffffffffffff):
        for binary in (False, True):
            size("fmt_bytes", binary, bits=bits)
        size("fmt_f64", False, bits=bits)

    # throughputs: count per picoseconds, four kinds, both byte formats
    t = 0

    def tput(count, picos, ckind=None, binary=None):
        nonlocal t
        if not (0 <= count <= U64MAX and 0 <= picos <= U128MAX):
            return
        scs.append(sc_("fmt_tput", t, count=count, picos=picos,
                       ckind=rnd.randint(0, 3) if ckind is None else ckind,
                       binary=(rnd.random() < 0.5) if binary is None else binary))
        t += 1

    tcounts = [0, 1, 2, 3, 7, 999, 1000, 1001, 1023, 1024, 1025, 10 ** 6, 2 ** 20, U32,
               2 ** 53 + 1, 10 ** 18, U64MAX]
    tpicos = [0, 1, 2, 3, 7, 999, 1000, 1001, 1024, 10 ** 6, 10 ** 9, 10 ** 12, 10 ** 12 + 1,
              6 * 10 ** 13, 10 ** 15, 2 ** 64, 10 ** 24, U128MAX]
    for c in tcounts:
        for p in tpicos:
            for ckind in range(4):
                for binary in ((False, True) if ckind == 0 else (rnd.random() < 0.5,)):
                    tput(c, p, ckind, binary)
    # results on a prefix / digit boundary: count * 10^12 / picos = m * base^e (+-)
    for base in (1000, 1024):
        for e in range(0, 6):
            for m in (1, 10, 100, 999, 1023):
                target = m * base ** e
                for _ in range(6 if big else 2):
                    picos = rnd.choice([1000, 10 ** 6, 10 ** 9, 3 * 10 ** 9, 10 ** 12, 7 * 10 ** 11])
                    count = target * picos // 10 ** 12
                    for d in (-1, 0, 1):
                        tput(count + d, picos, 0, base == 1024)
                        tput(count, picos + d)
    for _ in range(60000 if big else 3000):
        tput(rnd_wide(rnd, 64), rnd_wide(rnd, rnd.choice([40, 64, 128])))
    return scs


# ---------------------------------------------------------------- validation

def make_replay(lines, start, end, line_no, r):
    reset = lines[start]
    rec = lines[line_no - 1] if 0 < line_no <= len(lines) else None
    return {"kind": "num-trace", "scenario": reset.get("scenario", {}),
            "invariant": r.get("violated"), "failing_event": rec}


def known_filter(prop):
    kf = V.load_known_findings()
    entries = [f for f in kf.get("findings", []) if f.get("property") == prop and f.get("match")]

    def is_known(obj):
        sc = obj.get("scenario", {})
        for f in entries:
            m = f["match"]
            if m.get("kind") != "num":
                continue
            if m.get("op") and m["op"] != sc.get("op"):
                continue
            if set(obj.get("rules", [])) <= set(m.get("rules", [])):
                return f"{f['id']} {f.get('title', '')} [scenario {sc.get('id')}: {json.dumps(sc)}]"
        return None
    return is_known if entries else None


def split_trace(trace_path, chunk=CHUNK):
    """Cuts the trace at reset lines into files of about `chunk` records."""
    paths = []
    out = None
    n = 0
    with open(trace_path) as f:
        for line in f:
            if '"ev":"reset"' in line and (out is None or n >= chunk):
                if out:
                    out.close()
                paths.append(f"{trace_path}.c{len(paths)}")
                out = open(paths[-1], "w")
                n = 0
            if '"ev":"reset"' in line:
                n += 1
            out.write(line)
    if out:
        out.close()
    return paths


def validate(res, prop, trace_path, label, max_rounds=6):
    chunks = split_trace(trace_path)
    known = known_filter(prop)
    lock = threading.Lock()
    report = res.violation

    def locked_violation(what, obj):
        with lock:
            report(what, obj)
    res.violation = locked_violation

    def one(i_path):
        i, path = i_path
        return V.validate_monitor(res, prop, "NumTrace", f"NumTrace_{prop}", path,
                                  f"{label}[{i}]", make_replay, known, max_rounds=max_rounds)

    with concurrent.futures.ThreadPoolExecutor(max_workers=PARALLEL) as ex:
        return sum(ex.map(one, enumerate(chunks)))


def corrupt(rec):
    """A wrong result for the same inputs: the least significant limb of a
    number, the leading digit of a text."""
    x = json.loads(json.dumps(rec))
    if "out" in x:
        x["out"] = ([(x["out"][0] + 1) % 10000 or 1] + x["out"][1:]) if x["out"] else [1]
    else:
        cp = x["out_cp"]
        if 48 <= cp[0] <= 57:
            cp[0] = 48 + (cp[0] - 48 + 1) % 10
        else:
            cp[0] = 63
    return x


def negative_control(res, prop, trace_path):
    """Wrong outputs for recorded inputs: TLC must report the invariant
    violated, and flag every corrupted record."""
    lines = V.read_trace(trace_path)
    want = {"C11": ["conv", "dur", "precision"],
            "C18": ["fmt_dur", "fmt_bytes", "fmt_f64", "fmt_tput"]}[prop]
    picked = []
    for op in want:
        cands = [i for i, x in enumerate(lines) if x.get("ev") == op and "panic" not in x
                 and (x.get("out") or x.get("out_cp"))]
        if not cands:
            raise V.ToolError(f"negative control: no {op} record")
        for i in (cands[0], cands[len(cands) // 2], cands[-1]):
            picked.append((lines[i - 1], corrupt(lines[i])))
        # a panic of the real code is a broken rule, too
        p = {k: v for k, v in lines[cands[0]].items() if k not in ("out", "out_cp", "out_s")}
        p["panic"] = "negative control"
        picked.append((lines[cands[0] - 1], p))
    if prop == "C18":
        # right number, wrong unit
        i = next(i for i, x in enumerate(lines) if x.get("ev") == "fmt_dur"
                 and x.get("out_cp", [])[-2:] == [110, 115])
        x = json.loads(json.dumps(lines[i]))
        x["out_cp"][-2] = 109
        picked.append((lines[i - 1], x))
    p = os.path.join(V.WORK, f"{prop}.negctl.ndjson")
    with open(p, "w") as f:
        for reset, rec in picked:
            f.write(json.dumps(reset) + "\n" + json.dumps(rec) + "\n")
    r1 = V.tlc_trace("NumTrace", f"NumTrace_{prop}", p)
    r2 = V.tlc_trace("NumTrace", f"NumTrace_{prop}_neg", p)
    res.extra["negative_control"] = {
        "corrupted_records": len(picked), "expected": f"{prop}Holds",
        "got": r1.get("violated"), "rules": V.bad_rules(r1["out"]),
        "every_corrupted_record_flagged": bool(r2.get("accepted")),
    }
    if r1.get("violated") != f"{prop}Holds":
        raise V.ToolError(f"negative control not caught: {r1.get('violated')}")
    if not r2.get("accepted"):
        raise V.ToolError("negative control: a corrupted record was not flagged "
                          f"(line {V.failing_line(r2)})")


ASSUMPTIONS = {
    "C11": [
        "BigNat arithmetic is cross-checked against TLC's native arithmetic below 2^31 (ASSUMEs), by the division/ring laws of MC_Time on wide operands, and by agreement with the code under test",
        "precision clause: virtual timestamp counter; plain clocks cost `step` ticks per read, quantised clocks show multiples of a quantum with reads cheaper than one quantum; steps too small to be visible in picoseconds (step*10^12/f = 0) are excluded because the measuring loop never terminates there",
        "only the TSC conversion path (TscTimestamp::duration_since) and FineDuration::from(Duration) are exercised; the OS Instant path is outside the sandbox",
    ],
    "C18": [
        "durations are compared exactly; byte sizes and throughputs are accepted iff the text is the documented formatting of some value within relative 2^-50 of the exact ratio (double-precision rounding)",
        "precisions/widths: default, .4 and left-aligned widths (what the table uses); padding may be counted in characters or bytes (the statement does not say)",
        "byte sizes are the doubles the formatter receives (exact ratio m*2^e logged by the harness)",
    ],
}


def mc(res, prop, tier):
    module, cfg = {"C11": ("MC_Time", "Time"), "C18": ("MC_Fmt", "Fmt")}[prop]
    cfg += "_q" if tier == "quick" else "_t"
    r = V.tlc_mc(module, cfg, workers=8, timeout=1500, coverage=False)
    res.add_mc(cfg, r)
    if not r.get("ok"):
        raise V.ToolError(f"{module}/{cfg}: {r.get('violated') or r.get('error') or r['raw_tail'][-600:]}")


def run(prop, tier, seed):
    res = V.Result(prop, tier, seed)
    res.assumptions = ASSUMPTIONS[prop]
    mc(res, prop, tier)

    scs = (gen_c11 if prop == "C11" else gen_c18)(tier, seed)
    # mix cheap and expensive records so that the parallel TLC runs are even
    random.Random(seed).shuffle(scs)
    trace_path, summary = V.run_driver(scs, f"{prop}.impl")
    res.extra["driver"] = summary
    ops = {}
    for sc in scs:
        ops.setdefault(sc["op"], set()).add(json.dumps({k: v for k, v in sc.items() if k != "id"},
                                                       sort_keys=True))
    res.extra["distinct_inputs"] = {op: len(v) for op, v in sorted(ops.items())}
    res.extra["scenarios"] = len(scs)
    lines = V.read_trace(trace_path)
    recs = [x for x in lines if x.get("ev") != "reset"]
    panics = [x for x in recs if "panic" in x]
    res.extra["records"] = len(recs)
    res.extra["panics_of_the_code"] = len(panics)
    seen = {}
    for i in range(1, len(lines)):
        x = lines[i]
        if x.get("ev") == "reset" or lines[i - 1].get("ev") != "reset":
            continue
        if seen.get(x["ev"], 0) < 2 and len(res.samples) < 8:
            seen[x["ev"]] = seen.get(x["ev"], 0) + 1
            res.samples.append({"input": lines[i - 1].get("scenario"),
                                "output": x.get("out_s", x.get("panic"))})
    # A scenario that took the driver process down (abort, endless loop
    # outside the scheduler) has no record; that is a verdict, not a tool error.
    crashed = summary.get("crashed_runs", [])
    for c in crashed:
        sc = scs[c["scenario_index"]]
        res.violation(f"{prop}Holds: {prop}:the_code_{c['how']}_the_process (scenario {sc.get('id')})",
                      {"kind": "num-trace", "scenario": sc, "invariant": f"{prop}Holds",
                       "rules": [f"{prop}:the_code_{c['how']}_the_process"], "failing_event": None})
    recs = [x for x in recs if x.get("ev") != "sched_end"]
    if len(recs) + len(crashed) != len(scs) and not summary.get("abandoned_scenarios"):
        raise V.ToolError(f"driver wrote {len(recs)} records for {len(scs)} scenarios")

    validate(res, prop, trace_path, "impl->spec")
    if not res.violations:
        negative_control(res, prop, trace_path)
    return res.finish()


def replay(prop, path):
    obj = json.load(open(path))
    res = V.Result(prop, "quick", 0)
    trace_path, _ = V.run_driver([obj["scenario"]], f"{prop}.replay")
    n = V.validate_monitor(res, prop, "NumTrace", f"NumTrace_{prop}", trace_path, "replay",
                           make_replay, known_filter(prop))
    if n == 0:
        print("replay: no violation reproduced")
    return res.finish()
