"""C06 / C07: the broadcast thread pool (Pool.tla, VStd.tla)."""
import json
import os
import random

import vcheck as V

INVARIANTS = {
    "C06": ["OncePerIndex", "ReturnAfterAllCalls", "ReturnHappensAfterCalls",
            "NoAccessAfterDrop", "SpawnOnlyMissing", "ResultsInIndexOrder",
            "TypeOK"],
    "C07": ["NoDeadlockObserved", "NoLeakObserved", "NoAbortObserved",
            "NoDeadlock", "TemporalProperty"],
}

MC_QUICK = ["Pool_q1", "Pool_q2"]
MC_THOROUGH = ["Pool_q1", "Pool_q2", "Pool_t1", "Pool_t2", "Pool_t3", "Pool_t4"]
# (config, invariant that must be reported as violated)
VARIANTS = [
    ("Pool_v_relaxed_sub", {"ReturnHappensAfterCalls"}),
    ("Pool_v_relaxed_load", {"ReturnHappensAfterCalls"}),
    # returning early breaks several invariants; whichever TLC reaches first
    ("Pool_v_if_park", {"ReturnAfterAllCalls", "ReturnHappensAfterCalls", "NoAccessAfterDrop"}),
    ("Pool_v_clone_late", {"NoAccessAfterDrop"}),
]


def gen_scenarios(tier, seed):
    rnd = random.Random(seed * 7919 + 17)
    scs = []
    # The repository's own three pool tests re-expressed as scenarios.
    scs.append({"kind": "pool", "id": "repo-extend",
                "history": [{"n": n, "panics": []} for n in (0, 1, 2, 3, 4, 8, 4, 0)],
                "schedule": {"source": "random", "seed": seed, "switch": 300}})
    scs.append({"kind": "pool", "id": "repo-broadcast-10", "use": "broadcast",
                "history": [{"n": 10, "panics": []}],
                "schedule": {"source": "random", "seed": seed + 1, "switch": 500}})
    n_random = 600 if tier == "quick" else 6000
    max_n = 3 if tier == "quick" else 6
    for k in range(n_random):
        hist = []
        for _ in range(rnd.choice([1, 1, 2, 2, 3, 4])):
            n = rnd.randint(0, max_n)
            panics = [i for i in range(n + 1) if rnd.random() < 0.25]
            bc = {"n": n, "panics": panics}
            if 0 in panics and rnd.random() < 0.5:
                # the caller's own call panics with a payload whose destructor panics too
                bc["bomb0"] = True
            hist.append(bc)
        scs.append({"kind": "pool", "id": f"r{k}", "history": hist,
                    "use": rnd.choice(["par_extend", "par_extend", "broadcast"]),
                    "reuse_vec": rnd.random() < 0.5,
                    "spurious": rnd.choice([0, 0, 1, 2]),
                    "schedule": {"source": "random", "seed": rnd.randrange(1 << 30),
                                 "switch": rnd.choice([50, 200, 400, 700, 1000])}})
    # spec -> impl: the round sequences of Extend.tla's instance (n <= 2 auxiliary threads, every
    # panicking subset, buffer cleared or appended to) through the real par_extend with one
    # shared buffer: all 28 x 28 two-round sequences in the thorough tier, a sample otherwise
    import itertools
    rounds = [(n, list(ps), ap) for n in range(3) for k in range(n + 2)
              for ps in itertools.combinations(range(n + 1), k) for ap in (False, True)]
    seqs = list(itertools.product(rounds, repeat=2))
    if tier == "quick":
        seqs = rnd.sample(seqs, 150)
    for j, sq in enumerate(seqs):
        scs.append({"kind": "pool", "id": f"x{j}", "use": "par_extend", "reuse_vec": True,
                    "history": [{"n": n, "panics": ps, "append": ap} for (n, ps, ap) in sq],
                    "spurious": 0,
                    "schedule": {"source": "random", "seed": rnd.randrange(1 << 30), "switch": rnd.choice([50, 300, 1000])}})
    # Bounded-exhaustive schedule enumeration on the implementation.
    dfs = [([(1, [])], 3, 1), ([(1, [1])], 2, 0), ([(2, [])], 2, 0),
           ([(1, []), (1, [])], 2, 1)]
    scs.append({"kind": "pool", "id": "dfs-bomb", "history": [{"n": 1, "panics": [0], "bomb0": True}, {"n": 1, "panics": []}],
                "spurious": 0, "schedule": {"source": "dfs", "bound": 2, "max_runs": 1500}})
    if tier == "thorough":
        dfs += [([(2, [])], 3, 1), ([(2, [1]), (1, [])], 2, 1),
                ([(1, []), (2, []), (0, [])], 2, 0), ([(3, [])], 2, 0),
                ([(2, [0, 2])], 3, 0)]
    for j, (hist, bound, spur) in enumerate(dfs):
        scs.append({"kind": "pool", "id": f"dfs{j}",
                    "history": [{"n": n, "panics": p} for n, p in hist],
                    "spurious": spur,
                    "schedule": {"source": "dfs", "bound": bound,
                                 "max_runs": 8000 if tier == "quick" else 150000}})
    return scs


def replay_obj(lines, line_no, r, layer):
    reset, start, end = V.scenario_at(lines, line_no)
    sc = dict(reset.get("scenario", {}))
    # the schedule is the sequence of acting threads (the first event, the
    # caller's thread_start, is not a choice)
    tids = [x["tid"] for x in lines[start + 1:end] if x.get("tid", -1) >= 0][1:]
    sc["schedule"] = {"source": "replay", "tids": tids}
    return {
        "kind": "pool-trace",
        "layer": layer,
        "scenario": sc,
        "invariant": r.get("violated"),
        "failing_line_in_run": line_no - start,
        "failing_event": lines[line_no - 1] if 0 < line_no <= len(lines) else None,
        "trace": lines[start:end],
    }


def validate(res, prop, trace_path, summary, label, remove_and_continue=True):
    """L2 (Pool.tla) validation with L1 (VStd monitors) fallback.
    Returns the number of violations found."""
    found = 0
    path = trace_path
    for attempt in range(12):
        lines = V.read_trace(path)
        if not lines:
            break
        runs = sum(1 for x in lines if x.get("ev") == "reset")
        r2 = V.tlc_trace("PoolTrace", f"PoolTrace_{prop}", path)
        res.add_trace(f"{label}:L2", r2, runs, len(lines))
        if r2["accepted"]:
            break
        line_no = V.failing_line(r2)
        if r2.get("violated"):
            res.violation(f"{r2['violated']} violated on an execution of the real pool (L2, {label})",
                          replay_obj(lines, line_no, r2, "L2"))
            found += 1
        else:
            # L2 cannot follow the code: ask L1 (property vocabulary only).
            r1 = V.tlc_trace("PoolL1Trace", f"PoolL1Trace_{prop}", path)
            res.add_trace(f"{label}:L1", r1, runs, len(lines))
            if r1.get("violated"):
                line_no = V.failing_line(r1)
                res.violation(f"{r1['violated']} violated on an execution of the real pool (L1, {label})",
                              replay_obj(lines, line_no, r1, "L1"))
                found += 1
            elif r1["accepted"]:
                reset, start, end = V.scenario_at(lines, line_no)
                res.drift.append({
                    "first_unmatched_event": lines[line_no - 1],
                    "scenario": reset.get("scenario", {}).get("id"),
                    "note": "Pool.tla (L2) rejects, VStd monitors (L1) accept with all invariants holding",
                })
                print(f"MODEL-DRIFT property={prop} event={json.dumps(lines[line_no - 1])}", flush=True)
            else:
                raise V.ToolError("L1 rejected the trace: primitive semantics not explained: "
                                  + r1.get("unmatched", "?"))
        if not remove_and_continue:
            break
        # Drop the offending run and examine the rest.
        reset, start, end = V.scenario_at(lines, line_no)
        rest = lines[:start] + lines[end:]
        path = trace_path + f".rest{attempt}"
        with open(path, "w") as f:
            for x in rest:
                f.write(json.dumps(x) + "\n")
    return found


def negative_control(res, prop, trace_path):
    """A single corrupted field / dropped event must be caught."""
    lines = V.read_trace(trace_path)
    # a completed run with at least one worker call that returned
    resets = [i for i, x in enumerate(lines) if x.get("ev") == "reset"] + [len(lines)]
    pick = None
    for a, b in zip(resets, resets[1:]):
        run = lines[a:b]
        if run[-1].get("outcome") == "completed" and any(x.get("ev") == "atomic_rmw" for x in run) \
                and any(x.get("ev") == "bcast_return" for x in run):
            pick = run
            break
    if pick is None:
        res.notes.append("negative control skipped: no completed run with a worker call in this trace")
        return
    lines = pick
    p = os.path.join(V.WORK, f"{prop}.negctl.ndjson")
    with open(p, "w") as f:
        for x in lines:
            f.write(json.dumps(x) + "\n")
    # the control is run against the layer that follows this code (L1 when L2 drifts)
    module = "PoolTrace" if V.tlc_trace("PoolTrace", f"PoolTrace_{prop}", p)["accepted"] else "PoolL1Trace"
    bad = [dict(x) for x in lines]
    if prop == "C06":
        idx = next(i for i, x in enumerate(bad) if x.get("ev") == "atomic_rmw")
        bad[idx]["ord"] = "Relaxed"
        expect = "ReturnHappensAfterCalls"
    else:
        idx = next(i for i, x in enumerate(bad) if x.get("ev") == "sched_end")
        bad[idx]["outcome"] = "deadlock"
        expect = "NoDeadlockObserved"
    with open(p, "w") as f:
        for x in bad:
            f.write(json.dumps(x) + "\n")
    r = V.tlc_trace(module, f"{module}_{prop}", p)
    ok1 = r.get("violated") == expect
    # dropped event -> rejection
    idx = next(i for i, x in enumerate(lines) if x.get("ev") == "recv")
    dropped = lines[:idx] + lines[idx + 1:]
    with open(p, "w") as f:
        for x in dropped:
            f.write(json.dumps(x) + "\n")
    r = V.tlc_trace(module, f"{module}_{prop}", p)
    ok2 = (not r["accepted"]) and "rejected_line" in r
    res.extra["negative_control"] = {"layer": module, "corrupted_field_caught": ok1, "dropped_event_rejected": ok2}
    if not (ok1 and ok2):
        raise V.ToolError(f"negative control not caught: {ok1} {ok2}")


def run_mc(res, prop, tier):
    for cfg in (MC_QUICK if tier == "quick" else MC_THOROUGH):
        r = V.tlc_mc("MC_Pool", cfg, workers=8)
        res.add_mc(cfg, r)
        if not r.get("ok"):
            if r.get("violated"):
                # The design itself breaks a property: a finding about the model;
                # it becomes a verdict only when confirmed on the real code.
                res.notes.append(f"MC {cfg}: {r['violated']} violated in the model")
                raise V.ToolError(f"model {cfg} violates {r['violated']} (model and code disagree or design defect)")
            raise V.ToolError(f"MC {cfg} failed: {r.get('error')}")
        cov = r.get("coverage", {})
        never = [a for a, n in cov.items() if n == 0 and a not in ("TypeOK",)]
        if never:
            res.notes.append(f"MC {cfg}: actions never taken: {never}")
    # Anti-vacuity: each mechanism named in the anchors is necessary.
    for cfg, expect in VARIANTS:
        r = V.tlc_mc("MC_Pool", cfg, workers=1, coverage=False)
        res.extra.setdefault("necessity_variants", []).append(
            {"config": cfg, "expected": sorted(expect), "got": r.get("violated")})
        if r.get("violated") not in expect:
            raise V.ToolError(f"necessity variant {cfg}: expected {expect}, got {r.get('violated')}")


def run_mc_extend(res, tier):
    """C06 'per-index results ... an empty entry exactly for the calls that panicked': par_extend and
    the reused result buffer of the sample loop (Extend.tla); the 'fill only when grown' shortcut
    (seeded four times) is the expected-to-fail variant."""
    r = V.tlc_mc("MC_Extend", "Extend_q" if tier == "quick" else "Extend_t", workers=4)
    res.add_mc("Extend", r)
    if not r.get("ok"):
        raise V.ToolError(f"MC_Extend: {r.get('violated') or r.get('error')}")
    r = V.tlc_mc("MC_Extend", "Extend_v_fill_when_grown", workers=1, coverage=False)
    expect = {"NoStaleEntryBelowLength", "ResultsAreThisRounds", "PanicSurfaces"}
    res.extra.setdefault("necessity_variants", []).append(
        {"config": "Extend_v_fill_when_grown", "expected": sorted(expect), "got": r.get("violated")})
    if r.get("violated") not in expect:
        raise V.ToolError(f"Extend_v_fill_when_grown: expected a violation, got {r.get('violated') or r.get('error')}")


def run(prop, tier, seed):
    res = V.Result(prop, tier, seed)
    res.assumptions = [
        "executions are sequentially consistent; weaker-memory effects are modelled through the logged Ordering arguments and the happens-before relation of VStd.tla",
        "the instrumented std shim (src/verif/vstd.rs) and the baton scheduler implement the primitive semantics of VStd.tla (guarded by PrimitivesSound in L1 runs)",
        "bounded: workers <= 3 in exhaustive model checking, preemption-bounded DFS and random schedules on the implementation",
    ]
    run_mc(res, prop, tier)
    if prop == "C06":
        run_mc_extend(res, tier)

    scs = gen_scenarios(tier, seed)
    trace_path, summary = V.run_driver(scs, f"{prop}.impl")
    res.extra["driver"] = summary
    lines = V.read_trace(trace_path)
    res.samples = [
        {"scenario": scs[2], "first_events": lines[1:14]},
        {"scenario": scs[-1]},
    ]
    validate(res, prop, trace_path, summary, "impl->spec")
    bad = {k: v for k, v in summary.get("outcomes", {}).items()
           if k in ("step_bound", "wall_timeout", "replay_diverged", "crashed", "hung")}
    if bad and not res.violations:
        raise V.ToolError(f"driver outcomes without a verdict: {bad}")

    import replay_pool
    replay_pool.run(res, prop, tier, seed, validate)

    if not res.violations:
        negative_control(res, prop, trace_path)
    return res.finish()


def replay(prop, path):
    obj = json.load(open(path))
    res = V.Result(prop, "quick", 0)
    sc = obj["scenario"]
    trace_path, summary = V.run_driver([sc], f"{prop}.replay")
    n = validate(res, prop, trace_path, summary, "replay", remove_and_continue=False)
    if n == 0:
        print("replay: no violation reproduced")
    return res.finish()
