"""Shared plumbing of /verif/bin/check.

Python never decides a property here: it generates scenario scripts, runs the
Rust driver and TLC, lexes TLC's verdict, and writes evidence / replay files.
"""
import json
import os
import re
import subprocess
import sys
import time

ROOT = os.path.dirname(os.path.dirname(os.path.abspath(__file__)))
WORK = os.path.join(ROOT, "work")
SPEC = os.path.join(ROOT, "spec")
HARNESS = os.path.join(ROOT, "harness")
EVIDENCE = os.path.join(ROOT, "evidence")
REPLAYS = os.path.join(WORK, "replays")
# Evaluation of a change to divan without touching /repo: VERIF_REPO=<copy or
# worktree of the repository> builds the harness against that tree (cargo
# `paths` override) into its own target directory and keeps evidence apart.
REPO_OVERRIDE = os.environ.get("VERIF_REPO")
if REPO_OVERRIDE:
    import hashlib
    _tag = hashlib.sha1(REPO_OVERRIDE.encode()).hexdigest()[:10]
    TARGET = os.path.join(WORK, f"target_{_tag}")
    WORK = os.path.join(WORK, f"ovr_{_tag}")
    EVIDENCE = os.path.join(WORK, "evidence")
    REPLAYS = os.path.join(WORK, "replays")
else:
    TARGET = os.path.join(HARNESS, "target")
DRIVER = os.path.join(TARGET, "debug", "driver")

EXIT_OK, EXIT_VIOLATION, EXIT_TOOL = 0, 1, 2


class ToolError(Exception):
    pass


def log(*a):
    print(*a, file=sys.stderr, flush=True)


def ensure_dirs():
    for d in (WORK, EVIDENCE, REPLAYS):
        os.makedirs(d, exist_ok=True)


def seed_from_env():
    try:
        return int(os.environ.get("VERIF_SEED", "1"))
    except ValueError:
        return 1


# --------------------------------------------------------------------- cargo

_built = False


def build_harness():
    """Offline (re)build of the harness against /repo's current working tree."""
    global _built
    if _built:
        return
    env = dict(os.environ)
    env["CARGO_NET_OFFLINE"] = "true"
    t0 = time.time()
    cmd = ["cargo", "build", "--offline", "--bins"]
    if REPO_OVERRIDE:
        cmd += ["--config", f'paths=["{REPO_OVERRIDE}"]', "--target-dir", TARGET]
    p = subprocess.run(
        cmd,
        cwd=HARNESS, env=env, stdout=subprocess.PIPE, stderr=subprocess.STDOUT,
        text=True)
    if p.returncode != 0:
        log(p.stdout[-6000:])
        raise ToolError("harness build failed")
    log(f"[build] harness ok in {time.time() - t0:.1f}s")
    _built = True


STALL_S = 45


def _driver_once(sc_path, tr_path, skip, timeout, progress, extra_args=()):
    """Runs the driver; kills it when the progress file has not changed for
    STALL_S seconds (a run of a few thousand events takes milliseconds)."""
    cmd = [DRIVER, "run", "--scenarios", sc_path, "--out", tr_path,
           "--progress", progress, "--skip", str(skip), *extra_args]
    errf = tr_path + ".stderr"
    with open(errf, "w") as ef:
        p = subprocess.Popen(cmd, stdout=subprocess.DEVNULL, stderr=ef)
        t0 = time.time()
        last_change = t0
        last_sig = None
        rc = None
        while True:
            try:
                rc = p.wait(timeout=0.5)
                break
            except subprocess.TimeoutExpired:
                pass
            try:
                st = os.stat(progress)
                sig = (st.st_mtime_ns, st.st_size)
            except OSError:
                sig = None
            now = time.time()
            if sig != last_sig:
                last_sig, last_change = sig, now
            if now - last_change > STALL_S or now - t0 > timeout:
                p.kill()
                p.wait()
                rc = "hung"
                break
    err = open(errf).read()
    os.remove(errf)
    return rc, err


def _merge_summary(total, stderr):
    m = re.search(r"DRIVER-SUMMARY (\{.*\})", stderr)
    if not m:
        return
    s = json.loads(m.group(1))
    total["runs"] = total.get("runs", 0) + s.get("runs", 0)
    total["events"] = total.get("events", 0) + s.get("events", 0)
    total["dfs_exhausted"] = total.get("dfs_exhausted", True) and s.get("dfs_exhausted", False)
    for k, v in s.get("outcomes", {}).items():
        total.setdefault("outcomes", {})[k] = total.get("outcomes", {}).get(k, 0) + v


MAX_RECOVERIES = 3


def run_driver(scenarios, name, timeout=900, extra_args=()):
    """Writes scenarios to a file, runs the driver, returns (trace_path, summary).

    The code under test may crash or hang the driver process (that is data,
    not a tool error): the run that did it is re-executed alone in streaming
    mode to recover the prefix of its trace, an end marker with outcome
    `crashed` / `hung` is appended, and the remaining scenarios are executed
    in a fresh process."""
    build_harness()
    sc_path = os.path.join(WORK, f"{name}.scenarios.ndjson")
    tr_path = os.path.join(WORK, f"{name}.trace.ndjson")
    progress = os.path.join(WORK, f"{name}.progress.json")
    with open(sc_path, "w") as f:
        for sc in scenarios:
            f.write(json.dumps(sc) + "\n")
    t0 = time.time()
    summary = {"crashed_runs": []}
    parts = []
    skip = 0
    deadline = time.time() + timeout
    while skip < len(scenarios):
        part = f"{tr_path}.part{len(parts)}"
        if os.path.exists(progress):
            os.remove(progress)
        rc, err = _driver_once(sc_path, part, skip, max(30, deadline - time.time()),
                               progress, extra_args)
        parts.append(part)
        _merge_summary(summary, err)
        if rc == 0:
            break
        if rc == 2:
            log(err[-3000:])
            raise ToolError("driver usage/tool error")
        # crash (signal), wall-timeout exit (3) or hang
        if not os.path.exists(progress):
            log(err[-3000:])
            raise ToolError(f"driver died (rc={rc}) before starting a scenario")
        prog = json.load(open(progress))
        idx = prog["scenario_index"]
        how = "hung" if rc in ("hung", 3) else "crashed"
        log(f"[driver] {how} (rc={rc}) in scenario #{idx} run {prog['run']}; recovering its prefix")
        # keep only the complete runs of this part
        lines = open(part).read().splitlines() if os.path.exists(part) else []
        last_reset = max((i for i, l in enumerate(lines) if '"ev":"reset"' in l), default=None)
        if lines and last_reset is not None and '"sched_end"' not in lines[-1]:
            lines = lines[:last_reset]
        with open(part, "w") as f:
            f.write("\n".join(lines) + ("\n" if lines else ""))
        # re-execute the offending run alone, streaming
        one = dict(scenarios[idx])
        one["schedule"] = prog["schedule"]
        one["wall_timeout"] = 10
        one_sc = os.path.join(WORK, f"{name}.crash.scenario.ndjson")
        stream = f"{tr_path}.crash{len(parts)}"
        with open(one_sc, "w") as f:
            f.write(json.dumps(one) + "\n")
        if os.path.exists(stream):
            os.remove(stream)
        try:
            subprocess.run([DRIVER, "run", "--scenarios", one_sc, "--out", os.devnull,
                            "--stream", stream, *extra_args],
                           stdout=subprocess.PIPE, stderr=subprocess.PIPE, timeout=40)
        except subprocess.TimeoutExpired:
            pass
        got = open(stream).read().splitlines() if os.path.exists(stream) else []
        got = [l for l in got if l.strip()]
        reproduced = bool(got) and '"sched_end"' not in got[-1]
        if reproduced:
            got.append(json.dumps({"seq": 0, "tid": -1, "ev": "sched_end", "outcome": how}))
        with open(stream, "w") as f:
            f.write("\n".join(got) + ("\n" if got else ""))
        parts.append(stream)
        summary["crashed_runs"].append({"scenario_index": idx, "how": how,
                                        "recovered_events": len(got),
                                        "reproduced_alone": reproduced})
        if reproduced:
            summary.setdefault("outcomes", {})[how] = summary.get("outcomes", {}).get(how, 0) + 1
        else:
            # The run completes when executed alone: the stall was not caused
            # by this scenario's code path deterministically; its complete
            # trace is used.
            continue_ok = True
        skip = idx + 1
        if sum(1 for c in summary["crashed_runs"] if c["reproduced_alone"]) >= MAX_RECOVERIES \
                or len(summary["crashed_runs"]) >= 4 * MAX_RECOVERIES:
            summary["abandoned_scenarios"] = len(scenarios) - skip
            log(f"[driver] {MAX_RECOVERIES} runs crashed/hung; abandoning the remaining "
                f"{len(scenarios) - skip} scenarios")
            break
        if time.time() > deadline:
            raise ToolError("driver time budget exhausted")
    with open(tr_path, "w") as out:
        for part in parts:
            if os.path.exists(part):
                with open(part) as f:
                    out.write(f.read())
                os.remove(part)
    if not summary["crashed_runs"]:
        del summary["crashed_runs"]
    summary["wall_s"] = round(time.time() - t0, 2)
    return tr_path, summary


# ----------------------------------------------------------------------- TLC

def _tlc_env(extra_java=""):
    env = dict(os.environ)
    # TLC unpacks its standard modules into a fresh directory of java.io.tmpdir on every run:
    # keep those under work/ (one directory per checking process, removed when it exits) instead
    # of /tmp; concurrent TLC runs of one process share it, each with its own tlc-* subdirectory
    jtmp = os.path.join(WORK, "jtmp", str(os.getpid()))
    if not os.path.isdir(jtmp):
        os.makedirs(jtmp, exist_ok=True)
        import atexit
        import shutil
        atexit.register(shutil.rmtree, jtmp, True)
    env["JAVA_TOOL_OPTIONS"] = (f"-DTLA-Library={SPEC}:{SPEC}/mc:{SPEC}/trace -Djava.io.tmpdir={jtmp} "
                                + extra_java).strip()
    return env


def parse_tlc(out):
    r = {"raw_tail": out[-3000:]}
    m = re.search(r"(\d+) states generated, (\d+) distinct states found", out)
    if m:
        r["generated"] = int(m.group(1))
        r["distinct"] = int(m.group(2))
    r["ok"] = "Model checking completed. No error has been found." in out
    m = re.search(r"Invariant (\w+) is violated", out)
    if m:
        r["violated"] = m.group(1)
    if "Temporal properties were violated" in out:
        r["violated"] = r.get("violated") or "TemporalProperty"
    m = re.search(r"TRACE-REJECTED at line\", (\d+), \"of\", (\d+)", out)
    if m:
        r["rejected_line"] = int(m.group(1))
        r["trace_len"] = int(m.group(2))
    m = re.search(r"\"UNMATCHED\", \"(.*)\">>", out)
    if m:
        r["unmatched"] = m.group(1).replace('\\"', '"')
    # value of l in the last printed state of an error trace
    ls = re.findall(r"/\\ l = (\d+)", out)
    if ls:
        r["last_l"] = int(ls[-1])
    if "Error:" in out and not r.get("violated") and "rejected_line" not in r:
        m = re.search(r"Error: (.*)", out)
        r["error"] = m.group(1) if m else "unknown TLC error"
    # coverage lines: <Action line ...>: distinct:total
    cov = {}
    for m in re.finditer(r"^<(\w+) line \d+, col \d+ to line \d+, col \d+ of module (\w+)>: (\d+):(\d+)", out, re.M):
        cov[m.group(1)] = cov.get(m.group(1), 0) + int(m.group(4))
    if cov:
        r["coverage"] = cov
    return r


def tlc_mc(module, cfg, workers=8, timeout=1800, coverage=True, simulate=None,
           extra=()):
    """Exhaustive (or simulated) model checking of spec/mc/<module>.tla."""
    meta = os.path.join(WORK, "tlc", f"{module}_{cfg}")
    os.makedirs(meta, exist_ok=True)
    cmd = ["timeout", str(timeout), "tlc", "-workers", str(workers),
           "-metadir", meta, "-cleanup", "-noGenerateSpecTE",
           "-config", f"{cfg}.cfg"]
    if coverage:
        cmd += ["-coverage", "1"]
    if simulate:
        cmd += ["-simulate", simulate]
    cmd += list(extra) + [f"{module}.tla"]
    t0 = time.time()
    p = subprocess.run(cmd, cwd=os.path.join(SPEC, "mc"), env=_tlc_env(),
                       stdout=subprocess.PIPE, stderr=subprocess.STDOUT, text=True)
    r = parse_tlc(p.stdout)
    r["rc"] = p.returncode
    r["wall_s"] = round(time.time() - t0, 2)
    r["out"] = p.stdout
    if p.returncode == 124:
        raise ToolError(f"TLC timeout on {module}/{cfg}")
    return r


def tlc_trace(module, cfg, trace_path, timeout=1800, env_extra=None):
    """Trace validation: spec/trace/<module>.tla over an ndjson trace."""
    meta = os.path.join(WORK, "tlc", f"{module}_{cfg}_{os.path.basename(trace_path)}")
    os.makedirs(meta, exist_ok=True)
    env = _tlc_env("-Xss1g -Dtlc2.tool.queue.IStateQueue=StateDeque")
    env["TRACE"] = trace_path
    if env_extra:
        env.update(env_extra)
    cmd = ["timeout", str(timeout), "tlc", "-workers", "1", "-metadir", meta,
           "-cleanup", "-noGenerateSpecTE", "-config", f"{cfg}.cfg",
           f"{module}.tla"]
    t0 = time.time()
    p = subprocess.run(cmd, cwd=os.path.join(SPEC, "trace"), env=env,
                       stdout=subprocess.PIPE, stderr=subprocess.STDOUT, text=True)
    r = parse_tlc(p.stdout)
    r["rc"] = p.returncode
    r["wall_s"] = round(time.time() - t0, 2)
    r["out"] = p.stdout
    if p.returncode == 124:
        raise ToolError(f"TLC timeout validating {trace_path}")
    r["accepted"] = bool(r.get("ok")) and "rejected_line" not in r and "violated" not in r
    if not r["accepted"] and "violated" not in r and "rejected_line" not in r:
        raise ToolError("TLC failed: " + r.get("error", r["raw_tail"][-800:]))
    return r


# ---------------------------------------------------------------- trace util

def read_trace(path):
    with open(path) as f:
        return [json.loads(l) for l in f if l.strip()]


def scenario_at(lines, idx):
    """Returns (reset_record, start_index, end_index) of the run containing
    1-based line `idx`."""
    idx = max(1, min(idx, len(lines)))
    start = idx - 1
    while start > 0 and lines[start].get("ev") != "reset":
        start -= 1
    end = idx
    while end < len(lines) and lines[end].get("ev") != "reset":
        end += 1
    return lines[start], start, end


def failing_line(r):
    """1-based index of the trace line whose consumption failed / violated."""
    if "violated" in r and "last_l" in r:
        return r["last_l"] - 1
    if "rejected_line" in r:
        return r["rejected_line"]
    return None


def project(trace_path, keep, suffix=".proj"):
    """Writes the sub-sequence of events whose `ev` is in `keep` (a documented,
    deterministic projection onto the layer a trace spec talks about).  Runs
    whose reset line lacks `tids` (recovered after a crash) get it derived
    from the acting threads of the full event sequence."""
    out_path = trace_path + suffix
    n = 0
    with open(trace_path) as f, open(out_path, "w") as out:
        block = []

        def flush():
            nonlocal n
            if not block:
                return
            head = block[0]
            if head.get("ev") == "reset" and "tids" not in head:
                head["tids"] = [x["tid"] for x in block[1:] if x.get("tid", -1) >= 0][1:]
            for x in block:
                if x.get("ev") in keep:
                    out.write(json.dumps(x) + "\n")
                    n += 1
        for line in f:
            if not line.strip():
                continue
            x = json.loads(line)
            if x.get("ev") == "reset":
                flush()
                block = []
            block.append(x)
        flush()
    return out_path, n


def bad_rules(tlc_out):
    """Rule names recorded by a monitor spec in its `bad` variable (last state)."""
    m = re.findall(r"/\\ bad = \{([^}]*)\}", tlc_out)
    if not m:
        return []
    return re.findall(r'"([^"]+)"', m[-1])


def validate_monitor(res, prop, module, cfg, trace_path, label, make_replay,
                     is_known=None, max_rounds=20):
    """Validates a (projected) trace with a monitor-style trace spec.  Every
    violated invariant becomes a VIOLATION (or a KNOWN-FINDING when
    `is_known(replay_obj)` returns a description); the offending run is
    removed and the rest examined.  A rejection is a tool error: a monitor
    accepts every order of events."""
    path = trace_path
    found = 0
    for attempt in range(max_rounds):
        lines = read_trace(path)
        if not lines:
            break
        runs = sum(1 for x in lines if x.get("ev") == "reset")
        r = tlc_trace(module, cfg, path)
        res.add_trace(f"{label}", r, runs, len(lines))
        if r["accepted"]:
            return found
        line_no = failing_line(r)
        if not r.get("violated"):
            raise ToolError(f"{module} rejected the trace at line {r.get('rejected_line')}: "
                            f"{r.get('unmatched', '?')[:300]}")
        reset, start, end = scenario_at(lines, line_no)
        rules = [x for x in bad_rules(r["out"]) if x.startswith(prop + ":")] or bad_rules(r["out"])
        obj = make_replay(lines, start, end, line_no, r)
        obj["rules"] = rules
        known = is_known(obj) if is_known else None
        if known:
            res.known_finding(known)
        else:
            res.violation(f"{r['violated']}: {', '.join(rules) or '?'} ({label}, scenario {reset.get('scenario', {}).get('id')})", obj)
            found += 1
        rest = lines[:start] + lines[end:]
        path = trace_path + f".rest{attempt}"
        with open(path, "w") as f:
            for x in rest:
                f.write(json.dumps(x) + "\n")
    else:
        res.notes.append(f"{label}: stopped after {max_rounds} offending runs; remaining runs unexamined")
    return found


# ------------------------------------------------------------ verdict output

_replay_counter = 0


def write_replay(prop, obj):
    global _replay_counter
    ensure_dirs()
    _replay_counter += 1
    path = os.path.join(REPLAYS, f"{prop}-{int(time.time())}-{_replay_counter}.json")
    with open(path, "w") as f:
        json.dump(obj, f, indent=1)
    return path


def load_known_findings():
    p = os.path.join(ROOT, "known_findings.json")
    if not os.path.exists(p):
        return {"findings": [], "fixed": []}
    return json.load(open(p))


class Result:
    """Accumulates what one check invocation did."""

    def __init__(self, prop, tier, seed, level="model_checking"):
        self.prop, self.tier, self.seed, self.level = prop, tier, seed, level
        self.t0 = time.time()
        self.states = 0
        self.transitions = 0
        self.traces = 0
        self.events = 0
        self.samples = []
        self.extra = {}
        self.assumptions = []
        self.violations = []      # (what, replay_path)
        self.known = []           # strings
        self.drift = []
        self.notes = []

    def add_mc(self, name, r):
        self.states += r.get("distinct", 0)
        self.transitions += r.get("generated", 0)
        self.extra.setdefault("mc_runs", []).append({
            "config": name, "distinct": r.get("distinct"),
            "generated": r.get("generated"), "wall_s": r.get("wall_s"),
            "result": "ok" if r.get("ok") else r.get("violated", r.get("error", "?")),
            "coverage": r.get("coverage"),
        })

    def add_trace(self, name, r, runs, events):
        self.traces += runs
        self.events += events
        self.states += r.get("distinct", 0)
        self.transitions += r.get("generated", 0)
        self.extra.setdefault("trace_runs", []).append({
            "trace": name, "runs": runs, "events": events,
            "tlc_states": r.get("distinct"), "wall_s": r.get("wall_s"),
            "accepted": r.get("accepted"),
        })

    def violation(self, what, replay_obj):
        replay_obj = dict(replay_obj)
        replay_obj["property"] = self.prop
        replay_obj["what"] = what
        path = write_replay(self.prop, replay_obj)
        self.violations.append((what, path))
        print(f"VIOLATION property={self.prop} replay={path}", flush=True)
        log(f"  -> {what}")

    def known_finding(self, what):
        self.known.append(what)
        print(f"KNOWN-FINDING: property={self.prop} {what}", flush=True)

    def finish(self):
        ensure_dirs()
        cov = {
            "states": max(self.states, 0),
            "transitions": max(self.transitions, 0),
            "traces_validated_against_impl": self.traces,
            "samples": self.samples[:8] or ["<none>"],
            "events_validated": self.events,
            "exhaustive": False,
        }
        cov.update(self.extra)
        if self.drift:
            cov["model_drift"] = self.drift
        if self.known:
            cov["known_findings_reported"] = self.known
        if self.notes:
            cov["notes"] = self.notes
        ev = {
            "property_id": self.prop,
            "tier": self.tier,
            "seed": self.seed,
            "level": self.level,
            "coverage": cov,
            "assumptions": self.assumptions,
            "wall_s": round(time.time() - self.t0, 2),
            "violations": len(self.violations),
        }
        with open(os.path.join(EVIDENCE, f"{self.prop}.json"), "w") as f:
            json.dump(ev, f, indent=1)
        return EXIT_VIOLATION if self.violations else EXIT_OK
