"""Back-end M: abstract benchmark programs rendered to REAL Rust source that
uses the real `#[divan::bench]` / `#[divan::bench_group]` attribute macros in
every syntactic form, compiled as one cargo package with one `[[bin]]` per
program, executed under the deterministic scheduler with a virtual clock.

Python never judges: it writes sources (and remembers what it wrote: module
path, raw / display name, file, line and column of the `#` of every attribute,
option values, argument labels, expected `type_name` texts), runs cargo and the
binaries, lexes stdout and the event log into `run` records.  The records are
judged by spec/trace/RunnerTrace.tla (rules C12: ... C20:).
"""
import json
import os
import random
import shutil
import subprocess
import time

import progs
import vcheck as V

MROOT = os.path.join(V.WORK, "mgen")
TARGET = os.path.join(MROOT, "target")

cp = progs.cp
strip_raw = progs.strip_raw

BENCH_NAMES = ["f", "g", "add", "sub", "a1", "a01", "a10", "a2", "b", "z9", "r#fn", "r#match", "r#type",
               "x_y", "Zeta", "é", "名前", "f10", "f2", "f1", "k", "r#loop", "run", "parse", "h", "q7", "r#solo"]
MOD_NAMES = ["m", "n", "m2", "m10", "r#mod", "util", "deep", "a", "b", "r#impl", "inner", "x1",
             # raw identifiers that are NOT keywords (rustc drops their r# in module_path!())
             "r#plain", "r#helpers"]
RESERVED = {"common", "tymod", "main", "t0", "t1"}
BENCH_CUSTOM = ["Custom", "my bench", "α", "n1", "bench-1", "Fast path"]
GROUP_CUSTOM = ["Group One", "G", "grp", "β set", "io"]

# (rust type expression, expected std::any::type_name with {c} = crate name)
TYPES = [
    ("crate::T0", "{c}::T0"),
    ("crate::T1", "{c}::T1"),
    ("crate::tymod::T2", "{c}::tymod::T2"),
    ("crate::tymod::inner::T3", "{c}::tymod::inner::T3"),
    ("Vec<crate::T0>", "alloc::vec::Vec<{c}::T0>"),
    ("u8", "u8"),
    ("Option<crate::tymod::T2>", "core::option::Option<{c}::tymod::T2>"),
    ("String", "alloc::string::String"),
    ("&'static str", "&str"),
    ("[u8; 4]", "[u8; 4]"),
    ("LOCAL", None),        # a struct defined next to the function, named by its bare identifier
    # type expressions that do not begin with a path
    ("&'static String", "&alloc::string::String"),
    ("(String, i32)", "(alloc::string::String, i32)"),
    ("[String; 2]", "[alloc::string::String; 2]"),
    ("fn(String) -> u8", "fn(alloc::string::String) -> u8"),
]
TYPE_LISTS = [[0, 1], [2, 0], [1], [3, 2, 0], [], [4, 5], [6, 7, 0], [10, 0], [8, 9, 5], [10], [3, 10, 4, 1],
              [7, 11], [12, 13, 0], [14, 7], [11, 12, 13, 14]]
CONST_LISTS = [[3, 1, 2], [10, 9, 100], [-1, 5], [7], [], [0, 255], [-128, 127, 0], [2, 20, 3, 1], [42, 4]]
COST = [100, 500, 1000, 3000]

FORMS = set()       # every syntactic form emitted in this process (evidence)


def form(name):
    FORMS.add(name)


# ------------------------------------------------------------------ arguments

def _ints(rnd, n=None, lo=-20, hi=120):
    n = rnd.randint(1, 6) if n is None else n
    return rnd.sample(range(lo, hi), n)


def gen_args(rnd, k, long_ok=True):
    """One argument list in one of the supported iterator kinds.  Returns the
    labels the rows must carry plus what is needed to write the source."""
    kinds = ["int_array", "int_array", "int_array_ref", "int_slice_const", "int_slice_iter", "range", "range_incl",
             "range_step", "str_array", "str_slice_const", "str_slice_copied", "vec_string_fn", "string_array",
             "cow_array", "box_str", "debug_enum", "debug_enum_ref", "debug_tuple", "display_type",
             "display_and_debug", "float_array", "char_array", "bool_array", "empty_literal", "empty_vec",
             "empty_range", "static_array_ref", "vec_macro", "long_array", "long_range", "mixed_array",
             "impl_iter_string_fn", "debug_enum_noncopy_ref"]
    kind = rnd.choice(kinds)
    if not long_ok and kind.startswith("long"):
        kind = "int_array"
    a = {"form": kind, "aux": [], "recv": "a.to_string()", "wrap_ok": True, "elem_ok": False, "arg_kind": "str"}
    strs = rnd.choice([["a", "b"], ["x10", "x2", "x1"], ["foo", "Bar", "baz"], ["é", "e", "z"], ["a b", "c"],
                       ["k9", "k10", "K1", "k01"], ["one"], ["p", "q", "r", "s", "t"]])
    lit = lambda s: json.dumps(s, ensure_ascii=False)
    if kind in ("int_array", "int_array_ref", "vec_macro", "long_array"):
        ty = rnd.choice(["i32", "i64", "isize", "i16"])
        vals = _ints(rnd, rnd.randint(12, 30) if kind == "long_array" else None)
        if rnd.random() < 0.4:
            ty = rnd.choice(["u64", "usize", "u32", "u8"])
            vals = [abs(v) for v in vals]
            vals = list(dict.fromkeys(vals))
        sfx = ty if rnd.random() < 0.3 else ""
        elems = [f"{v}{sfx}" for v in vals]
        a.update(labels=[str(v) for v in vals], elems=elems, param=("&" + ty) if kind == "int_array_ref" else ty,
                 arg_kind="int", elem_ok=True)
        a["expr"] = ("vec![%s]" if kind == "vec_macro" else "[%s]") % ", ".join(elems)
    elif kind in ("int_slice_const", "int_slice_iter", "static_array_ref"):
        ty = rnd.choice(["i64", "i32", "u16"])
        vals = [abs(v) for v in _ints(rnd)] if ty == "u16" else _ints(rnd)
        vals = list(dict.fromkeys(vals))
        body = ", ".join(str(v) for v in vals)
        if kind == "static_array_ref":
            a["aux"] = [f"static SL_{k}: [{ty}; {len(vals)}] = [{body}];"]
            a["expr"] = f"&SL_{k}"
        else:
            a["aux"] = [f"const SL_{k}: &[{ty}] = &[{body}];"]
            a["expr"] = f"SL_{k}" if kind == "int_slice_const" else rnd.choice([f"SL_{k}.iter()", f"SL_{k}.iter().copied()"])
        a.update(labels=[str(v) for v in vals], param=rnd.choice([ty, ty]) if "copied" in a["expr"] else rnd.choice([ty, "&" + ty]),
                 arg_kind="int")
    elif kind in ("range", "range_incl", "range_step", "long_range", "empty_range"):
        ty = rnd.choice(["i32", "i64", "u32", "usize"])
        lo = rnd.randint(0, 9) if ty[0] == "u" else rnd.randint(-6, 9)
        n = rnd.randint(1, 6)
        if kind == "long_range":
            n = rnd.randint(12, 30)
        if kind == "empty_range":
            vals, a["expr"] = [], f"{lo}..{lo}"
        elif kind == "range_incl":
            vals, a["expr"] = list(range(lo, lo + n)), f"{lo}..={lo + n - 1}"
        elif kind == "range_step":
            st = rnd.choice([2, 3, 5])
            vals, a["expr"] = list(range(lo, lo + n * st, st)), f"({lo}..{lo + n * st}).step_by({st})"
        else:
            vals, a["expr"] = list(range(lo, lo + n)), rnd.choice([f"{lo}..{lo + n}", f"({lo}..{lo + n})"])
        a.update(labels=[str(v) for v in vals], param=ty, arg_kind="int")
    elif kind == "str_array":
        a.update(labels=strs, expr="[%s]" % ", ".join(lit(s) for s in strs), param="&str", elem_ok=True,
                 elems=[lit(s) for s in strs])
    elif kind in ("str_slice_const", "str_slice_copied"):
        a["aux"] = [f"const STRS_{k}: &[&str] = &[%s];" % ", ".join(lit(s) for s in strs)]
        a.update(labels=strs, param="&str",
                 expr=f"STRS_{k}" if kind == "str_slice_const" else rnd.choice([f"STRS_{k}.iter().copied()", f"STRS_{k}.iter()"]))
    elif kind == "mixed_array":
        # literal, const item and function call side by side, as in the documentation
        vals = [abs(v) for v in _ints(rnd, 3)]
        vals = list(dict.fromkeys(vals))
        while len(vals) < 3:
            vals.append(max(vals) + 1)
        a["aux"] = [f"const LEN_{k}: usize = {vals[1]};", f"fn len_{k}() -> usize {{ {vals[2]} }}"]
        a.update(labels=[str(v) for v in vals], expr=f"[{vals[0]}, LEN_{k}, len_{k}()]", param="usize", arg_kind="int",
                 elem_ok=True, elems=[str(vals[0]), f"LEN_{k}", f"len_{k}()"])
    elif kind == "impl_iter_string_fn":
        a["aux"] = [f"fn strings_{k}() -> impl Iterator<Item = String> {{ [%s].into_iter().map(String::from) }}" % ", ".join(lit(s) for s in strs)]
        a.update(labels=strs, expr=f"strings_{k}()", param="&str")
    elif kind == "debug_enum_noncopy_ref":
        variants = rnd.sample(["Alpha", "Beta", "Gamma", "Delta"], rnd.randint(1, 4))
        a["aux"] = [f"#[derive(Debug)] enum K_{k} {{ %s }}" % ", ".join(sorted(variants))]
        a.update(labels=variants, expr="[%s]" % ", ".join(f"K_{k}::{v}" for v in variants), param=f"&K_{k}",
                 recv='format!("{:?}", a)')
    elif kind == "vec_string_fn":
        a["aux"] = [f"fn mk_{k}() -> Vec<String> {{ vec![%s] }}" % ", ".join(f"{lit(s)}.to_string()" for s in strs)]
        a.update(labels=strs, expr=f"mk_{k}()", param=rnd.choice(["&str", "&String"]))
    elif kind == "string_array":
        a.update(labels=strs, param=rnd.choice(["&str", "&String"]),
                 expr=rnd.choice(["[%s].map(String::from)", "[%s].iter().map(|s| s.to_string())"]) % ", ".join(lit(s) for s in strs))
    elif kind == "cow_array":
        el = [(f"std::borrow::Cow::Borrowed({lit(s)})" if i % 2 == 0 else f"std::borrow::Cow::Owned(String::from({lit(s)}))")
              for i, s in enumerate(strs)]
        # a block expression yielding Vec<Cow<'static, str>>
        a.update(labels=strs, param="&str",
                 expr="{ let v: Vec<std::borrow::Cow<'static, str>> = vec![%s]; v }" % ", ".join(el))
    elif kind == "box_str":
        a.update(labels=strs, expr="[%s]" % ", ".join(f"Box::<str>::from({lit(s)})" for s in strs), param="&Box<str>")
    elif kind in ("debug_enum", "debug_enum_ref"):
        variants = rnd.sample(["Alpha", "Beta", "Gamma", "Delta", "V10", "V2", "V1"], rnd.randint(1, 5))
        a["aux"] = [f"#[derive(Debug, Clone, Copy)] enum K_{k} {{ %s }}" % ", ".join(sorted(variants))]
        a.update(labels=variants, expr="[%s]" % ", ".join(f"K_{k}::{v}" for v in variants),
                 param=f"K_{k}" if kind == "debug_enum" else f"&K_{k}", recv='format!("{:?}", a)')
    elif kind == "debug_tuple":
        vals = [(rnd.randint(0, 9), rnd.randint(0, 9)) for _ in range(rnd.randint(1, 4))]
        vals = list(dict.fromkeys(vals))
        a.update(labels=[f"({x}, {y})" for x, y in vals], expr="[%s]" % ", ".join(f"({x}, {y})" for x, y in vals),
                 param="(i32, i32)", recv='format!("{:?}", a)')
    elif kind in ("display_type", "display_and_debug"):
        vals = _ints(rnd, rnd.randint(1, 4), 0, 50)
        derive = "#[derive(Debug)] " if kind == "display_and_debug" else ""
        a["aux"] = [f"{derive}struct Disp_{k}(i32);",
                    f"impl std::fmt::Display for Disp_{k} {{ fn fmt(&self, f: &mut std::fmt::Formatter<'_>) -> std::fmt::Result {{ write!(f, \"d{{}}\", self.0) }} }}"]
        a.update(labels=[f"d{v}" for v in vals], expr="[%s]" % ", ".join(f"Disp_{k}({v})" for v in vals), param=f"&Disp_{k}")
    elif kind == "float_array":
        vals = rnd.sample(["1.5", "0.25", "2.75", "-0.5", "10.125"], rnd.randint(1, 4))
        a.update(labels=vals, expr="[%s]" % ", ".join(vals), param="f64", elem_ok=True, elems=list(vals))
    elif kind == "char_array":
        vals = rnd.sample(["x", "y", "Z", "é", "7"], rnd.randint(1, 4))
        a.update(labels=vals, expr="[%s]" % ", ".join(f"'{v}'" for v in vals), param="char", elem_ok=True,
                 elems=[f"'{v}'" for v in vals])
    elif kind == "bool_array":
        vals = rnd.choice([["true", "false"], ["false"], ["false", "true"]])
        a.update(labels=vals, expr="[%s]" % ", ".join(vals), param="bool", elem_ok=True, elems=list(vals))
    elif kind == "empty_literal":
        a.update(labels=[], expr="[]", param=rnd.choice(["usize", "&str", "i32"]), wrap_ok=False)
    elif kind == "empty_vec":
        a.update(labels=[], expr="Vec::<i32>::new()", param="i32")
    # how the evaluation of the expression is made observable
    r = rnd.random()
    if a["wrap_ok"] and r < 0.45:
        a["eval"] = "wrap"
    elif a["elem_ok"] and a.get("elems") and r < 0.75:
        a["eval"] = "elem"
    else:
        a["eval"] = "none"
    return a


def args_expr(a, what, fid):
    if a["eval"] == "wrap":
        form("args:eval_wrapper_call")
        return f'crate::common::eval_args("{what}", {fid}, {a["expr"]})'
    if a["eval"] == "elem":
        form("args:eval_in_first_element")
        el = list(a["elems"])
        el[0] = f'crate::common::ev("{what}", {fid}, {el[0]})'
        return ("vec![%s]" if a["form"] == "vec_macro" else "[%s]") % ", ".join(el)
    return a["expr"]


# -------------------------------------------------------------------- options

def opt_strings(rnd, opts, k, allow_attr_ignore=True):
    """-> (option strings, aux lines, separate #[ignore] placement or None)."""
    out, aux, ign = [], [], None
    key = lambda s: ("r#" + s) if rnd.random() < 0.06 and (form("option:raw_identifier_key") or True) else s
    if "sample_count" in opts:
        form("option:sample_count")
        out.append(f"{key('sample_count')} = {opts['sample_count']}" + rnd.choice(["", "", "u32"]))
    if "sample_size" in opts:
        form("option:sample_size")
        out.append(f"{key('sample_size')} = {opts['sample_size']}")
    if "threads" in opts:
        t = opts["threads"]
        choices = ["[%s]" % ", ".join(map(str, t))]
        if len(t) == 1:
            choices.append(str(t[0]))
            if t == [0]:
                choices += ["true", None]
            if t == [1]:
                choices.append("false")
        else:
            choices += [f"THR_{k}", "vec![%s]" % ", ".join(map(str, t))]
        c = rnd.choice(choices)
        if c is None:
            form("option:threads(bare)")
            out.append("threads")
        else:
            if c.startswith("THR_"):
                aux.append(f"const THR_{k}: &[usize] = &[%s];" % ", ".join(map(str, t)))
            form("option:threads=" + ("const" if c.startswith("THR_") else "vec" if c.startswith("vec") else
                                       "array" if c.startswith("[") else "bool" if c in ("true", "false") else "usize"))
            out.append(f"threads = {c}")
    for name in ("min_time", "max_time"):
        if name + "_ns" in opts:
            ns = opts[name + "_ns"]
            c = rnd.choice(["dur", "f64"] + (["u64"] if ns == 0 else []))
            form(f"option:{name}={c}")
            if c == "dur":
                out.append(f"{name} = std::time::Duration::from_nanos({ns})")
            elif c == "f64":
                out.append(f"{name} = {ns / 1e9:.9f}")
            else:
                out.append(f"{name} = 0")
    if "skip_ext_time" in opts:
        v = opts["skip_ext_time"]
        form("option:skip_ext_time")
        out.append("skip_ext_time" if v and rnd.random() < 0.5 else f"skip_ext_time = {'true' if v else 'false'}")
    if "ignore" in opts:
        if opts["ignore"]:
            c = rnd.choice(["bare", "eq", "attr_after", "attr_before", "reason_after", "reason_before"]
                           if allow_attr_ignore else ["bare", "eq"])
            if allow_attr_ignore and opts.get("ignore_form"):
                c = opts["ignore_form"]
            form("ignore:" + {"bare": "option", "eq": "option=true", "attr_after": "#[ignore] after", "attr_before": "#[ignore] before",
                              "reason_after": "#[ignore = \"..\"] after", "reason_before": "#[ignore = \"..\"] before"}[c])
            if c == "bare":
                out.append(key("ignore"))
            elif c == "eq":
                out.append("ignore = true")
            else:
                ign = c
        else:
            form("ignore:option=false")
            out.append("ignore = false")
    if opts.get("counters"):
        cs = opts["counters"]
        ty = ["BytesCount", "CharsCount", "CyclesCount", "ItemsCount"]
        names = ["bytes_count", "chars_count", "cycles_count", "items_count"]
        def sfx(v):
            return rnd.choice([s for s, m in (("u8", 255), ("u16", 65535), ("u32", 2**32), ("u64", 2**64), ("usize", 2**64)) if v <= m])
        c = rnd.choice(["list", "single", "named"] if len(cs) == 1 else ["list", "named"])
        form("option:counters=" + c)
        if c == "list":
            out.append("counters = [%s]" % ", ".join(f"divan::counter::{ty[kd]}::new({v}{sfx(v)})" for kd, v in cs))
        elif c == "single":
            kd, v = cs[0]
            out.append(f"counter = divan::counter::{ty[kd]}::new({v}{sfx(v)})")
        else:
            for kd, v in cs:
                out.append(f"{names[kd]} = {v}{sfx(v)}")
    return out, aux, ign


# ------------------------------------------------------------------ programs

def gen_program(rnd, pid, crate, rich=True):
    """An abstract program of the shape progs.gen_program produces, annotated
    with the syntactic form of every item.  Positions (file/line/col) are
    filled in by render_source."""
    mod_paths = [[crate]]
    outline = set()         # module paths kept in a file of their own
    want = rnd.randint(2, 7)
    for _ in range(want * 3):
        if len(mod_paths) > want:
            break
        parent = rnd.choice(mod_paths[-3:] if rnd.random() < 0.6 else mod_paths)
        if len(parent) >= 5:
            continue
        name = rnd.choice(MOD_NAMES)
        if strip_raw(name).lower() in RESERVED:
            continue
        if all(strip_raw(name).lower() != strip_raw(p[-1]).lower() or p[:-1] != parent for p in mod_paths):
            mod_paths.append(parent + [name])
    used = {}

    def taken(path):
        return used.setdefault(tuple(path), set(strip_raw(p[-1]).lower() for p in mod_paths if p[:-1] == list(path)) | set(RESERVED))

    def fresh_name(path):
        u = taken(path)
        for _ in range(60):
            n = rnd.choice(BENCH_NAMES)
            if strip_raw(n).lower() not in u:
                u.add(strip_raw(n).lower())
                return n
        n = f"uniq{len(u)}"
        u.add(n)
        return n

    def custom(path, pool, p):
        if rnd.random() < p:
            c = rnd.choice(pool)
            if c.lower() not in taken(path):
                taken(path).add(c.lower())
                return c
        return None

    benches, groups, ginst = [], [], []
    nb = rnd.randint(6, 12) if rich else rnd.randint(2, 5)
    for i in range(nb):
        path = rnd.choice(mod_paths)
        raw = fresh_name(path)
        b = {"mods": path, "raw": raw, "name": strip_raw(raw), "kind": "plain", "opts": progs.rand_opts(rnd, 0.3),
             "cost": rnd.choice(COST), "file": "", "line": 0, "col": 0}
        c = custom(path, BENCH_CUSTOM, 0.2)
        if c:
            b["custom_name"] = c
            b["name"] = c
        b["has_opts"] = bool(b["opts"])
        b["sig"] = rnd.choice(["plain", "plain", "bencher"])
        if rnd.random() < 0.45:
            b["kind"] = "args"
            b["arg"] = gen_args(rnd, f"b{i}")
            b["arg_kind"], b["args"] = b["arg"]["arg_kind"], list(b["arg"]["labels"])
        if b["sig"] == "bencher" and rnd.random() < 0.3:
            b["bencher_counter"] = [rnd.randrange(4), rnd.randint(1, 999)]
        b["abi"] = rnd.choice([None] * 8 + ["C", "system"])
        b["ret"] = rnd.choice([None] * 6 + ["u32", "lifetime"]) if b["sig"] == "plain" else None
        b["attr_style"] = rnd.choice(["single", "single", "multi", "lead_comment", "other_attrs"])
        b["host"] = None
        benches.append(b)
    # every option ALONE on an item (nothing else in the attribute): the macros build the options
    # record only when something is set, and each way of saying `ignore` is a case of its own
    SOLO = [{"ignore": True}, {"ignore": True}, {"ignore": False}, {"sample_count": 3}, {"sample_size": 2},
            {"threads": [2, 1]}, {"min_time_ns": 2}, {"max_time_ns": 1000}, {"skip_ext_time": True},
            {"skip_ext_time": False}, {"counters": [[3, 77]]}, {"counters": [[0, 5]]}]
    lone_ignore = {"ignore": True, "ignore_form": rnd.choice(["attr_before", "attr_after", "reason_before", "reason_after"])}
    for i, o in enumerate([lone_ignore] + rnd.sample(SOLO, 3 if rich else 1)):
        path = rnd.choice(mod_paths)
        raw = fresh_name(path)
        benches.append({"mods": path, "raw": raw, "name": strip_raw(raw), "kind": "plain", "opts": dict(o),
                        "has_opts": True, "cost": rnd.choice(COST), "file": "", "line": 0, "col": 0,
                        "sig": "plain", "abi": None, "ret": None, "attr_style": "single", "host": None,
                        "no_host": True})
    # one external list shared by two benchmarks (the second refers to the first one's const)
    for i, b in enumerate(benches):
        if b["kind"] == "args" and b["arg"]["form"] in ("int_slice_const", "str_slice_const") and rnd.random() < 0.6:
            mates = [j for j, h in enumerate(benches) if j != i and h["mods"] == b["mods"] and h["kind"] == "plain"]
            if mates:
                h = benches[rnd.choice(mates)]
                h["kind"] = "args"
                h["arg"] = dict(b["arg"], aux=[], eval="none", form="shared_external_list")
                h["arg_kind"], h["args"] = h["arg"]["arg_kind"], list(h["arg"]["labels"])
                h["ret"] = None
                b["no_host"] = h["no_host"] = True
    # nesting: inside a plain fn body, a const block, or another benchmark's body
    for i, b in enumerate(benches):
        r = rnd.random()
        if b.get("no_host"):
            continue
        if r < 0.12:
            b["host"] = {"t": "fn", "k": i}
        elif r < 0.22:
            b["host"] = {"t": "const", "k": i}
        elif r < 0.34:
            hosts = [j for j, h in enumerate(benches) if j != i and h["mods"] == b["mods"] and h["host"] is None]
            if hosts:
                b["host"] = {"t": "bench", "i": rnd.choice(hosts)}
    # two items sharing one source line
    tops = [i for i, b in enumerate(benches) if b["host"] is None and b["kind"] == "plain"
            and not any(h["host"] == {"t": "bench", "i": i} for h in benches)
            and (b["raw"] + b["name"]).isascii()]
    for i in tops:
        mates = [j for j in tops if j > i and benches[j]["mods"] == benches[i]["mods"]
                 and "pair" not in benches[j] and "pair" not in benches[i]]
        if mates and rnd.random() < 0.3:
            j = rnd.choice(mates)
            benches[i]["pair"], benches[j]["pair"] = ["first", j], ["second", i]
            for x in (benches[i], benches[j]):
                x["attr_style"] = "single"
                x["opts"] = {kk: vv for kk, vv in x["opts"].items() if kk not in ("threads", "ignore")}
                x["has_opts"] = bool(x["opts"])
    # bench_group modules
    for path in mod_paths[1:]:
        if rnd.random() < 0.65:
            raw = path[-1]
            g = {"mods": path[:-1], "raw": raw, "name": strip_raw(raw), "opts": progs.rand_opts(rnd, 0.35),
                 "file": "", "line": 0, "col": 0, "attr_style": rnd.choice(["single", "multi", "other_attrs"])}
            c = custom(path[:-1], GROUP_CUSTOM, 0.35)
            if c:
                g["custom_name"] = c
                g["name"] = c
            g["has_opts"] = bool(g["opts"])
            groups.append(g)
        elif len(path) == 2 and rnd.random() < 0.6:
            outline.add(tuple(path))
    if rnd.random() < 0.35 and "empty_mod" not in taken([crate]):
        taken([crate]).add("empty_mod")
        groups.append({"mods": [crate], "raw": "empty_mod", "name": "empty_mod", "opts": progs.rand_opts(rnd, 0.3),
                       "file": "", "line": 0, "col": 0, "attr_style": "single", "empty_module": True})
        groups[-1]["has_opts"] = bool(groups[-1]["opts"])
    # generic functions
    for n in range(rnd.choice([1, 2, 2, 3]) if rich else rnd.choice([0, 1])):
        path = rnd.choice(mod_paths)
        raw = fresh_name(path)
        g = {"mods": path, "raw": raw, "name": strip_raw(raw), "opts": progs.rand_opts(rnd, 0.3),
             "file": "", "line": 0, "col": 0, "cost": rnd.choice(COST),
             "attr_style": rnd.choice(["single", "multi", "lead_comment"])}
        c = custom(path, BENCH_CUSTOM, 0.45)
        if c:
            g["custom_name"] = c
            g["name"] = c
        g["has_opts"] = bool(g["opts"])
        types = rnd.choice([None] + TYPE_LISTS)
        consts = rnd.choice([None, None] + CONST_LISTS)
        if types is None and consts is None:
            types = [0, 1]
        gen = {"kind": "plain", "rows": [], "types": types, "consts": consts}
        if consts is not None:
            lo, hi = (min(consts), max(consts)) if consts else (0, 0)
            tys = [t for t, a, z in (("i32", -2**31, 2**31 - 1), ("isize", -2**31, 2**31 - 1), ("i64", -2**31, 2**31 - 1),
                                     ("i16", -2**15, 2**15 - 1), ("i8", -128, 127), ("usize", 0, 2**31), ("u32", 0, 2**31),
                                     ("u8", 0, 255)) if a <= lo and hi <= z]
            gen["const_ty"] = rnd.choice(tys)
            gen["const_form"] = rnd.choice(["literal", "literal", "ext_slice", "ext_array", "macro"]) if consts else "literal"
            if gen["const_form"] != "literal" and rnd.random() < 0.25:
                # the documented maximum of an external list
                extra = [v for v in range(30, 90) if v not in consts][:20 - len(consts)]
                consts = consts + extra
                gen["consts"] = consts
                if types:
                    types = types[:1]
                    gen["types"] = types
            # bound the product (the cost of judging a run grows with the number of rows)
            if types and len(types) * len(consts) > 16:
                consts = consts[:max(1, 16 // len(types))]
                gen["consts"] = consts
            gen["order"] = rnd.choice(["TC", "CT"])
        g["sig"] = rnd.choice(["plain", "bencher"])
        g["abi"] = rnd.choice([None] * 8 + ["C", "system"])
        n_inst = (len(types) if types is not None else 1) * (len(consts) if consts is not None else 1)
        if rnd.random() < 0.4 and n_inst <= 8:
            gen["kind"] = "args"
            g["arg"] = gen_args(rnd, f"g{len(groups)}", long_ok=False)
            gen["arg_kind"], gen["args"] = g["arg"]["arg_kind"], list(g["arg"]["labels"])
        def type_raw(t):
            if TYPES[t][0] == "LOCAL":
                mods = "".join("::" + strip_raw(m) for m in path[1:])
                return f"{crate}{mods}::L_{len(groups)}"
            return TYPES[t][1].format(c=crate)
        gi_of = len(groups)
        if consts is None:
            row = []
            for t in types:
                ginst.append({"group": gi_of, "type": t, "type_raw": type_raw(t), "cost": g["cost"]})
                row.append(len(ginst) - 1)
            gen["rows"].append(row)
        else:
            for t in (types if types is not None else [None]):
                row = []
                for c in consts:
                    x = {"group": gi_of, "const": c, "cost": g["cost"]}
                    if t is not None:
                        x["type"], x["type_raw"] = t, type_raw(t)
                    ginst.append(x)
                    row.append(len(ginst) - 1)
                gen["rows"].append(row)
        g["generic"] = gen
        g["host"] = None
        groups.append(g)
    return {"id": pid, "crate": crate, "backend": "M",
            "clock": {"start": 1000, "read_step": rnd.choice([0, 1]), "precision": 1},
            "mod_paths": mod_paths, "outline": sorted(outline), "layout_seed": rnd.randrange(1 << 30),
            "benches": benches, "groups": groups, "ginst": ginst, "push": [], "builder": [], "entry": "main"}


# ------------------------------------------------------------------ rendering

class Src:
    """One source file being written; line numbers are 1-based."""

    def __init__(self, rel):
        self.rel, self.lines = rel, []

    def add(self, text):
        self.lines.append(text)
        return len(self.lines)

    def text(self):
        return "\n".join(self.lines) + "\n"


def emit(src, ind, unit, chunks, joined=False):
    """Writes chunks (rel indent, text, tag); a tag (entry, offset) marks the
    chunk holding the `#` of that entry's attribute: its file / line / column
    are recorded here, at the moment the text is laid out."""
    if joined:
        text, pend = ind, []
        for _rel, t, tag in chunks:
            if text != ind:
                text += " "
            if tag:
                tag[0]["col"] = len(text) + tag[1] + 1
                pend.append(tag[0])
            text += t
        line = src.add(text)
        for e in pend:
            e["file"], e["line"] = src.rel, line
        return
    for rel, t, tag in chunks:
        pre = ind + unit * rel
        line = src.add(pre + t)
        if tag:
            tag[0]["file"], tag[0]["line"], tag[0]["col"] = src.rel, line, len(pre) + tag[1] + 1


def attr_chunks(rnd, macro, opts, style, entry, ign):
    ch = []
    if style == "other_attrs":
        form("attribute:after other attributes")
        ch.append([0, rnd.choice((["#[inline(never)]"] if macro == "bench" else []) + ["#[allow(dead_code)]", "/// documented"]), None])
    if ign == "attr_before":
        ch.append([0, "#[ignore]", None])
    if ign == "reason_before":
        ch.append([0, '#[ignore = "takes too long"]', None])
    lead = ""
    if style == "lead_comment":
        form("attribute:not at line start")
        lead = rnd.choice(["/* bench */ ", "/**/ ", "/* x */  "])
    mpath = "divan"
    r = rnd.random()
    if r < 0.08:
        form("attribute path ::divan::")
        mpath = "::divan"
    elif r < 0.14 and not any(o.startswith("crate") for o in opts):
        form("extern crate divan as sofa; #[::sofa::..(crate = ::sofa)]")
        mpath, opts = "::sofa", ["crate = ::sofa"] + list(opts)
    macro = f"{mpath}::{macro}"
    if not opts:
        form(f"#[{macro}] without options")
        ch.append([0, lead + (f"#[{macro}()]" if rnd.random() < 0.15 else f"#[{macro}]"), (entry, len(lead))])
    elif style == "multi":
        form("attribute:multi-line")
        ch.append([0, lead + f"#[{macro}(", (entry, len(lead))])
        for o in opts:
            ch.append([1, o + ",", None])
        ch.append([0, ")]", None])
    else:
        trail = "," if rnd.random() < 0.15 else ""
        ch.append([0, lead + f"#[{macro}({', '.join(opts)}{trail})]", (entry, len(lead))])
    if ign == "attr_after":
        ch.append([0, "#[ignore]", None])
    if ign == "reason_after":
        ch.append([0, '#[ignore = "takes too long"]', None])
    if style == "other_attrs" and rnd.random() < 0.5:
        ch.append([0, "#[allow(unused)]", None])
    return ch


COUNTER_TY = ["BytesCount", "CharsCount", "CyclesCount", "ItemsCount"]


def body_chunks(e, what, fid, ty_expr, const_expr, nested):
    a = e.get("arg")
    argopt = f"Some({a['recv']})" if a else "None"
    ch = list(nested)
    if e["sig"] == "plain":
        ch.append([1, f'crate::common::call("{what}", {fid}, {e["cost"]}, {ty_expr}, {const_expr}, {argopt});', None])
        if e.get("ret") == "u32":
            form("fn:returns a value")
            ch.append([1, "7", None])
        elif e.get("ret") == "lifetime":
            form("fn:lifetime parameter")
            ch.append([1, '"hello"', None])
    else:
        ch.append([1, f"let arg: Option<String> = {argopt};", None])
        ch.append([1, f'crate::common::invoke("{what}", {fid}, {ty_expr}, {const_expr}, arg.clone());', None])
        ctr = ""
        if "bencher_counter" in e:
            form("Bencher::counter in body")
            kd, v = e["bencher_counter"]
            ctr = f".counter(divan::counter::{COUNTER_TY[kd]}::new({v}u64))"
        ch.append([1, f'bencher{ctr}.bench(|| crate::common::call("{what}", {fid}, {e["cost"]}, {ty_expr}, {const_expr}, arg.clone()));', None])
    return ch


def name_opt(rnd, e):
    if "custom_name" not in e:
        return []
    form("name = \"..\"")
    key = "name"
    if rnd.random() < 0.1:
        form("option:raw_identifier_key")
        key = "r#name"
    return [f"{key} = {json.dumps(e['custom_name'], ensure_ascii=False)}"]


def fn_head(e, generics, params, ret):
    abi = ""
    if e.get("abi"):
        form(f'extern "{e["abi"]}" fn')
        abi = f'extern "{e["abi"]}" '
    if e["raw"].startswith("r#"):
        form("raw identifier fn name")
    if not e["raw"].isascii():
        form("non-ASCII fn name")
    return f"{abi}fn {e['raw']}{generics}({', '.join(params)}){ret} {{"


def bench_chunks(prog, rnd, i):
    b = prog["benches"][i]
    a = b.get("arg")
    optstrs, aux, ign = opt_strings(rnd, b["opts"] if b["has_opts"] else {}, f"b{i}")
    opts = name_opt(rnd, b)
    if a:
        form("args:" + a["form"])
        aux = aux + a["aux"]
        opts.append("args = " + args_expr(a, "b", i))
    opts += optstrs
    rnd.shuffle(opts)
    if rnd.random() < 0.05:
        form("option:crate = ::divan")
        opts.insert(0, "crate = ::divan")
    ch = [[0, l, None] for l in aux]
    ch += attr_chunks(rnd, "bench", opts, b["attr_style"], b, ign)
    params = []
    if b["sig"] == "bencher":
        form("fn f(bencher: Bencher, arg)" if a else "fn f(bencher: Bencher)")
        params.append("bencher: divan::Bencher")
    else:
        form("fn f(arg)" if a else "fn f()")
    if a:
        params.append(f"a: {a['param']}")
    generics, ret = "", ""
    if b.get("ret") == "u32":
        ret = " -> u32"
    elif b.get("ret") == "lifetime":
        generics, ret = "<'a>", " -> &'a str"
    ch.append([0, fn_head(b, generics, params, ret), None])
    nested = []
    for j, h in enumerate(prog["benches"]):
        if h["host"] == {"t": "bench", "i": i}:
            form("nested fn: #[divan::bench] inside another benchmark's body")
            nested += [[r + 1, t, tag] for r, t, tag in bench_chunks(prog, rnd, j)]
    ch += body_chunks(b, "b", i, '""', "None", nested)
    ch.append([0, "}", None])
    b["snippet"] = [("    " * r) + t for r, t, _ in ch if not any(t is n[1] for n in nested)][:12]
    return ch


def generic_chunks(prog, rnd, gi):
    g = prog["groups"][gi]
    gen, a = g["generic"], g.get("arg")
    optstrs, aux, ign = opt_strings(rnd, g["opts"] if g["has_opts"] else {}, f"g{gi}")
    opts = name_opt(rnd, g)
    types, consts = gen["types"], gen["consts"]
    if types is not None:
        names = []
        for t in types:
            if TYPES[t][0] == "LOCAL":
                form("types: struct local to the module")
                aux.append(f"pub struct L_{gi};")
                names.append(f"L_{gi}")
            else:
                names.append(TYPES[t][0])
        form("types = []" if not types else "types = [..]")
        key = "types"
        if rnd.random() < 0.1:
            form("option:raw_identifier_key")
            key = "r#types"
        opts.append(f"{key} = [{', '.join(names)}]")
    if consts is not None:
        body = ", ".join(str(c) for c in consts)
        cf, cty = gen["const_form"], gen["const_ty"]
        if cf == "literal":
            form("consts = []" if not consts else "consts = [..] literal")
            el = [str(c) for c in consts]
            if consts and rnd.random() < 0.35:
                form("consts = [..] with a const item and a const fn call")
                aux.append(f"const KC_{gi}: {cty} = {consts[0]};")
                el[0] = f"KC_{gi}"
                if len(consts) >= 2:
                    aux.append(f"const fn kf_{gi}() -> {cty} {{ {consts[-1]} }}")
                    el[-1] = f"kf_{gi}()"
            opts.append(f"consts = [{', '.join(el)}]")
        elif cf == "ext_slice":
            form("consts = CONST (external slice)")
            aux.append(f"const CS_{gi}: &[{cty}] = &[{body}];")
            opts.append(f"consts = CS_{gi}")
        elif cf == "ext_array":
            form("consts = CONST (external array)")
            aux.append(f"const CS_{gi}: [{cty}; {len(consts)}] = [{body}];")
            opts.append(f"consts = CS_{gi}")
        else:
            form("consts = macro!()")
            aux.append(f"macro_rules! cs_{gi} {{ () => {{ [{body}] }}; }}")
            opts.append(f"consts = cs_{gi}!()")
        if len(consts) == 20 and cf != "literal":
            form("consts: external list of the maximum length 20")
    if types is not None and consts is not None:
        form("types x consts")
    if a:
        form("args:" + a["form"])
        form("generic function with args")
        aux = aux + a["aux"]
        opts.append("args = " + args_expr(a, "g", gi))
    opts += optstrs
    rnd.shuffle(opts)
    ch = [[0, l, None] for l in aux]
    ch += attr_chunks(rnd, "bench", opts, g["attr_style"], g, ign)
    gp = []
    if types is not None:
        gp.append("T")
    if consts is not None:
        gp.append(f"const N: {gen['const_ty']}")
        if types is not None and gen.get("order") == "CT":
            form("generic parameters: const before type")
            gp.reverse()
    params = []
    if g["sig"] == "bencher":
        form("generic fn f<..>(bencher: Bencher)")
        params.append("bencher: divan::Bencher")
    else:
        form("generic fn f<..>()")
    if a:
        params.append(f"a: {a['param']}")
    ch.append([0, fn_head(g, f"<{', '.join(gp)}>", params, ""), None])
    ty_expr = "std::any::type_name::<T>()" if types is not None else '""'
    const_expr = "Some(N as i64)" if consts is not None else "None"
    ch += body_chunks(g, "g", gi, ty_expr, const_expr, [])
    ch.append([0, "}", None])
    g["snippet"] = [("    " * r) + t for r, t, _ in ch][:12]
    return ch


def render_module(prog, rnd, path, src, ind, unit, files):
    """Writes every item whose module path is `path`, in a shuffled order."""
    items = []
    for i, b in enumerate(prog["benches"]):
        if b["mods"] != path:
            continue
        if b["host"] is None and b.get("pair", [""])[0] != "second":
            items.append(("b", i))
        elif b["host"] and b["host"]["t"] in ("fn", "const"):
            items.append(("holder", i))
    for gi, g in enumerate(prog["groups"]):
        if "generic" in g and g["mods"] == path:
            items.append(("g", gi))
        if g.get("empty_module") and g["mods"] == path:
            items.append(("empty_group", gi))
    for p in prog["mod_paths"]:
        if len(p) == len(path) + 1 and p[:-1] == path:
            items.append(("m", p))
    rnd.shuffle(items)
    for kind, x in items:
        if rnd.random() < 0.7:
            src.add("")
        if kind == "b":
            b = prog["benches"][x]
            ch = bench_chunks(prog, rnd, x)
            if b.get("pair"):
                form("two attributes on one source line")
                ch = ch + bench_chunks(prog, rnd, b["pair"][1])
                emit(src, ind, unit, ch, joined=True)
            else:
                emit(src, ind, unit, ch)
        elif kind == "holder":
            b = prog["benches"][x]
            inner = [[r + 1, t, tag] for r, t, tag in bench_chunks(prog, rnd, x)]
            if b["host"]["t"] == "fn":
                form("nested fn: #[divan::bench] inside a plain fn body")
                emit(src, ind, unit, [[0, f"fn holder_{x}() {{", None]] + inner + [[0, "}", None]])
            else:
                form("nested fn: #[divan::bench] inside const _: () = {..}")
                emit(src, ind, unit, [[0, "const _: () = {", None]] + inner + [[0, "};", None]])
        elif kind == "g":
            emit(src, ind, unit, generic_chunks(prog, rnd, x))
        elif kind == "empty_group":
            g = prog["groups"][x]
            optstrs, aux, ign = opt_strings(rnd, g["opts"] if g["has_opts"] else {}, f"e{x}")
            form("#[divan::bench_group] on a module without benchmarks")
            emit(src, ind, unit, [[0, l, None] for l in aux] + attr_chunks(rnd, "bench_group", optstrs, "single", g, ign)
                 + [[0, f"mod {g['raw']} {{}}", None]])
        else:
            p = x
            gidx = [k for k, g in enumerate(prog["groups"]) if "generic" not in g and g["mods"] == path and g["raw"] == p[-1]]
            if p[-1].startswith("r#"):
                form("raw identifier module name")
            form(f"module depth {len(p) - 1}")
            vis = rnd.choice(["", "pub ", "pub(crate) "])
            if gidx:
                g = prog["groups"][gidx[0]]
                optstrs, aux, ign = opt_strings(rnd, g["opts"] if g["has_opts"] else {}, f"m{gidx[0]}")
                opts = name_opt(rnd, g) + optstrs
                rnd.shuffle(opts)
                form("#[divan::bench_group] with name" if "custom_name" in g else "#[divan::bench_group] without name")
                if opts:
                    form("#[divan::bench_group] with options")
                ch = [[0, l, None] for l in aux] + attr_chunks(rnd, "bench_group", opts, g["attr_style"], g, ign)
                ch.append([0, f"{vis}mod {p[-1]} {{", None])
                emit(src, ind, unit, ch)
                render_module(prog, rnd, p, src, ind + unit, unit, files)
                src.add(ind + "}")
            elif tuple(p) in {tuple(o) for o in prog["outline"]}:
                form("module in a file of its own (#[path])")
                rel = f"{prog['crate']}_mods/{strip_raw(p[-1])}.rs"
                src.add(ind + f'#[path = "{rel}"]')
                src.add(ind + f"{vis}mod {p[-1]};")
                sub = Src(f"src/bin/{rel}")
                files.append(sub)
                sub.add("// generated by lib/mgen.py")
                render_module(prog, rnd, p, sub, "", unit, files)
            else:
                form("plain module")
                src.add(ind + f"{vis}mod {p[-1]} {{")
                render_module(prog, rnd, p, src, ind + unit, unit, files)
                src.add(ind + "}")


def render_source(prog):
    """-> list of Src.  Fills file / line / col of every bench and group."""
    rnd = random.Random(prog["layout_seed"])
    unit = rnd.choice(["    ", "    ", "  ", "\t"])
    if unit != "    ":
        form("indentation: " + ("tabs" if unit == "\t" else "two blanks"))
    root = Src(f"src/bin/{prog['crate']}.rs")
    files = [root]
    root.add(f"// generated by lib/mgen.py - program {prog['id']}")
    root.add("#![allow(dead_code, unused, non_snake_case, non_camel_case_types, non_upper_case_globals, unused_attributes,")
    root.add("         uncommon_codepoints, mixed_script_confusables, improper_ctypes_definitions, unpredictable_function_pointer_comparisons)]")
    root.add('#[path = "../common.rs"]')
    root.add("mod common;")
    root.add("extern crate divan as sofa;")
    root.add("pub struct T0;")
    root.add("pub struct T1;")
    root.add("pub mod tymod { pub struct T2; pub mod inner { pub struct T3; } }")
    render_module(prog, rnd, [prog["crate"]], root, "", unit, files)
    root.add("")
    root.add(f"fn main() {{ common::run_main({prog['clock']['start']}, {prog['clock']['read_step']}, {prog['clock']['precision']}) }}")
    missing = [e["raw"] for e in prog["benches"] + prog["groups"] if not e["line"]]
    if missing:
        raise V.ToolError(f"mgen: items never written: {missing}")
    return files


# ------------------------------------------------------------------- package

COMMON_RS = r'''//! Shared by every generated program (back-end M): event logging used by
//! the generated benchmark bodies and the `main` every program runs.
//! Generated by lib/mgen.py - do not edit.
#![allow(dead_code)]

use std::time::Duration;

use divan::{
    verif::{clock, event, sched, Ev},
    Divan,
};
use serde_json::Value;

fn cps(s: &str) -> Vec<u128> {
    s.chars().map(|c| c as u128).collect()
}

fn received(name: &str, what: &str, f: usize, ty: &str, c: Option<i64>, arg: &Option<String>) -> Ev {
    let a = arg.clone().unwrap_or_default();
    Ev::new(name)
        .s("what", what)
        .u("fn", f as u128)
        .s("type_raw", ty)
        .us("type_raw_cp", &cps(ty))
        .b("has_const", c.is_some())
        .i("const", c.unwrap_or(0) as i128)
        .b("has_arg", arg.is_some())
        .s("arg", &a)
        .us("arg_cp", &cps(&a))
}

/// Logged by a body that was handed a `Bencher`: what the function received.
pub fn invoke(what: &'static str, f: usize, ty: &str, c: Option<i64>, arg: Option<String>) {
    event(received("invoke", what, f, ty, c, &arg));
}

/// Logged by every benchmarked call: what the call received.
pub fn call(what: &'static str, f: usize, cost: u64, ty: &str, c: Option<i64>, arg: Option<String>) {
    event(received("call", what, f, ty, c, &arg));
    clock::advance(cost);
}

/// Wraps an `args = ...` expression: its evaluation becomes observable.
pub fn eval_args<I>(what: &'static str, f: usize, it: I) -> I {
    event(Ev::new("args_eval").s("what", what).u("fn", f as u128));
    it
}

/// Wraps one element of an `args = [...]` literal.
pub fn ev<T>(what: &'static str, f: usize, v: T) -> T {
    event(Ev::new("args_eval").s("what", what).u("fn", f as u128));
    v
}

fn apply_builder(mut d: Divan, calls: &[Value]) -> Divan {
    for c in calls {
        let v = &c[1];
        d = match c[0].as_str().unwrap_or("") {
            "sample_count" => d.sample_count(v.as_u64().unwrap_or(0) as u32),
            "sample_size" => d.sample_size(v.as_u64().unwrap_or(0) as u32),
            "threads" => d.threads(
                v.as_array().cloned().unwrap_or_default().iter().filter_map(|x| x.as_u64()).map(|x| x as usize).collect::<Vec<_>>(),
            ),
            "min_time_ns" => d.min_time(Duration::from_nanos(v.as_u64().unwrap_or(0))),
            "max_time_ns" => d.max_time(Duration::from_nanos(v.as_u64().unwrap_or(0))),
            "skip_ext_time" => d.skip_ext_time(v.as_bool().unwrap_or(true)),
            "run_ignored" => d.run_ignored(),
            "run_only_ignored" => d.run_only_ignored(),
            "skip_exact" => d.skip_exact(v.as_str().unwrap_or("")),
            "skip_regex" => d.skip_regex(v.as_str().unwrap_or("")),
            "items_count" => d.items_count(v.as_u64().unwrap_or(0)),
            "bytes_count" => d.bytes_count(v.as_u64().unwrap_or(0)),
            "chars_count" => d.chars_count(v.as_u64().unwrap_or(0)),
            "cycles_count" => d.cycles_count(v.as_u64().unwrap_or(0)),
            _ => d,
        };
    }
    d
}

/// `VERIF_DUMP=1`: print the registry and exit.  Otherwise run the real
/// runner as managed thread 0 under the deterministic scheduler with a
/// virtual clock, then write the event log to `$VERIF_LOG`.
pub fn run_main(start: u64, read_step: u64, precision: u128) {
    if std::env::var("VERIF_DUMP").is_ok() {
        println!("{}", divan::verif::api::registry_dump());
        return;
    }
    std::panic::set_hook(Box::new(|_| {}));
    let log_path = std::env::var("VERIF_LOG").expect("VERIF_LOG");
    let builder: Value = serde_json::from_str(&std::env::var("VERIF_BUILDER").unwrap_or_else(|_| "[]".into())).expect("VERIF_BUILDER");
    let entry = std::env::var("VERIF_ENTRY").unwrap_or_else(|_| "main".into());
    let no_args = std::env::var("VERIF_NO_ARGS").is_ok();
    let cfg = sched::Config {
        clock: Some(sched::ClockModel {
            now: start,
            freq: 1_000_000_000_000,
            read_step,
            precision_override: Some(precision),
            overheads: [0; 4],
            quantum: 0,
            overhead_measure_cost: 0,
        }),
        step_bound: 5_000_000,
        wall_timeout: Duration::from_secs(60),
        ..Default::default()
    };
    let res = sched::run(cfg, move || {
        let calls = builder.as_array().cloned().unwrap_or_default();
        let before: Vec<Value> = calls.iter().filter(|c| c[2].as_str() != Some("after")).cloned().collect();
        let after: Vec<Value> = calls.iter().filter(|c| c[2].as_str() == Some("after")).cloned().collect();
        let r = std::panic::catch_unwind(|| {
            let d = apply_builder(Divan::default(), &before);
            let d = if no_args { d } else { d.config_with_args() };
            let d = apply_builder(d, &after);
            match entry.as_str() {
                "list_benches" => d.list_benches(),
                "test_benches" => d.test_benches(),
                "run_benches" => d.run_benches(),
                _ => d.main(),
            }
        });
        match r {
            Ok(()) => event(Ev::new("exit").b("panicked", false).s("msg", "")),
            Err(e) => event(Ev::new("exit").b("panicked", true).s("msg", &sched::panic_message(&*e))),
        }
    });
    use std::io::Write;
    let _ = std::io::stdout().flush();
    let mut out = String::new();
    for l in &res.log {
        out.push_str(l);
        out.push('\n');
    }
    std::fs::write(&log_path, out).expect("write log");
    std::process::exit(if res.outcome == sched::Outcome::Completed { 0 } else { 3 });
}
'''


def _write_if_changed(path, text):
    os.makedirs(os.path.dirname(path), exist_ok=True)
    if os.path.exists(path) and open(path, encoding="utf-8").read() == text:
        return False
    with open(path, "w", encoding="utf-8") as f:
        f.write(text)
    return True


def write_package(batch, programs):
    """One cargo package, one [[bin]] per program.  Files whose content did
    not change keep their mtime (incremental builds across invocations)."""
    d = os.path.join(MROOT, batch)
    keep = set()
    toml = ['[package]', f'name = "mgen-{batch.lower().replace("_", "-")}"', 'version = "0.0.0"', 'edition = "2021"',
            'publish = false', 'autobins = false', '', '[dependencies]',
            'divan = { path = "%s", default-features = false, features = ["divan_verif"] }' % (V.REPO_OVERRIDE or "/repo"),
            'serde_json = "1"', '', '[workspace]', '', '[profile.dev]', 'opt-level = 0', 'debug = 0', 'incremental = false', '']
    for prog in programs:
        files = render_source(prog)
        prog["files"] = {f.rel: f.text() for f in files}
        for f in files:
            _write_if_changed(os.path.join(d, f.rel), f.text())
            keep.add(os.path.join(d, f.rel))
        toml += ['[[bin]]', f'name = "{prog["crate"]}"', f'path = "src/bin/{prog["crate"]}.rs"', '']
    _write_if_changed(os.path.join(d, "Cargo.toml"), "\n".join(toml))
    _write_if_changed(os.path.join(d, "src", "common.rs"), COMMON_RS)
    _write_if_changed(os.path.join(d, ".cargo", "config.toml"),
                      f'[net]\noffline = true\n\n[build]\ntarget-dir = "{TARGET}"\n')
    lock = os.path.join(V.HARNESS, "Cargo.lock")
    if not os.path.exists(os.path.join(d, "Cargo.lock")):
        shutil.copy(lock, os.path.join(d, "Cargo.lock"))
    keep |= {os.path.join(d, "src", "common.rs")}
    # stale sources of an earlier batch of the same name
    for root, _dirs, names in os.walk(os.path.join(d, "src")):
        for n in names:
            p = os.path.join(root, n)
            if p not in keep:
                os.remove(p)
    return d


def build_package(d):
    env = dict(os.environ)
    env["CARGO_NET_OFFLINE"] = "true"
    t0 = time.time()
    p = subprocess.run(["cargo", "build", "--offline", "--bins"], cwd=d, env=env,
                       stdout=subprocess.PIPE, stderr=subprocess.STDOUT, text=True)
    if p.returncode != 0:
        errs = [l for l in p.stdout.split("\n")]
        idx = next((i for i, l in enumerate(errs) if l.startswith("error")), max(0, len(errs) - 60))
        V.log("\n".join(errs[idx:idx + 60]))
        raise V.ToolError("mgen: a generated program failed to compile (generator bug unless the form is documented as valid)")
    V.log(f"[build] mgen package {os.path.basename(d)} ok in {time.time() - t0:.1f}s")
    return round(time.time() - t0, 1)


def bin_path(prog):
    return os.path.join(TARGET, "debug", prog["crate"])


# ------------------------------------------------- what the specification reads

def render_program(prog):
    """The record Runner.tla reads.  Display names are NOT provided: the
    specification derives them (default = raw name without r#, `name = ".."`
    overrides; type display from the raw type_name; const label from its value)."""
    def entry(e, is_group):
        r = {"mods": e["mods"], "mods_cp": [cp(m) for m in e["mods"]], "raw": e["raw"], "raw_cp": cp(e["raw"]),
             "custom_name": [cp(e["custom_name"])] if "custom_name" in e else [],
             "file": e["file"], "file_cp": cp(e["file"]), "line": e["line"], "col": e["col"],
             "opts_rec": progs.opts_record(e["opts"] if e["has_opts"] else {})}
        if is_group:
            r["is_generic"] = "generic" in e
            if "generic" in e:
                gen = e["generic"]
                r["generic"] = {"kind": gen["kind"], "rows": gen["rows"], "args": gen.get("args", []),
                                "args_cp": [cp(a) for a in gen.get("args", [])]}
        else:
            r["is_args"] = e["kind"] == "args"
            r["args"] = e.get("args", [])
            r["args_cp"] = [cp(a) for a in e.get("args", [])]
            r["has_bencher_counter"] = "bencher_counter" in e
            r["bencher_counter"] = e.get("bencher_counter", [])
        return r
    gi_out = []
    for gi in prog["ginst"]:
        gi_out.append({"group": gi["group"], "has_type": "type" in gi, "has_const": "const" in gi,
                       "type_raw": gi.get("type_raw", ""), "type_raw_cp": cp(gi.get("type_raw", "")),
                       "const": gi.get("const", 0), "has_bencher_counter": False, "bencher_counter": []})
    return {"id": prog["id"], "crate": prog["crate"], "backend": "M", "clock": prog["clock"],
            "benches": [entry(b, False) for b in prog["benches"]],
            "groups": [entry(g, True) for g in prog["groups"]], "ginst": gi_out}


# ----------------------------------------------------------------- execution

def dump_registry(prog, timeout=60):
    env = {k: v for k, v in os.environ.items() if not k.startswith("DIVAN_") and k != "NEXTEST"}
    env["VERIF_DUMP"] = "1"
    p = subprocess.run([bin_path(prog)], env=env, stdout=subprocess.PIPE, stderr=subprocess.PIPE, timeout=timeout)
    if p.returncode != 0:
        raise V.ToolError(f"registry dump of {prog['crate']} failed: {p.stderr.decode('utf-8', 'replace')[-400:]}")
    return json.loads(p.stdout.decode("utf-8"))


def lex_events(events):
    """Groups the event log into one unit per benchmark execution.  A unit is
    opened by the `invoke` of a body that was handed a Bencher, or - for
    functions the macro wraps in `bencher.bench(|| f(arg))` - by the runner's
    `loop_begin`; the calls that follow belong to it.  Every call keeps what
    it received (`recv`), nothing is compared here."""
    ident = ("what", "fn", "type_raw_cp", "has_const", "const", "has_arg", "arg", "arg_cp")
    units, stray, evals = [], 0, []
    for e in events:
        ev = e.get("ev")
        if ev == "invoke":
            u = {k: e[k] for k in ident}
            u.update(ev="invoke", opened_by="invoke", calls=0, call_tids=[], recv=[], has_loop=False, has_stats=False,
                     loop={}, stats={})
            units.append(u)
        elif ev == "loop_begin":
            loop = {k: e[k] for k in ("mode", "size", "rem", "min", "max", "skip", "threads")}
            if units and units[-1]["opened_by"] == "invoke" and not units[-1]["has_loop"]:
                units[-1]["has_loop"], units[-1]["loop"] = True, loop
            else:
                units.append({"ev": "invoke", "opened_by": "loop", "identified": False, "calls": 0, "call_tids": [],
                              "recv": [], "has_loop": True, "has_stats": False, "loop": loop, "stats": {},
                              "what": "?", "fn": -1, "type_raw_cp": [], "has_const": False, "const": 0,
                              "has_arg": False, "arg": "", "arg_cp": []})
        elif ev == "call":
            if not units:
                stray += 1
                continue
            u = units[-1]
            if u["opened_by"] == "loop" and not u["identified"]:
                u.update({k: e[k] for k in ident})
                u["identified"] = True
            u["calls"] += 1
            u["call_tids"] = sorted(set(u["call_tids"]) | {e["tid"]})
            u["recv"].append({k: e[k] for k in ident if k != "arg"})
        elif ev == "leaf_stats":
            if units:
                units[-1]["has_stats"], units[-1]["stats"] = True, e["stats"]
                units[-1]["alloc_text"] = e.get("alloc_text", [])
        elif ev == "args_eval":
            evals.append({"what": e["what"], "fn": e["fn"]})
    for u in units:
        u.pop("identified", None)
    return units, stray, evals


def run_program(prog, rendered, cfg, name, registry=None, timeout=120):
    """Executes one (program, configuration); returns the `run` record in the
    layout of progs.run_program plus `backend` and (optionally) `registry`."""
    d = os.path.join(V.WORK, "rp")
    os.makedirs(d, exist_ok=True)
    lpath = os.path.join(d, f"{name}.m.log.ndjson")
    if os.path.exists(lpath):
        os.remove(lpath)
    env = {k: v for k, v in os.environ.items() if not k.startswith("DIVAN_") and k not in ("NEXTEST", "VERIF_DUMP")}
    env.update(cfg["env"])
    env["VERIF_LOG"] = lpath
    env["VERIF_BUILDER"] = json.dumps(cfg["builder"])
    env["VERIF_ENTRY"] = cfg.get("entry", "main")
    if cfg.get("no_args"):
        env["VERIF_NO_ARGS"] = "1"
    try:
        p = subprocess.run([bin_path(prog)] + cfg["argv"], env=env, stdout=subprocess.PIPE, stderr=subprocess.PIPE,
                           timeout=timeout)
        rc, stdout, stderr = p.returncode, p.stdout.decode("utf-8", "replace"), p.stderr.decode("utf-8", "replace")
    except subprocess.TimeoutExpired:
        rc, stdout, stderr = "timeout", "", ""
    events = []
    if os.path.exists(lpath):
        for line in open(lpath):
            if line.strip():
                events.append(json.loads(line))
        os.remove(lpath)
    units, stray, evals = lex_events(events)
    terse, lines = [], []
    if cfg["action"] == "list_terse":
        terse = [{"text": raw, "text_cp": cp(raw)} for raw in stdout.split("\n") if raw]
    else:
        lines = progs.lex_stdout(stdout, cfg["action"] == "bench")
    exit_ev = next((e for e in events if e.get("ev") == "exit"), None)
    rec = {"seq": 0, "tid": -1, "ev": "run", "id": name, "backend": "M",
           "program": rendered, "config": progs.render_config(cfg), "parallelism": progs.parallelism(),
           "lines": lines, "terse": terse, "invokes": units, "args_evals": evals, "stray_calls": stray,
           "exit_seen": exit_ev is not None, "panicked": bool(exit_ev and exit_ev.get("panicked")),
           "panic_msg": (exit_ev or {}).get("msg", ""), "rc": rc if isinstance(rc, int) else -1,
           "stderr_tail": stderr[-400:]}
    if registry is not None:
        rec["registry"] = registry
    return rec
