"""C01 / C02 / C08: the sample loop (RoundTrace.tla monitors, Round.tla model)."""
import json
import os
import random

import benchgen as G
import vcheck as V

KEEP = {"reset", "bench_call", "precision_begin", "precision_end", "ts",
        "initial_start", "loop_begin", "gen", "count", "call", "call_end",
        "alloc_op", "barrier_arrive", "barrier_leave", "tally_clear",
        "tally_snapshot", "drop_out", "drop_in", "round_end", "test_break",
        "user_panic", "bench_return", "report", "report_failed", "sched_end"}


def gen_scenarios(prop, tier, seed):
    rnd = random.Random(seed * 104729 + {"C01": 1, "C02": 2, "C08": 3}[prop])
    scs = []
    # the repository's own run_count matrix (n = 3, s = 2, threads 1..9) re-expressed
    k = 0
    for entry in G.ENTRIES:
        for t in ((1, 2, 9) if tier == "quick" else (1, 2, 3, 4, 9)):
            sc = G.base(rnd, f"repo-run-count-{k}", entry, rnd.choice(G.SHAPES), rnd.choice(G.SHAPES), threads=t, action="bench")
            sc["options"] = {"sample_count": 3, "sample_size": 2}
            scs.append(sc)
            k += 1
    per_cell = 3 if tier == "quick" else 16
    threads = (2, 3) if prop == "C08" else (1, 2, 3)
    scs += G.matrix_scenarios(rnd, per_cell=per_cell, threads_choices=threads)
    n_extra = 400 if tier == "quick" else 20000
    for j in range(n_extra):
        sc = G.base(rnd, f"x{j}")
        if prop == "C08":
            sc["threads"] = rnd.choice([2, 2, 3, 4, 6])
        G.fixed_size(rnd, sc)
        if prop == "C02" or (prop == "C08" and rnd.random() < 0.6):
            sc["alloc_script"] = G.rand_alloc_script(rnd, heavy=True)
        if prop == "C08" and rnd.random() < 0.5:
            # only some of the threads allocate inside the benchmarked function: the others'
            # samples must report nothing of it
            sc["alloc_script"]["call"] = [{"op": "alloc", "size": rnd.choice([8, 64])}] + G.rand_ops(rnd, 1)
            sc["alloc_script"]["call_tids"] = sorted(rnd.sample(range(sc["threads"]), rnd.randint(1, sc["threads"] - 1)))
        scs.append(sc)
    # panics on a single thread (T = 1), every site
    scs += G.panic_scenarios(rnd, 150 if tier == "quick" else 2500, single_thread_only=True)
    # bounded-exhaustive interleavings of T = 2
    dfs_n = 6 if tier == "quick" else 24
    for j in range(dfs_n):
        sc = G.base(rnd, f"dfs{j}", entry=rnd.choice(["bench_values", "bench_refs", "bench"]),
                    threads=2, action="bench")
        sc["options"] = {"sample_count": rnd.choice([1, 2]), "sample_size": 1}
        sc["input_counters"] = []
        sc["alloc_script"] = {"call": [{"op": "alloc", "size": 8}]} if prop != "C01" else {}
        sc["schedule"] = {"source": "dfs", "bound": 1 if tier == "quick" else 2,
                          "max_runs": 800 if tier == "quick" else 60000}
        scs.append(sc)
    return scs


def multi_thread_panic_scenarios(tier, seed):
    rnd = random.Random(seed * 31 + 5)
    scs = []
    for k in range(100 if tier == "quick" else 2000):
        sc = G.base(rnd, f"mp{k}", entry=rnd.choice(["bench_values", "bench_refs", "bench"]),
                    threads=rnd.choice([2, 2, 3]), action=rnd.choice(["bench", "test"]))
        sc["options"] = {"sample_count": rnd.randint(1, 4), "sample_size": rnd.randint(1, 2)}
        has_inputs = sc["entry"] != "bench"
        sc["panic"] = {"where": rnd.choice(["gen", "call"] if has_inputs else ["call"]),
                       "tid": rnd.randrange(-1, sc["threads"]), "nth": rnd.randint(0, 2)}
        scs.append(sc)
    return scs


def make_replay(lines, start, end, line_no, r):
    reset = lines[start]
    sc = dict(reset.get("scenario", {}))
    sc["schedule"] = {"source": "replay", "tids": reset.get("tids", [])}
    return {
        "kind": "bench-trace", "scenario": sc, "invariant": r.get("violated"),
        "failing_event": lines[line_no - 1] if 0 < line_no <= len(lines) else None,
        "trace": lines[start:end],
    }


def known_filter(prop):
    kf = V.load_known_findings()
    entries = [f for f in kf.get("findings", []) if f.get("property") == prop]

    def is_known(obj):
        sc = obj["scenario"]
        for f in entries:
            m = f.get("match", {})
            if m.get("kind") == "partial-panic-barrier-hang":
                p = sc.get("panic") or {}
                if (set(obj.get("rules", [])) <= set(m.get("rules", []))
                        and sc.get("threads", 1) >= 2 and p.get("where") in ("gen", "call")
                        and "local" not in sc.get("entry", "")):
                    return f"{f['id']} {f['title']} [scenario {sc.get('id')}: threads={sc.get('threads')} panic={p}]"
        return None
    return is_known


def negative_control(res, prop, trace_path):
    lines = V.read_trace(trace_path)
    resets = [i for i, x in enumerate(lines) if x.get("ev") == "reset"]

    def first_run_with(pred):
        for a, b in zip(resets, resets[1:] + [len(lines)]):
            if any(pred(x) for x in lines[a:b]):
                return a, b
        return None

    if prop == "C01":
        # duplicate one drop event of a sized value
        span = first_run_with(lambda x: x.get("ev") in ("drop_out", "drop_in") and x.get("id", 0) != 0)
        if not span:
            raise V.ToolError("negative control: no sized drop in trace")
        run = [dict(x) for x in lines[span[0]:span[1]]]
        i = next(i for i, x in enumerate(run) if x.get("ev") in ("drop_out", "drop_in") and x.get("id", 0) != 0)
        run.insert(i + 1, dict(run[i]))
        expect = "C01Holds"
    elif prop == "C02":
        span = first_run_with(lambda x: x.get("ev") == "tally_snapshot" and x["info"]["alloc"][0] > 0)
        if not span:
            raise V.ToolError("negative control: no non-empty snapshot in trace")
        run = [json.loads(json.dumps(x)) for x in lines[span[0]:span[1]]]
        i = next(i for i, x in enumerate(run) if x.get("ev") == "tally_snapshot" and x["info"]["alloc"][0] > 0)
        run[i]["info"]["alloc"][1] += 1
        expect = "C02Holds"
    else:
        # move one thread's start timestamp in front of another thread's clear
        span = first_run_with(lambda x: x.get("ev") == "loop_begin" and x.get("threads", 1) >= 2)
        if not span:
            raise V.ToolError("negative control: no multi-threaded run in trace")
        run = [dict(x) for x in lines[span[0]:span[1]]]
        i_clear = next(i for i, x in enumerate(run) if x.get("ev") == "tally_clear")
        i_ts = next(i for i, x in enumerate(run) if i > i_clear and x.get("ev") == "ts" and x.get("kind") == "start"
                    and x.get("tid") != run[i_clear]["tid"])
        ev = run.pop(i_ts)
        # before the first tally_clear of the round: nobody has cleared yet
        run.insert(i_clear, ev)
        expect = "C08Holds"
    p = os.path.join(V.WORK, f"{prop}.negctl.ndjson")
    with open(p, "w") as f:
        for x in run:
            f.write(json.dumps(x) + "\n")
    r = V.tlc_trace("RoundTrace", f"RoundTrace_{prop}", p)
    ok = r.get("violated") == expect
    res.extra["negative_control"] = {"expected": expect, "got": r.get("violated"), "rules": V.bad_rules(r["out"])}
    if not ok:
        raise V.ToolError(f"negative control not caught: expected {expect}, got {r.get('violated')}")


def run(prop, tier, seed):
    res = V.Result(prop, tier, seed)
    res.assumptions = [
        "executions are sequentially consistent (one managed thread runs at a time); reordering around the timestamp instructions is below the event level",
        "inputs/outputs are the harness's instrumented types (identity for sized values, counts for zero-sized ones)",
        "allocator operations are the scripted ones issued through a harness-owned AllocProfiler<Mock>; implicit allocations of divan itself are not observed here",
    ]
    import round_mc
    round_mc.run(res, prop, tier)

    scs = gen_scenarios(prop, tier, seed)
    trace_path, summary = V.run_driver(scs, f"{prop}.impl")
    res.extra["driver"] = summary
    proj, n = V.project(trace_path, KEEP)
    lines = V.read_trace(proj)
    res.samples = [{"scenario": scs[20], "first_events": lines[1:12]}]
    V.validate_monitor(res, prop, "RoundTrace", f"RoundTrace_{prop}", proj, "impl->spec",
                       make_replay, known_filter(prop))
    bad = {k: v for k, v in summary.get("outcomes", {}).items()
           if k in ("step_bound", "wall_timeout", "replay_diverged", "crashed", "hung")}
    if bad and not res.violations:
        raise V.ToolError(f"driver outcomes without a verdict: {bad}")
    if not res.violations:
        round_mc.bind_l2(res, prop, trace_path, "impl->spec")

    if prop == "C08":
        scs2 = multi_thread_panic_scenarios(tier, seed)
        tp2, summary2 = V.run_driver(scs2, f"{prop}.panics")
        res.extra["driver_panics"] = summary2
        proj2, _ = V.project(tp2, KEEP)
        V.validate_monitor(res, prop, "RoundTrace", f"RoundTrace_{prop}", proj2, "impl->spec:panics",
                           make_replay, known_filter(prop), max_rounds=400)
        if not res.violations:
            round_mc.bind_l2(res, prop, tp2, "impl->spec:panics")

    if not res.violations:
        negative_control(res, prop, proj)
    return res.finish()


def replay(prop, path):
    obj = json.load(open(path))
    res = V.Result(prop, "quick", 0)
    trace_path, summary = V.run_driver([obj["scenario"]], f"{prop}.replay")
    proj, _ = V.project(trace_path, KEEP)
    n = V.validate_monitor(res, prop, "RoundTrace", f"RoundTrace_{prop}", proj, "replay", make_replay)
    if n == 0:
        print("replay: no violation reproduced")
    return res.finish()
