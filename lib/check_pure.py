"""Pure-function / in-crate level of C13 (filters), C15 (option resolution)
and C16 (sort orders): Names.tla / Filters.tla / Options.tla, their MC
instances, and PureTrace.tla over records of single calls into the real code.

Python only generates inputs and orchestrates; the driver only calls the real
functions and logs {inputs..., out}; TLC judges.

    run_pure_level(res, prop, tier, seed)   accumulate into an existing V.Result
    python3 lib/check_pure.py C16 quick     standalone (evidence under work/)
"""
import itertools
import json
import os
import random
import re
import sys
import time

sys.path.insert(0, os.path.dirname(os.path.abspath(__file__)))

import vcheck as V  # noqa: E402

PROPS = ("C13", "C15", "C16")
DERIVED = {"ev", "scenario", "out", "perm", "perm_opposite", "panic", "panic_opposite",
           "regex_error", "a_cp", "b_cp", "names_cp", "path_cp", "s_cp",
           "u128", "i128", "f64", "nan", "inf"}
ATTRS = ("kind", "name", "location")
# work-file prefix; the standalone entry point uses its own so that it can run
# next to a bin/check invocation that calls run_pure_level
PREFIX = "pure"


def pure(sid, op, **kw):
    sc = {"kind": "pure", "id": sid, "op": op}
    sc.update(kw)
    return sc


# ===================================================================== C16

MC_ALPHABET = "ab019-._"


def strs_upto(alphabet, n):
    out = [""]
    for k in range(1, n + 1):
        out += ["".join(t) for t in itertools.product(alphabet, repeat=k)]
    return out


WORDS = ["a", "b", "ab", "z", "A", "Z", "x", "_", "-", ".", "::", "<", ">", ",", " ", "/", "+", "#",
         "é", "ß", "λ", "ж", "中", "\U0001f980"]
RUNS = ["0", "00", "1", "01", "001", "2", "9", "09", "10", "010", "11", "19", "20", "99", "100",
        "0100", "101", "999", "1000", "4294967296", "18446744073709551616",
        "000000000000000000000000000000000000001", "340282366920938463463374607431768211456"]


def rand_name(rnd):
    """letters, digit runs with leading zeros, punctuation, non-ASCII"""
    k = rnd.choice([1, 1, 2, 2, 3, 3, 4, 5])
    parts = []
    for _ in range(k):
        parts.append(rnd.choice(RUNS) if rnd.random() < 0.45 else rnd.choice(WORDS))
    return "".join(parts)


def near_pair(rnd):
    """two names that share a prefix and differ late (ties, prefixes, zeros)"""
    a = rand_name(rnd)
    how = rnd.randrange(6)
    if how == 0:
        return a, a
    if how == 1:
        return a, a + rnd.choice(RUNS + WORDS)
    if how == 2:  # re-pad one digit run
        m = list(re.finditer(r"[0-9]+", a))
        if m:
            x = rnd.choice(m)
            return a, a[:x.start()] + "0" * rnd.randint(1, 2) + a[x.start():]
        return a, "0" + a
    if how == 3:  # bump one digit run
        m = list(re.finditer(r"[0-9]+", a))
        if m:
            x = rnd.choice(m)
            v = int(x.group()) + rnd.choice([-1, 1, 9, 10])
            return a, a[:x.start()] + str(max(v, 0)) + a[x.end():]
        return a, a + "1"
    if how == 4:
        b = list(a)
        if b:
            i = rnd.randrange(len(b))
            b[i] = rnd.choice(WORDS + ["0", "5"])
        return a, "".join(b)
    return a, rand_name(rnd)


U128_MAX = 2 ** 128 - 1
I128_MIN = -(2 ** 127)
INT_POOL = list(range(0, 13)) + [19, 20, 21, 33, 99, 100, 101, 255, 256, 1000, 65535, 2 ** 31, 2 ** 32,
                                  2 ** 53, 2 ** 53 + 1, 2 ** 63, 2 ** 64 - 1, 2 ** 64, 2 ** 127 - 1, 2 ** 127,
                                  U128_MAX - 1, U128_MAX]


def unsigned_list(rnd, n):
    return [str(rnd.choice(INT_POOL) if rnd.random() < 0.8 else rnd.randrange(0, 10 ** rnd.randint(1, 30)))
            for _ in range(n)]


def signed_list(rnd, n):
    out = []
    for _ in range(n):
        v = rnd.choice(INT_POOL) if rnd.random() < 0.7 else rnd.randrange(0, 10 ** rnd.randint(1, 25))
        v = min(v, 2 ** 127 - 1)
        if rnd.random() < 0.5:
            v = -v - (1 if rnd.random() < 0.5 else 0)
        out.append(str(max(v, I128_MIN)))
    return out


def float_text(rnd):
    """what Display prints for an f64: plain decimal, at most 15 significant digits"""
    r = rnd.random()
    if r < 0.04:
        return rnd.choice(["inf", "-inf"])
    ip = rnd.choice([0, 0, 1, 2, 3, 9, 10, 11, 99, 100, 12345, 10 ** 9, 10 ** 12])
    if rnd.random() < 0.35:
        s = str(ip)
    else:
        frac = rnd.choice(["5", "25", "1", "10", "9", "05", "125", "001", "999", "3333", "000001"])
        s = f"{ip}.{frac}".rstrip("0") if rnd.random() < 0.7 else f"{ip}.{frac}"
        if s.endswith("."):
            s += "0"
    if rnd.random() < 0.4:
        s = "-" + s
    return s


def float_list(rnd, n):
    return [float_text(rnd) for _ in range(n)]


SPECIAL_FORMS = ["+5", "+0", "-0", "0", "00", "-00", "0.0", "-0.0", "+0.0", "5", "5.", "5.0", ".5", "0.5", "-.5",
                 "1e3", "1E3", "1e+3", "1e-3", "1000", "0.001", "1.5e2", "150", "1e0", "1e",
                 "inf", "-inf", "+inf", "Inf", "INF", "infinity", "-Infinity", "nan", "NaN", "-nan", "+NaN",
                 "1e400", "1e-400", "1e99999", "-1e99999", "1e00005",
                 "340282366920938463463374607431768211455", "340282366920938463463374607431768211456",
                 "340282366920938463463374607431768211457",
                 "-170141183460469231731687303715884105728", "-170141183460469231731687303715884105729",
                 "170141183460469231731687303715884105727", "170141183460469231731687303715884105728",
                 "9007199254740992", "9007199254740993", "9007199254740992.5", "9007199254740993.0",
                 "0.1", "0.10", "0.100000000000000005", "0.1000000000000000055511151231257827",
                 "1.0000000000000001", "1.00000000000000001", "1", "1.0", "01", "+1", "1_000", "0x10", " 1", "1 ",
                 "١", "-", "+", ".", "-.", "e5", ".e5", "1.e5", "--1", "+-1", "1-", "1.2.3", "1..", "a", ""]


def string_list(rnd, n):
    return [rand_name(rnd) for _ in range(n)]


def mixed_list(rnd, n):
    out = []
    for _ in range(n):
        r = rnd.random()
        if r < 0.3:
            out += unsigned_list(rnd, 1)
        elif r < 0.5:
            out += signed_list(rnd, 1)
        elif r < 0.75:
            out += float_list(rnd, 1)
        elif r < 0.85:
            out.append(rnd.choice(SPECIAL_FORMS))
        else:
            out.append(rand_name(rnd))
    return out


LIST_CLASSES = {
    "uint": unsigned_list, "int": signed_list, "float": float_list, "str": string_list,
    "mixed": mixed_list,
    "intfloat": lambda rnd, n: [rnd.choice(signed_list(rnd, 1) + float_list(rnd, 1)) for _ in range(n)],
    "special": lambda rnd, n: [rnd.choice(SPECIAL_FORMS) for _ in range(n)],
}


def rand_list(rnd, cls, n):
    xs = LIST_CLASSES[cls](rnd, n)
    if xs and rnd.random() < 0.3:  # duplicates are legal argument lists
        xs[rnd.randrange(len(xs))] = rnd.choice(xs)
    return xs


def gen_c16(tier, seed):
    rnd = random.Random(seed * 7919 + 16)
    big = tier != "quick"
    scs = []
    # calibration of the numeric reading against std's parsers
    cal = list(SPECIAL_FORMS) + strs_upto(MC_ALPHABET, 2) + strs_upto("0-+.e", 3)
    cal += [rand_name(rnd) for _ in range(100)] + mixed_list(rnd, 200)
    for k, s in enumerate(dict.fromkeys(cal)):
        scs.append(pure(f"cal{k}", "classify", s=s))
    # the documented example of F4 and the repo's own test lists
    scs.append(pure("doc-example", "sort_args", attr="name", reverse=False, names=["10", "2", "33", "1", "-5"]))
    scs.append(pure("repo-natural", "cmp_grid", attr="natural", names=["A<4>", "A<8>", "A<16>", "A<32>", "A<64>"]))
    scs.append(pure("repo-cmp-int", "cmp_grid", attr="natural", names=["4", "8", "16", "32", "64", "08", "0", "00"]))
    # fixed witnesses of the two recorded findings about string lists
    versions = ["1.9", "abc", "1.3", "12", "1.5", "2.0.1", "1.10b", "1.100", "3.1", "1.25", "0.5", "2.0", "3.0",
                "3.0-rc", "1e3x", "v2", "beta", "7", "1.9.1", "10", "1.10"]
    scs.append(pure("versions-21", "sort_args", attr="name", reverse=False, names=versions))
    scs.append(pure("zero-spellings", "cmp_grid", attr="name", names=["0", "0.0", "-0"]))
    # integers beyond 128 bits (no integer type of the code holds them; Names.tla reads them as
    # decimals, which are ordered by f64 value - neighbours may tie): 2^128 + k, -(2^127) - k
    bigs = [str(2 ** 128 + d) for d in (2, 1, 0, 7)] + [str(-(2 ** 127) - d) for d in (3, 1, 2)]
    scs.append(pure("beyond-128-bits", "sort_args", attr="name", reverse=False, names=bigs[:4]))
    scs.append(pure("beyond-128-bits-r", "sort_args", attr="name", reverse=True, names=bigs[:4]))
    scs.append(pure("beyond-128-bits-neg", "sort_args", attr="name", reverse=False, names=bigs[4:] + ["5", "-5"]))
    scs.append(pure("beyond-128-bits-grid", "cmp_grid", attr="name", names=bigs))
    # exhaustive small domain: every ordered pair, every attribute
    dom = strs_upto(MC_ALPHABET, 2)
    scs.append(pure("grid-natural-2", "cmp_grid", attr="natural", names=dom))
    for attr in ATTRS:
        scs.append(pure(f"grid-{attr}-2", "cmp_grid", attr=attr, names=dom))
    scs.append(pure("grid-special-name", "cmp_grid", attr="name", names=SPECIAL_FORMS))
    if big:
        dom3 = strs_upto(MC_ALPHABET, 3)
        scs.append(pure("grid-natural-3", "cmp_grid", attr="natural", names=dom3))
        scs.append(pure("grid-name-3", "cmp_grid", attr="name", names=dom3))
    # argument lists: each class, three attributes, two directions; a few
    # lists beyond 20 elements (where the standard sort switches algorithm and
    # may detect an inconsistent comparator)
    short = [0, 1, 2, 3, 5, 8, 13, 20]
    k = 0
    for cls in LIST_CLASSES:
        for attr in ATTRS:
            reps = (3 if attr == "location" else 7) if not big else (12 if attr == "location" else 60)
            for rep in range(reps):
                if rep % 3 == 2:
                    n = rnd.choice([21, 22, 25, 30]) if (not big or rep % 6) else rnd.choice([45, 60])
                else:
                    n = rnd.choice(short)
                names = rand_list(rnd, cls, n)
                scs.append(pure(f"sort-{cls}-{attr}-{k}", "sort_args", attr=attr,
                                reverse=rnd.random() < 0.5, names=names))
                k += 1
    for cls in ("int", "float", "mixed"):
        scs.append(pure(f"sort-{cls}-name-long", "sort_args", attr="name", reverse=cls == "float",
                        names=rand_list(rnd, cls, 60)))
    # whole comparison matrices of random lists (consistency of the real comparator)
    for cls in LIST_CLASSES:
        for rep in range(4 if not big else 16):
            names = rand_list(rnd, cls, rnd.choice([6, 12, 20, 30]))
            scs.append(pure(f"grid-{cls}-{rep}", "cmp_grid", attr=rnd.choice(["name", "name", "kind"]), names=names))
    # single comparisons
    for j in range(2500 if not big else 20000):
        a, b = near_pair(rnd)
        scs.append(pure(f"nat{j}", "cmp_nat", a=a, b=b))
    for j in range(2000 if not big else 15000):
        cls = rnd.choice(list(LIST_CLASSES))
        names = rand_list(rnd, cls, rnd.randint(1, 8))
        i, jj = rnd.randrange(len(names)), rnd.randrange(len(names))
        scs.append(pure(f"arg{j}", "cmp_arg", attr=rnd.choice(ATTRS), names=names, i=i, j=jj))
    return scs


# ===================================================================== C13

PAT_CHARS = set("abcdefghijklmnopqrstuvwxyzABCDEFGHIJKLMNOPQRSTUVWXYZ0123456789:_")


def lit(s):
    return {"t": "lit", "cp": [ord(c) for c in s]}


ITEM_TEXT = {"any": ".", "star": ".*", "bol": "^", "eol": "$"}


def pattern_of(alts):
    """alts: list of lists of items -> (text for the engine, AST for TLA+)"""
    text = "|".join("".join("".join(chr(c) for c in it["cp"]) if it["t"] == "lit" else ITEM_TEXT[it["t"]]
                            for it in alt) for alt in alts)
    return text, {"alts": alts}


def items_from_text(s):
    """literal items for the allowed characters, `.` for every other one"""
    items, run = [], ""
    for c in s:
        if c in PAT_CHARS:
            run += c
        else:
            if run:
                items.append(lit(run))
                run = ""
            items.append({"t": "any"})
    if run:
        items.append(lit(run))
    return items


def rand_tree_paths(rnd):
    """display paths of a random entry tree: (inner nodes, cases)"""
    mods = ["m", "mod_a", "mod_b", "sort", "sorted", "a", "util"]
    benches = ["bench", "bench1", "bench10", "b", "sort", "add", "a", "été", "bench<i32>", "r#fn"]
    args = ["0", "1", "10", "100", "-5", "1.5", "abc", "a b", "10::20"]
    inner, cases = set(), set()
    crate = rnd.choice(["crate", "app", "a"])
    inner.add(crate)
    for _ in range(rnd.randint(2, 6)):
        p = crate
        for _ in range(rnd.randint(0, 2)):
            p += "::" + rnd.choice(mods)
            inner.add(p)
        p += "::" + rnd.choice(benches)
        shape = rnd.random()
        if shape < 0.4:
            cases.add(p)
        else:
            inner.add(p)
            if shape < 0.6:
                p += "::" + rnd.choice(["i32", "String", "Vec<u8>"])
                inner.add(p)
            for a in rnd.sample(args, rnd.randint(1, 3)):
                cases.add(p + "::" + a)
    return sorted(inner - cases), sorted(cases)


def rand_filter(rnd, inner, cases, inclusive):
    allp = inner + cases
    how = rnd.random()
    target = rnd.choice(allp)
    if how < 0.25:  # exact: a case, an inner node only, or nothing
        text = target if rnd.random() < 0.8 else target + rnd.choice(["x", "::", "1"])
        return {"inclusive": inclusive, "kind": "exact", "text": text}
    alts = []
    for _ in range(rnd.choice([1, 1, 1, 2, 2, 3])):
        t = rnd.choice(allp)
        r = rnd.random()
        if r < 0.35:  # a fragment of a path
            i = rnd.randrange(len(t))
            j = rnd.randint(i + 1, min(len(t), i + rnd.randint(1, 8)))
            items = items_from_text(t[i:j])
        elif r < 0.5:  # the whole path, anchored: matches that node only
            items = [{"t": "bol"}] + items_from_text(t) + [{"t": "eol"}]
        elif r < 0.65:  # prefix
            items = [{"t": "bol"}] + items_from_text(t[:rnd.randint(0, len(t))])
        elif r < 0.8:  # x.*y
            i = rnd.randint(0, len(t))
            items = items_from_text(t[:i][-3:]) + [{"t": "star"}] + items_from_text(t[i:][-rnd.randint(0, 4):] if t[i:] else "")
        elif r < 0.9:  # suffix
            items = items_from_text(t[rnd.randint(0, len(t)):]) + [{"t": "eol"}]
        else:  # noise: random small pattern, possibly matching nothing
            items = []
            for _ in range(rnd.randint(0, 4)):
                items.append(rnd.choice([lit(rnd.choice(["a", "b", "::", "1", "0", "zz", "_"])), {"t": "any"},
                                         {"t": "star"}, {"t": "bol"}, {"t": "eol"}]))
        alts.append(items)
    text, ast = pattern_of(alts)
    return {"inclusive": inclusive, "kind": "regex", "text": text, "ast": ast}


def gen_c13(tier, seed):
    rnd = random.Random(seed * 7919 + 13)
    big = tier != "quick"
    scs = []
    # the eight cases of config::filter::tests
    rx = lambda items: dict(zip(("text", "ast"), pattern_of([items])))  # noqa: E731
    abc123 = rx([lit("abc"), {"t": "star"}, lit("123")])
    repo = [
        ([], ["abc", "123"]),
        ([(True, "exact", "abc")], ["abc", "ab", "abcd"]),
        ([(False, "exact", "abc")], ["abc", "ab", "abcd"]),
        ([(True, "regex", abc123)], ["abc", "abc123", "abc::123"]),
        ([(False, "regex", abc123)], ["abc", "abc123", "abc::123"]),
        ([(True, "exact", "abc"), (True, "exact", "123")], ["abc", "123", "xyz"]),
        ([(True, "exact", "abc"), (False, "exact", "abc")], ["abc"]),
        ([(True, "regex", abc123), (False, "regex", abc123)], ["abc::123", "123::abc"]),
    ]
    k = 0
    for calls, paths in repo:
        cs = []
        for inc, kind, spec in calls:
            c = {"inclusive": inc, "kind": kind}
            c.update({"text": spec} if kind == "exact" else spec)
            cs.append(c)
        for p in paths:
            scs.append(pure(f"repo{k}", "is_match", calls=cs, path=p))
            k += 1
    # exhaustive small domain: every sequence of <= 2 (quick) / 3 calls from a pool
    pool = [
        {"kind": "exact", "text": "a::b"},
        {"kind": "exact", "text": "a"},
        {"kind": "exact", "text": ""},
        dict(kind="regex", **rx([lit("a")])),
        dict(kind="regex", **rx([{"t": "bol"}, lit("a")])),
        dict(kind="regex", **rx([lit("b"), {"t": "eol"}])),
        dict(kind="regex", **rx([lit("a"), {"t": "star"}, lit("b")])),
        dict(kind="regex", **rx([{"t": "bol"}, lit("a::b"), {"t": "eol"}])),
        dict(kind="regex", **rx([lit("::"), {"t": "any"}])),
        dict(kind="regex", **dict(zip(("text", "ast"), pattern_of([[lit("c")], [{"t": "bol"}, lit("b")]])))),
        dict(kind="regex", **rx([])),
    ]
    calls = [dict(c, inclusive=inc) for c in pool for inc in (True, False)]
    paths = ["", "a", "b", "a::b", "a::b::c", "b::a", "ab", "c::a::b", "a::é", "a::b\n", "x"]
    depth = 3 if big else 2
    k = 0
    for n in range(depth + 1):
        for seq in itertools.product(calls, repeat=n):
            if n == 3 and rnd.random() < 0.8:
                continue
            for p in (paths if n < 2 else rnd.sample(paths, 4)):
                scs.append(pure(f"ex{k}", "is_match", calls=list(seq), path=p))
                k += 1
    # random trees x filter sets: 0..4 positive, 0..4 skip
    for t in range(250 if not big else 1500):
        inner, cases = rand_tree_paths(rnd)
        for fsn in range(4):
            npos, nskip = rnd.randint(0, 4), rnd.randint(0, 4)
            fs = [rand_filter(rnd, inner, cases, True) for _ in range(npos)] + \
                 [rand_filter(rnd, inner, cases, False) for _ in range(nskip)]
            rnd.shuffle(fs)  # order of include / exclude calls
            probe = cases + inner
            for p in (probe if len(probe) <= 8 else rnd.sample(probe, 8)):
                scs.append(pure(f"t{t}-{fsn}-{len(scs)}", "is_match", calls=fs, path=p))
            # one set answers for every case of a tree in turn: the answer for a path must not
            # depend on what was asked before (each prefix of a random visiting order)
            order = list(probe)
            rnd.shuffle(order)
            for i in range(1, min(len(order), 6)):
                scs.append(pure(f"t{t}-{fsn}-seq{i}-{len(scs)}", "is_match", calls=fs, path=order[i],
                                earlier=order[:i]))
    # overlapping positive and skip filters, asked in both orders
    for t in range(60 if not big else 400):
        inner, cases = rand_tree_paths(rnd)
        if len(cases) < 2:
            continue
        a, b = rnd.sample(cases, 2)
        common = a.split("::")[0]
        fs = [{"inclusive": True, "kind": "regex", **dict(zip(("text", "ast"), pattern_of([[lit(common)]])))},
              {"inclusive": False, "kind": "exact", "text": b} if rnd.random() < 0.0 else
              {"inclusive": False, "kind": "regex", **dict(zip(("text", "ast"), pattern_of([[lit(b), {"t": "eol"}]])))}]
        for first, second in ((a, b), (b, a)):
            scs.append(pure(f"ov{t}-{len(scs)}", "is_match", calls=fs, path=second, earlier=[first]))
    return scs


# ===================================================================== C15

SCALARS = ["sample_count", "sample_size", "threads", "min_time", "max_time", "skip_ext_time", "ignore"]
COUNTERS = ["bytes", "chars", "cycles", "items"]
KEYS = SCALARS + COUNTERS
VALUES = {
    "sample_count": [0, 1, 100, 2 ** 31 - 1], "sample_size": [0, 1, 7, 1000],
    "threads": [[], [0], [1], [1, 2, 4], [4, 0, 4], [16, 1]],
    "min_time": [[0, 0], [0, 1], [1, 500000000], [3600, 0]], "max_time": [[0, 0], [0, 999999999], [2, 0], [2 ** 31 - 1, 5]],
    "skip_ext_time": [True, False], "ignore": [True, False],
    "bytes": [0, 1, 1024], "chars": [0, 5, 77], "cycles": [0, 3, 10 ** 9], "items": [0, 2, 99],
}


def no_options():
    return {k: [] for k in KEYS}


def rand_options(rnd, p_set=0.45):
    return {k: ([rnd.choice(VALUES[k])] if rnd.random() < p_set else []) for k in KEYS}


def gen_c15(tier, seed):
    rnd = random.Random(seed * 7919 + 15)
    big = tier != "quick"
    scs = []
    for m in ("no", "yes", "only"):
        for ig in (False, True):
            scs.append(pure(f"ign-{m}-{ig}", "should_run", run_ignored=m, ignore=ig))
    # overwrite, exhaustively per field: {unset, v1, v2} x {unset, v1, v2}
    for key in KEYS:
        v1, v2 = VALUES[key][0], VALUES[key][-1]
        for a, b in itertools.product(([], [v1], [v2]), repeat=2):
            s, o = no_options(), no_options()
            s[key], o[key] = a, b
            scs.append(pure(f"ow-{key}-{len(scs)}", "overwrite", self=s, other=o))
    # every pair of distinct fields set on opposite sides (masking)
    for k1, k2 in itertools.permutations(KEYS, 2):
        s, o = no_options(), no_options()
        s[k1] = [VALUES[k1][-1]]
        o[k2] = [VALUES[k2][0]]
        if rnd.random() < 0.5:
            o[k1] = [VALUES[k1][0]]
        scs.append(pure(f"mask-{k1}-{k2}", "overwrite", self=s, other=o))
    for j in range(1000 if not big else 10000):
        scs.append(pure(f"owr{j}", "overwrite", self=rand_options(rnd, rnd.choice([0.2, 0.5, 0.8])),
                        other=rand_options(rnd, rnd.choice([0.2, 0.5, 0.8]))))
    # resolution through runner, benchmark and up to 3 nested groups:
    # one field, every assignment of {unset, v1, v2} at 5 levels
    for key in KEYS:
        v1, v2 = VALUES[key][0], VALUES[key][-1]
        for assign in itertools.product(([], [v1], [v2]), repeat=5):
            levels = []
            for a in assign:
                o = no_options()
                o[key] = a
                levels.append(o)
            scs.append(pure(f"res-{key}-{len(scs)}", "resolve", levels=levels))
    for j in range(500 if not big else 4000):
        levels = [rand_options(rnd, rnd.choice([0.15, 0.4, 0.7])) for _ in range(rnd.randint(2, 5))]
        scs.append(pure(f"resr{j}", "resolve", levels=levels))
    return scs


# ============================================================= orchestration

GEN = {"C13": gen_c13, "C15": gen_c15, "C16": gen_c16}
MC = {
    "C16": lambda tier: [("MC_Names", "Names_q" if tier == "quick" else "Names_t", True),
                         ("MC_Names", "Names_v_mixed", False)],
    "C15": lambda tier: [("MC_Options", "Options_q", True), ("MC_Options", "Options_v_outer", False)],
    "C13": lambda tier: [("MC_Filters", "Filters_q" if tier == "quick" else "Filters_t", True),
                         ("MC_Filters", "Filters_v_positive_wins", False)],
}
ASSUMPTIONS = {
    "C16": [
        "strings are compared as sequences of Unicode code points (the code walks UTF-8 bytes; the two orders and the digit-run boundaries coincide)",
        "numeric reading of names = what str::parse::<u128/i128/f64> accepts; Names!Num is calibrated against std on every run (classify records)",
        "where the statement leaves the order open (names differing only in leading zeros of digit runs, decimals beyond 15 significant digits, -0 vs 0, NaN) every outcome is accepted",
        "sortedness of sort_args is demanded only for lists on which the documented relation is a total preorder (it is not on some lists mixing numeric and non-numeric names: MC_Names/Names_v_mixed)",
    ],
    "C13": [
        "regular expressions are limited to literals, '.', '.*', '^', '$' and top-level alternation; the generator emits pattern text and AST together; regex-lite is a dependency, not under test",
    ],
    "C15": [
        "option values below 2^31; durations as (secs, nanos)",
        "the 'resolve' records fold the real BenchOptions::overwrite in the order of the tree walk of run_tree / run_bench_entry (outermost group first, runner last); the walk itself is covered by the end-to-end level",
    ],
}


def witness_of(tlc_out):
    m = re.findall(r"/\\ witness = (.*?)(?=\n\n|\n/\\|\nState|\Z)", tlc_out, re.S)
    return re.sub(r"\s+", " ", m[-1]).strip() if m else None


def scenario_of(record):
    return {k: v for k, v in record.items() if k not in DERIVED}


def make_replay(lines, start, end, line_no, r):
    if r.get("violated") == "SpecHolds":
        raise V.ToolError("an assumption of the specification is broken (not a verdict on the code): "
                          f"{V.bad_rules(r['out'])} witness={witness_of(r['out'])} "
                          f"record={json.dumps(lines[start])[:600]}")
    rec = lines[line_no - 1] if 0 < line_no <= len(lines) else lines[start]
    first = lines[start]
    sc = first.get("of") if first.get("op") == "begin" else scenario_of(first)
    small = {k: v for k, v in rec.items() if k not in ("names_cp", "a_cp", "b_cp", "path_cp")}
    if len(json.dumps(small)) > 20000:
        small = {k: v for k, v in small.items() if k not in ("out", "names")}
    return {"kind": "pure-record", "scenario": sc, "invariant": r.get("violated"),
            "witness": witness_of(r["out"]), "failing_event": small}


# ------------------------------------------------------------ known findings

INT_RE = re.compile(r"^[+-]?[0-9]+$")
F64_RE = re.compile(r"^[+-]?(([0-9]+\.?[0-9]*|\.[0-9]+)([eE][+-]?[0-9]+)?|inf|infinity|nan)$", re.I)


def int_typed(s):
    """what str::parse::<u128> or ::<i128> accepts"""
    if not INT_RE.match(s):
        return False
    v = int(s)
    return (I128_MIN <= v <= U128_MAX) and not (s.startswith("-") and v > 0)


def float_typed(s):
    """what f64::from_str accepts (ASCII only)"""
    return bool(s.isascii() and F64_RE.match(s))


def zero_kinds(names):
    """which of the three zero spellings occur: negative-zero integer text,
    unsigned zero integer text, zero that only reads as a decimal"""
    kinds = set()
    for s in names:
        if re.match(r"^-0+$", s):
            kinds.add("neg-int")
        elif re.match(r"^\+?0+$", s):
            kinds.add("unsigned-int")
        elif float_typed(s) and not int_typed(s) and "n" not in s.lower() and float(s) == 0.0:
            kinds.add("decimal")
    return kinds


def known_findings():
    p = os.environ.get("PURE_KNOWN_FINDINGS")      # testing aid of the standalone entry point
    if p:
        return json.load(open(p))
    return V.load_known_findings()


def is_known_for(prop):
    entries = {}
    for f in known_findings().get("findings", []):
        if f.get("property") == prop:
            entries.setdefault(f.get("match", {}).get("kind"), f)

    def describe(kind, sc):
        e = entries[kind]
        return f"{e.get('id')} {e.get('title', '')} [{sc.get('op')} attr={sc.get('attr')} id={sc.get('id')}]"

    def is_known(obj):
        sc = obj.get("scenario") or {}
        rules = set(obj.get("rules") or [])
        names = sc.get("names") or []
        witness = obj.get("witness") or ""
        if not rules or sc.get("op") not in ("cmp_arg", "cmp_grid", "sort_args"):
            return None
        # under "location" the position decides before the name is looked at
        if sc.get("attr") not in ("name", "kind"):
            return None

        # F4: cmp_bench_arg_names parsed `a` twice.  Exactly: the name
        # attribute takes part and at least two integer-typed names of
        # different value are involved.
        if "arg-name-int-compare" in entries and rules <= {
                "C16:arg_order_differs_from_documented_order", "C16:arguments_not_in_documented_order",
                "C16:comparator_not_antisymmetric", "C16:comparator_not_transitive", "C16:sort_panicked",
                "C16:reverse_is_not_the_exact_reverse"}:
            involved = names
            if sc["op"] == "cmp_arg":
                involved = [names[sc["i"]], names[sc["j"]]]
            elif sc["op"] == "cmp_grid":
                m = re.search(r'"i", (\d+), "j", (\d+)', witness)
                if m:
                    involved = [names[int(m.group(1))], names[int(m.group(2))]]
            ints = [int(x) for x in involved if int_typed(x)]
            if len(ints) >= 2 and len(set(ints)) >= 2:
                return describe("arg-name-int-compare", sc)

        # the documented rule (numeric names by value, all other pairs in
        # natural order) is not transitive on lists that mix numeric and
        # non-numeric names, so no comparator can be a total order there and
        # the standard sort may panic.  Exactly: a panic, on a list for which
        # TLC found the documented relation not to be a total preorder.
        if "arg-name-mixed-list-not-total" in entries and sc["op"] == "sort_args" \
                and rules <= {"C16:sort_panicked", "C16:comparator_not_transitive"} \
                and '"documented_order_total_on_list", FALSE' in witness \
                and any(float_typed(x) for x in names) and any(not float_typed(x) for x in names):
            return describe("arg-name-mixed-list-not-total", sc)

        # "-0" reads as i128 but not as u128: it is put before "0" whatever the
        # positions, while both equal "0.0" as floats -> a 3-cycle.  Exactly:
        # lists with all three spellings of zero.
        if "arg-name-negative-zero-text" in entries and sc["op"] in ("sort_args", "cmp_grid") \
                and rules <= {"C16:sort_panicked", "C16:comparator_not_transitive",
                              "C16:arguments_not_in_documented_order", "C16:reverse_is_not_the_exact_reverse"} \
                and zero_kinds(names) == {"neg-int", "unsigned-int", "decimal"}:
            return describe("arg-name-negative-zero-text", sc)
        return None
    return is_known


# ----------------------------------------------------------- negative control

def negative_control(res, prop, trace_path):
    lines = V.read_trace(trace_path)

    def first(pred):
        for x in lines:
            if pred(x):
                return json.loads(json.dumps(x))
        raise V.ToolError("negative control: no suitable record")

    if prop == "C16":
        x = first(lambda x: x.get("op") == "cmp_nat" and x.get("out") in (-1, 1))
        x["out"] = -x["out"]
        y = first(lambda x: x.get("op") == "sort_args" and len(x.get("perm", [])) >= 3 and x.get("attr") == "location")
        y["perm"][0] = y["perm"][1]          # one argument lost, one duplicated
        recs = [x, y]
    elif prop == "C13":
        x = first(lambda x: x.get("op") == "is_match" and len(x.get("calls", [])) >= 2 and "out" in x)
        x["out"] = not x["out"]
        recs = [x]
    else:
        x = first(lambda x: x.get("op") == "overwrite" and x["self"]["sample_count"] and x["other"]["sample_count"]
                  and x["self"]["sample_count"] != x["other"]["sample_count"])
        x["out"]["sample_count"] = x["other"]["sample_count"]     # the outer level wins
        y = first(lambda x: x.get("op") == "resolve" and len(x["levels"]) >= 3
                  and any(x["out"][k] for k in KEYS))
        k = next(k for k in KEYS if y["out"][k])
        y["out"][k] = []                                          # a set option is lost
        recs = [x, y]
    got = []
    for i, rec in enumerate(recs):
        p = os.path.join(V.WORK, f"{PREFIX}.{prop}.negctl{i}.ndjson")
        with open(p, "w") as f:
            f.write(json.dumps(rec) + "\n")
        r = V.tlc_trace("PureTrace", f"PureTrace_{prop}", p)
        got.append({"expected": f"{prop}Holds", "got": r.get("violated"), "rules": V.bad_rules(r["out"])})
        if r.get("violated") != f"{prop}Holds":
            raise V.ToolError(f"negative control #{i} not caught: {r.get('violated')} ({p})")
    res.extra.setdefault("pure_negative_control", {})[prop] = got


# ------------------------------------------------------------------- running

def run_mc(res, prop, tier):
    for module, cfg, must_hold in MC[prop](tier):
        r = V.tlc_mc(module, cfg, workers=8, timeout=3000, coverage=False)
        res.add_mc(cfg, r)
        if must_hold and not r.get("ok"):
            raise V.ToolError(f"{module}/{cfg}: {r.get('violated') or r.get('error')}")
        if not must_hold and not r.get("violated"):
            raise V.ToolError(f"{module}/{cfg}: the variant was expected to fail and did not")


CHUNK = {"sort_args": 40, "cmp_grid": 12}


def split_by_op(trace_path):
    """One file per operation (order is irrelevant: every record is a run of
    its own), expensive kinds in chunks and every big matrix alone, so that an
    offending record does not force the re-validation of everything else."""
    groups = {}
    for x in V.read_trace(trace_path):
        op = x.get("op", "crash") if x.get("ev") == "reset" else "crash"
        if op == "begin":
            op = "crash"
        groups.setdefault(op, []).append(x)
    files = []
    for op, xs in sorted(groups.items(), key=lambda kv: len(json.dumps(kv[1][0]))):
        size = CHUNK.get(op, 1500)
        alone = [x for x in xs if op == "cmp_grid" and len(x.get("names", [])) > 40]
        rest = [x for x in xs if x not in alone]
        parts = [rest[i:i + size] for i in range(0, len(rest), size)] + [[x] for x in alone]
        for k, part in enumerate(parts):
            p = f"{trace_path}.{op}.{k}"
            with open(p, "w") as f:
                for x in part:
                    f.write(json.dumps(x) + "\n")
            files.append((op if len(parts) == 1 else f"{op}[{k}]", p, len(part)))
    return files


def run_pure_level(res, prop, tier, seed):
    """MC of the specification modules, generated inputs -> real code ->
    PureTrace, negative control.  Violations / known findings go to `res`."""
    assert prop in PROPS
    t0 = time.time()
    res.assumptions += [a for a in ASSUMPTIONS[prop] if a not in res.assumptions]
    run_mc(res, prop, tier)
    scs = GEN[prop](tier, seed)
    trace_path, summary = V.run_driver(scs, f"{PREFIX}.{prop}")
    res.extra.setdefault("pure_driver", {})[prop] = summary
    counts = {}
    for sc in scs:
        counts[sc["op"]] = counts.get(sc["op"], 0) + 1
    res.extra.setdefault("pure_records", {})[prop] = counts
    res.samples += [{"pure_scenario": scs[len(scs) // 2]}]
    before = len(res.violations)
    known = is_known_for(prop)
    for op, path, n in split_by_op(trace_path):
        V.validate_monitor(res, prop, "PureTrace", f"PureTrace_{prop}", path, f"pure:{op}",
                           make_replay, is_known=known, max_rounds=8)
    bad = {k: v for k, v in summary.get("outcomes", {}).items() if k != "finished"}
    if bad and len(res.violations) == before:
        raise V.ToolError(f"driver outcomes without a verdict: {bad}")
    if len(res.violations) == before:
        negative_control(res, prop, trace_path)
    res.extra.setdefault("pure_wall_s", {})[prop] = round(time.time() - t0, 1)
    return len(res.violations) - before


def run(prop, tier, seed):
    res = V.Result(prop, tier, seed)
    run_pure_level(res, prop, tier, seed)
    return res.finish()


def replay(prop, path):
    obj = json.load(open(path))
    res = V.Result(prop, "quick", 0)
    trace_path, _ = V.run_driver([obj["scenario"]], f"{PREFIX}.{prop}.replay")
    n = V.validate_monitor(res, prop, "PureTrace", f"PureTrace_{prop}", trace_path, "replay", make_replay,
                           is_known=is_known_for(prop))
    if n == 0 and not res.known:
        print("replay: no violation reproduced")
    return res.finish()


def main(argv):
    global PREFIX
    PREFIX = "pure_sa"
    if not argv or argv[0] not in PROPS:
        print(__doc__)
        return V.EXIT_TOOL
    prop = argv[0]
    tier = argv[1] if len(argv) > 1 and argv[1] in ("quick", "thorough") else os.environ.get("VERIF_TIER", "quick")
    V.ensure_dirs()
    # standalone runs keep their evidence out of /verif/evidence
    V.EVIDENCE = os.path.join(V.WORK, "pure_evidence")
    if os.environ.get("PURE_SKIP_BUILD"):          # the driver was built by hand (cargo build -p verif-driver)
        V._built = True
    os.makedirs(V.EVIDENCE, exist_ok=True)
    if "--replay" in argv:
        return replay(prop, argv[argv.index("--replay") + 1])
    res = V.Result(prop, tier, V.seed_from_env())
    n = run_pure_level(res, prop, tier, res.seed)
    rc = res.finish()
    print(f"pure level {prop} {tier}: {n} violation(s), {len(res.known)} known finding(s), "
          f"{res.traces} records validated, {res.states} TLC states, {time.time() - res.t0:.1f}s")
    for what, path in res.violations:
        print(f"  {what}\n    replay: {path}")
    for n_ in res.notes:
        print(f"  note: {n_}")
    print(f"evidence: {os.path.join(V.EVIDENCE, prop + '.json')}")
    return rc


if __name__ == "__main__":
    try:
        rc = main(sys.argv[1:])
    except V.ToolError as e:
        print(f"TOOL-ERROR: {e}", file=sys.stderr)
        rc = V.EXIT_TOOL
    sys.exit(rc)
