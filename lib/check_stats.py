"""C05: statistics (Stats.tla, StatsTrace.tla, MC_Stats) + stored durations
(LoopTrace C05 rules)."""
import json
import os
import random

import benchgen as G
import check_loop
import vcheck as V


def rand_info(rnd):
    a = rnd.randint(0, 5)
    d = rnd.randint(0, 5)
    return {"grow": [rnd.randint(0, 3), rnd.randint(0, 900)],
            "shrink": [rnd.randint(0, 3), rnd.randint(0, 900)],
            "alloc": [a, a * rnd.randint(0, 400)], "dealloc": [d, d * rnd.randint(0, 400)],
            "cur_count": a - d, "max_count": rnd.randint(0, 6), "cur_size": 0,
            "max_size": rnd.randint(0, 5000)}


def injected(tier, seed):
    rnd = random.Random(seed * 2203 + 9)
    scs = []
    k = 0
    # systematically: every sequence of length 0..3 over {0,1,2} and sizes 1..2 (ties, zeros, singletons, empties)
    import itertools
    for n in range(0, 4):
        for ds in itertools.product([0, 1, 2], repeat=n):
            for size in (1, 2):
                scs.append({"kind": "stats", "id": f"s{k}", "sample_size": size, "durations": list(ds),
                            "allocs": [{"index": i, "info": rand_info(rnd)} for i in range(n) if rnd.random() < 0.6],
                            "counts": [[rnd.randint(0, 9) for _ in range(n)] if rnd.random() < 0.5 else [] for _ in range(4)],
                            "input_counted": [True] * 4})
                k += 1
    for j in range(2000 if tier == "quick" else 20000):
        n = rnd.choice([0, 1, 2, 3, 4, 5, 6, 7, 8])
        size = rnd.choice([1, 1, 2, 3, 7, 100])
        pool = rnd.choice([[5], [0, 1], [10, 11, 12], list(range(0, 2000, 37)), [0, 999999, 123456]])
        ds = [rnd.choice(pool) for _ in range(n)]
        counts, ic = [], []
        for kind in range(4):
            mode = rnd.choice(["none", "none", "const", "input"])
            if mode == "none":
                counts.append([]); ic.append(False)
            elif mode == "const":
                counts.append([rnd.randint(0, 10 ** 6)]); ic.append(False)
            else:
                counts.append([rnd.randint(0, 5000) for _ in range(n)]); ic.append(True)
        scs.append({"kind": "stats", "id": f"r{j}", "sample_size": size, "durations": ds,
                    "allocs": [{"index": i, "info": rand_info(rnd)} for i in range(n) if rnd.random() < 0.5],
                    "counts": counts, "input_counted": ic})
    return scs


def bench_scenarios(tier, seed):
    rnd = random.Random(seed * 331 + 3)
    scs = []
    for j in range(600 if tier == "quick" else 6000):
        sc = G.base(rnd, f"b{j}", action="bench")
        sc["options"] = {"sample_count": rnd.choice([0, 1, 2, 3, 4, 5, 7]), "sample_size": rnd.choice([0, 1, 2, 3])}
        if rnd.random() < 0.3:
            # tuned sample size with per-input counters whose values differ from input to input
            del sc["options"]["sample_size"]
            sc["options"]["sample_count"] = rnd.choice([1, 2, 3, 5])
            sc["clock"]["precision"] = 1
            sc["costs"]["call"] = rnd.choice([30, 60, 150])
            if sc["entry"] not in ("bench", "bench_local"):
                sc["input_counters"] = sorted(rnd.sample([0, 1, 2, 3], rnd.choice([1, 2])))
                sc["count_values"] = [rnd.randint(0, 9) for _ in range(rnd.choice([3, 5, 7]))]
                if rnd.random() < 0.25:
                    sc["late_counters"] = [[rnd.choice(sc["input_counters"]), rnd.randint(0, 1000)]]
        elif sc["entry"] not in ("bench", "bench_local") and rnd.random() < 0.5:
            # explicit sample size with per-input counters; some with a constant counter of the
            # same kind configured before (attribute / run time) or given to the Bencher afterwards
            sc["input_counters"] = sorted(rnd.sample([0, 1, 2, 3], rnd.choice([1, 2])))
            sc["count_values"] = [rnd.randint(0, 9) for _ in range(rnd.choice([3, 5, 7]))]
            k = rnd.choice(sc["input_counters"])
            r = rnd.random()
            if r < 0.3:
                sc["option_counters"] = [[k, rnd.randint(0, 1000)]]
            elif r < 0.5:
                sc["bencher_counters"] = [[k, rnd.randint(0, 1000)]]
            elif r < 0.7:
                sc["late_counters"] = [[k, rnd.randint(0, 1000)]]
        if rnd.random() < 0.15:
            sc["options"]["max_time_ns"] = 0
        sc["alloc_script"] = G.rand_alloc_script(rnd, heavy=True)
        if "sample_size" not in sc["options"] and rnd.random() < 0.6:
            # allocator activity only in some of a thread's calls: warm-up allocations
            # (first calls, i.e. the tuning rounds that get discarded) or late ones
            sc["alloc_script"] = {"call": [{"op": "alloc", "size": rnd.choice([8, 64, 4096])}] + G.rand_ops(rnd, 1)}
            if rnd.random() < 0.7:
                sc["alloc_script"]["call_until"] = rnd.choice([1, 1, 2, 3, 6])
            else:
                sc["alloc_script"]["call_from"] = rnd.choice([2, 5, 9])
        sc["costs"]["call_noise"] = rnd.choice([[], [0, 50, 3], [7, 7, 1000, 0]])
        sc["costs"]["call_inc"] = rnd.choice([0, 1, 13])
        if rnd.random() < 0.5:
            sc["option_counters"] = [[rnd.randrange(4), rnd.randint(0, 1000)]]
        if rnd.random() < 0.3:
            sc["bencher_counters"] = [[rnd.randrange(4), rnd.randint(0, 1000)]]
        if rnd.random() < 0.3:
            sc["clock"]["overheads"] = [rnd.choice([0, 1, 3]), rnd.choice([0, 2]), rnd.choice([0, 2]), rnd.choice([0, 5])]
        scs.append(sc)
    return scs


def make_replay(lines, start, end, line_no, r):
    reset = lines[start]
    sc = dict(reset.get("scenario", {}))
    if sc.get("kind") == "bench":
        sc["schedule"] = {"source": "replay", "tids": reset.get("tids", [])}
    return {"kind": "stats", "scenario": sc, "invariant": r.get("violated"),
            "failing_event": lines[line_no - 1] if 0 < line_no <= len(lines) else None}


STATS_KEEP = {"reset", "report", "stats_rec", "report_failed", "sched_end"}


def known_filter(prop):
    kf = V.load_known_findings()
    entries = [f for f in kf.get("findings", []) if f.get("property") == prop]

    def is_known(obj):
        ev = obj.get("failing_event") or {}
        for f in entries:
            m = f.get("match", {})
            if m.get("kind") == "stats-of-zero-samples":
                if len(ev.get("durations", [1])) == 0 and set(obj.get("rules", [])) <= set(m.get("rules", [])):
                    return f"{f['id']} {f['title']} [scenario {obj['scenario'].get('id')}]"
        return None
    return is_known


def negative_control(res, proj):
    lines = V.read_trace(proj)
    idx = next(i for i, x in enumerate(lines) if x.get("ev") in ("report", "stats_rec")
               and x.get("stats_status") == "ok" and len(x.get("durations", [])) >= 2
               and len(set(x["durations"])) >= 2)
    start = max(j for j in range(idx + 1) if lines[j].get("ev") == "reset")
    run = [json.loads(json.dumps(x)) for x in lines[start:idx + 1]]
    t = run[-1]["stats"]["time"]
    t[0], t[1] = t[1], t[0]
    p = os.path.join(V.WORK, "C05.negctl.ndjson")
    with open(p, "w") as f:
        for x in run:
            f.write(json.dumps(x) + "\n")
    r = V.tlc_trace("StatsTrace", "StatsTrace_C05", p)
    res.extra["negative_control"] = {"got": r.get("violated"), "rules": V.bad_rules(r["out"])}
    if r.get("violated") != "C05Holds":
        raise V.ToolError("negative control (swapped fastest/slowest) not caught")


def run(prop, tier, seed):
    res = V.Result(prop, tier, seed)
    res.assumptions = [
        "durations and counts below 2^31 (TLC integers); floating figures are compared as round(1000*x) within +-1 of the exact rational",
        "ties between equal durations may be resolved by any duration-sorted permutation",
    ]
    cfg = "Stats_q" if tier == "quick" else "Stats_t"
    r = V.tlc_mc("MC_Stats", cfg, workers=8, coverage=False)
    res.add_mc(cfg, r)
    if not r.get("ok"):
        raise V.ToolError(f"MC_Stats: {r.get('violated') or r.get('error')}")

    # counter bookkeeping (Counters.tla): every order of counter / input_counter calls, samples and
    # discarded tuning rounds; the algorithm as it was before the F6 fix must violate the invariants
    r = V.tlc_mc("MC_Counters", "Counters_q", workers=8)
    res.add_mc("Counters_q", r)
    if not r.get("ok"):
        raise V.ToolError(f"MC_Counters: {r.get('violated') or r.get('error')}")
    r = V.tlc_mc("MC_Counters", "Counters_v_before_fix", workers=1, coverage=False)
    res.extra.setdefault("necessity_variants", []).append(
        {"config": "Counters_v_before_fix", "expected": ["FiguresBelongToTheirSamples", "MeanOverRecordedSamples"],
         "got": r.get("violated")})
    if r.get("violated") not in ("FiguresBelongToTheirSamples", "MeanOverRecordedSamples"):
        raise V.ToolError(f"Counters_v_before_fix: expected a violation, got {r.get('violated')}")

    scs = injected(tier, seed) + bench_scenarios(tier, seed)
    trace_path, summary = V.run_driver(scs, "C05.impl")
    res.extra["driver"] = summary
    proj, n = V.project(trace_path, STATS_KEEP, suffix=".stats")
    lines = V.read_trace(proj)
    res.samples = [x for x in lines if x.get("ev") in ("stats_rec", "report")][5:8]
    V.validate_monitor(res, prop, "StatsTrace", "StatsTrace_C05", proj, "impl->spec:stats",
                       make_replay, known_filter(prop), max_rounds=60)
    # stored durations (overhead subtraction, precision clamping) from the loop traces
    proj2, _ = V.project(trace_path, check_loop.KEEP, suffix=".loop")
    V.validate_monitor(res, prop, "LoopTrace", "LoopTrace_C05", proj2, "impl->spec:stored",
                       check_loop.make_replay)
    if not res.violations:
        negative_control(res, proj)
    return res.finish()


def replay(prop, path):
    obj = json.load(open(path))
    res = V.Result(prop, "quick", 0)
    trace_path, summary = V.run_driver([obj["scenario"]], "C05.replay")
    proj, _ = V.project(trace_path, STATS_KEEP, suffix=".stats")
    n = V.validate_monitor(res, prop, "StatsTrace", "StatsTrace_C05", proj, "replay", make_replay)
    if n == 0:
        print("replay: no violation reproduced")
    return res.finish()
