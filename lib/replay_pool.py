"""spec -> impl for the pool: replay a path cover of the state graph of the
smallest Pool.tla configurations through the real ThreadPool."""
import collections
import os
import re
import subprocess
import time

import vcheck as V

HIST = {"Pool_cov1": [1], "Pool_cov11": [1, 1], "Pool_cov2": [2], "Pool_cov21": [2, 1]}
SPUR = {"Pool_cov1": 1, "Pool_cov11": 1, "Pool_cov2": 0, "Pool_cov21": 0}


def dump_graph(cfg):
    dot = os.path.join(V.WORK, f"{cfg}.dot")
    if os.path.exists(dot):
        os.remove(dot)
    r = V.tlc_mc("COV_Pool", cfg, workers=4, coverage=False,
                 extra=("-dump", "dot,actionlabels", dot))
    if not r.get("ok"):
        raise V.ToolError(f"COV {cfg} failed: {r.get('violated') or r.get('error')}")
    return dot, r


NODE = re.compile(r'^(-?\d+) \[label="(.*)"')
EDGE = re.compile(r'^(-?\d+) -> (-?\d+) ')


def parse_dot(path):
    nodes, edges = {}, []
    init = None
    with open(path) as f:
        for line in f:
            m = EDGE.match(line)
            if m:
                edges.append((m.group(1), m.group(2)))
                continue
            m = NODE.match(line)
            if m:
                lab = m.group(2)
                last = int(re.search(r"last = (-?\d+)", lab).group(1))
                bidx = int(re.search(r"bidx = (\d+)", lab).group(1))
                ended = dict((int(a), b) for a, b in re.findall(
                    r'(\d+) :> \\"(\w+)\\"', re.search(r"ended = \(([^)]*)\)", lab).group(1)))
                pcs = re.findall(r'(\d+) :> \\"(\w+)\\"', re.search(r"pc = \(([^)]*)\)", lab).group(1))
                done = all(p in ("done", "unborn") for _, p in pcs) and dict(pcs).get("0") == "done"
                nodes[m.group(1)] = {"last": last, "bidx": bidx, "ended": ended, "done": done}
                if last == -1:
                    init = m.group(1)
    return nodes, edges, init


def path_cover(nodes, edges, init, max_paths=200000):
    out = collections.defaultdict(list)
    for a, b in edges:
        if a != b:
            out[a].append(b)
    uncovered = set((a, b) for a, b in edges if a != b)
    # distance to nearest terminal (done) node, by reverse BFS
    rev = collections.defaultdict(list)
    for a in out:
        for b in out[a]:
            rev[b].append(a)
    dist_done = {}
    dq = collections.deque(n for n, v in nodes.items() if v["done"])
    for n in dq:
        dist_done[n] = 0
    while dq:
        n = dq.popleft()
        for p in rev[n]:
            if p not in dist_done:
                dist_done[p] = dist_done[n] + 1
                dq.append(p)

    def nearest_uncovered(src):
        """BFS to the closest node that has an uncovered outgoing edge."""
        seen = {src: None}
        dq = collections.deque([src])
        while dq:
            n = dq.popleft()
            if any((n, b) in uncovered for b in out[n]):
                path = []
                while n is not None:
                    path.append(n)
                    n = seen[n]
                return path[::-1]
            for b in out[n]:
                if b not in seen:
                    seen[b] = n
                    dq.append(b)
        return None

    paths = []
    while uncovered and len(paths) < max_paths:
        path = [init]
        cur = init
        progressed = False
        while True:
            nxt = [b for b in out[cur] if (cur, b) in uncovered]
            if nxt:
                b = nxt[0]
                uncovered.discard((cur, b))
                path.append(b)
                cur = b
                progressed = True
                continue
            detour = nearest_uncovered(cur)
            if detour and len(detour) > 1:
                path.extend(detour[1:])
                cur = detour[-1]
                continue
            break
        # finish: shortest way to a terminal state
        while not nodes[cur]["done"]:
            cands = [b for b in out[cur] if b in dist_done]
            if not cands:
                break
            cur = min(cands, key=lambda b: dist_done[b])
            path.append(cur)
        if not progressed:
            break
        paths.append(path)
    return paths, len(uncovered)


def to_scenario(cfg, k, path, nodes):
    hist = HIST[cfg]
    panics = collections.defaultdict(set)
    prev = nodes[path[0]]
    tids = []
    for nid in path[1:]:
        n = nodes[nid]
        tids.append(n["last"])
        for i, st in n["ended"].items():
            if st == "panic" and (prev["ended"].get(i) != "panic" or prev["bidx"] != n["bidx"]):
                panics[n["bidx"]].add(i)
        prev = n
    return {
        "kind": "pool", "id": f"{cfg}-path{k}",
        "history": [{"n": n, "panics": sorted(panics.get(b + 1, ()))} for b, n in enumerate(hist)],
        "spurious": SPUR[cfg],
        # the first step (thread_start of the caller) is not a choice
        "schedule": {"source": "replay", "tids": tids[1:]},
        "expect_steps": len(tids),
    }


def run(res, prop, tier, seed, validate):
    cfgs = ["Pool_cov1"] if tier == "quick" else ["Pool_cov1", "Pool_cov11", "Pool_cov2", "Pool_cov21"]
    for cfg in cfgs:
        t0 = time.time()
        dot, r = dump_graph(cfg)
        nodes, edges, init = parse_dot(dot)
        paths, left = path_cover(nodes, edges, init)
        scs = [to_scenario(cfg, k, p, nodes) for k, p in enumerate(paths)]
        os.remove(dot)
        trace_path, summary = V.run_driver(scs, f"{prop}.replay.{cfg}")
        info = {"config": cfg, "states": len(nodes), "transitions": len(edges),
                "paths": len(paths), "uncovered_transitions": left,
                "driver": summary, "wall_s": round(time.time() - t0, 1)}
        res.extra.setdefault("behaviours_replayed", []).append(info)
        outcomes = summary.get("outcomes", {})
        # Each replayed behaviour must be followed step by step.
        lines = V.read_trace(trace_path)
        diverged = [x for x in lines if x.get("ev") == "sched_end" and x.get("outcome") != "completed"]
        if diverged:
            # The code could not take the step the model takes: the pc
            # structure differs (model drift), judged by L1 below.
            res.drift.append({"config": cfg, "replays_not_followed": len(diverged),
                              "outcomes": outcomes})
            print(f"MODEL-DRIFT property={prop} replay of {cfg}: {len(diverged)} behaviours not followed", flush=True)
        # every run must produce exactly the behaviour's number of steps
        validate(res, prop, trace_path, summary, f"spec->impl:{cfg}")
        if not res.samples or len(res.samples) < 4:
            res.samples.append({"replayed_behaviour": scs[len(scs) // 2]})
