"""Exhaustive model checking of Round.tla and the L2 binding of bench traces."""
import json

import vcheck as V

QUICK = ["Round_q1", "Round_q2", "Round_q3"]
THOROUGH = QUICK + ["Round_t1", "Round_t2", "Round_t3"]

L2_KEEP = {"reset", "bench_call", "precision_begin", "precision_end", "ts",
           "initial_start", "loop_begin", "gen", "count", "call",
           "barrier_arrive", "barrier_leave", "tally_clear", "tally_snapshot",
           "drop_out", "drop_in", "round_end", "test_break", "user_panic",
           "bench_return", "report", "report_failed", "sched_end"}


def run(res, prop, tier):
    for cfg in (QUICK if tier == "quick" else THOROUGH):
        r = V.tlc_mc("MC_Round", cfg, workers=8)
        res.add_mc(cfg, r)
        if not r.get("ok"):
            raise V.ToolError(f"MC {cfg}: {r.get('violated') or r.get('error')}")
    # Anti-vacuity (and the model-level face of finding F5): without the
    # unwinding guard a panic on one of two threads deadlocks the round.
    r = V.tlc_mc("MC_Round", "Round_v_noguard", workers=4, coverage=False)
    res.extra["necessity_variants"] = [{"config": "Round_v_noguard", "expected": "NoDeadlock",
                                        "got": r.get("violated")}]
    if r.get("violated") != "NoDeadlock":
        raise V.ToolError("Round_v_noguard should deadlock")


def bind_l2(res, prop, trace_path, label):
    """impl -> Round.tla, step by step.  A rejection is model drift."""
    proj, n = V.project(trace_path, L2_KEEP, suffix=".l2")
    lines = V.read_trace(proj)
    runs = sum(1 for x in lines if x.get("ev") == "reset")
    r = V.tlc_trace("RoundL2Trace", "RoundL2Trace", proj)
    res.add_trace(f"{label}:L2", r, runs, len(lines))
    if r["accepted"]:
        return
    line_no = V.failing_line(r)
    ev = lines[line_no - 1] if line_no and 0 < line_no <= len(lines) else None
    res.drift.append({"layer": "Round.tla", "first_unmatched_event": ev,
                      "violated": r.get("violated"),
                      "note": "the code no longer follows the pc structure of Round.tla; exhaustive MC results do not transfer"})
    print(f"MODEL-DRIFT property={prop} event={json.dumps(ev)}", flush=True)
