"""Exhaustive model checking of Round.tla (filled in with the model)."""


def run(res, prop, tier):
    pass
