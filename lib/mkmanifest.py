"""Regenerates /verif/MANIFEST.json from the table below."""
import json
import os
import subprocess

ROOT = os.path.dirname(os.path.dirname(os.path.abspath(__file__)))

CHECKS = {
 "C01": ("Round.tla / RoundTrace.tla", "TLC: exhaustive MC of Round.tla (interleavings x panic points); every recorded execution of the real Bencher entry points (instrumented values, deterministic scheduler, random + preemption-bounded DFS schedules, scripted panics) validated by TLC against the value life-cycle monitors of RoundTrace.tla (L1) and step by step against Round.tla (L2)",
         "model checking of the sample-loop model + TLC trace validation of real executions; identity-carrying inputs/outputs make swapped, re-read or doubly dropped slots visible", "5 C01"),
 "C02": ("Round.tla / RoundTrace.tla / Tally.tla", "TLC trace validation: between a thread's two sample timestamps only call events may occur; the tally snapshot must equal the TLA+ fold (Tally.tla) of that thread's scripted allocator operations inside the window; MC of Round.tla OnlyCallsInTimedSection",
         "virtual timestamp counter makes every timestamp an event; the specification recomputes the attributed tally", "5 C02"),
 "C03": ("Loop.tla / LoopTrace.tla / MC_Loop", "TLC: MC_Loop (all option grids x clock histories: ZeroMeansNoCall, TestOncePerThread, SamplesExactly, CallsExactly); trace validation recomputing remaining-sample arithmetic, per-thread call counts s*ceil(n/T) and the reported samples/iters figures from the log",
         "model checking + trace validation of the real loop under a scripted clock", "5 C03"),
 "C04": ("Loop.tla / LoopTrace.tla / MC_Loop", "TLC: MC_Loop (StopsAtFirstBoundary, ElapsedDefinition, BudgetCoversTuning, Termination); trace validation: after every round the logged elapsed time equals the declarative definition over the logged clock readings, a round runs only if Continue held, return only if it did not",
         "model checking + trace validation; the virtual clock scripts generation/call/drop costs", "5 C04"),
 "C05": ("Stats.tla / StatsTrace.tla / LoopTrace.tla", "TLC: MC_Stats proves the ordering theorems of Stats.tla over all small sample sequences; every Stats value computed by the real code (after scripted runs and from injected sample collections incl. empty, singleton, tied) is recomputed by Stats.tla (order statistics by rank sets, existential choice of the supplying samples) and every stored duration by Loop.tla (overhead subtraction, precision clamping)",
         "model checking + TLC as evaluator of the declarative statistics over recorded inputs", "5 C05"),
 "C09": ("Forward.tla / MC_Forward / AllocTrace.tla", "TLC: MC_Forward (the wrapper as a per-thread state machine with new / live / dying thread records and arbitrary answers of the wrapped allocator; three proposed shortcuts are expected-to-fail variants); TLC trace validation of the per-thread event language (req inner ret)* with equal arguments/results: AllocProfiler<LogMock> under scripted request sequences (layouts, null results, fresh threads), and a whole process whose #[global_allocator] is Outer<AllocProfiler<Inner>> logging into a pre-allocated ring (thread start-up / tear-down included)",
         "trace validation against the forwarding protocol automaton", "5 C09"),
 "C10": ("Tally.tla / MC_Alloc / AllocTrace.tla", "TLC: MC_Alloc proves that the incremental tally arithmetic equals the declarative definition (per-kind counts/sums, prefix maxima incl. the empty prefix) for all operation sequences up to the bound, two threads; trace validation: the real thread-local tally read back after every scripted operation on 1..8 interleaved threads equals Tally.tla's Apply; all short operation sequences of the model's domain are replayed through the real profiler",
         "model checking + trace validation + exhaustive replay of the model's small domain", "5 C10"),
 "C06": ("Pool.tla / VStd.tla", "TLC: MC_Extend (par_extend and the reused result buffer: an empty entry exactly for the calls that panicked, nothing stale below the length; the fill-only-when-grown shortcut is the expected-to-fail variant); TLC: exhaustive MC of Pool.tla (all interleavings, panic subsets, spurious wake-ups, histories) with four necessity variants that must fail; trace validation of the real ThreadPool under the baton scheduler (random + DFS schedules) against Pool.tla (L2) with VStd monitors as fallback (L1); replay of a path cover of the model's state graph through the real pool",
         "model checking + both conformance directions; happens-before computed from the orderings the code actually passes", "5 C06"),
 "C07": ("Pool.tla / VStd.tla", "TLC: NoDeadlock invariant and <>AllDone under weak fairness on Pool.tla; on the implementation: scheduler-detected deadlocks / leaked workers are trace events rejected by NoDeadlockObserved / NoLeakObserved; preemption-bounded DFS over schedules",
         "model checking (safety + liveness) + trace validation", "5 C07"),
 "C08": ("Round.tla / RoundTrace.tla", "TLC: MC of Round.tla for T in {2,3} with every panic point (NoStartBeforeAllGeneratedAndCleared, NoDropBeforeAllEnded, NoDeadlock, <>Final; the unguarded variant must deadlock); trace validation of multi-threaded runs incl. scripted panics on thread subsets",
         "model checking + trace validation; found and now guards finding F5", "5 C08"),
 "C11": ("BigNat.tla / Time.tla / MC_Time / NumTrace.tla", "TLC: MC_Time checks the algebraic laws of Time.tla's Elapsed (monotone in b, additive within 1 ps per term, translation invariant, zero for b < a) on the 64-bit boundary grid with arbitrary-precision BigNat arithmetic; every (a, b, f, result) of TscTimestamp::duration_since, every Duration conversion and every Timer::precision() measured against a quantised virtual clock is recomputed in TLA+ (NumTrace)",
         "model checking of the laws + TLC as exact evaluator over recorded calls (boundary grids, log-spaced and random 64-bit inputs, near-overflow products)", "5 C11"),
 "C12": ("Runner.tla / RunnerTrace.tla (registry rules); EntryList.tla / EntryListTrace.tla / EntryListL1Trace.tla (registration list)", "TLC trace validation of legal-name programs (differential compile: a crate that compiles without the attributes must compile with them and list the written benchmarks) and on macro-generated crates (back-end M: 112 syntactic forms of #[divan::bench] / #[divan::bench_group], compiled against the real macros): the dumped registry (names, module paths, source positions, options, argument cases, types x consts instances) must equal what Runner.tla derives from the written program, nothing else registered; printed tree and executed cases as for C13; back-end R with permuted registration orders (incl. group modules holding only generic benchmarks); the lock-free registration list: TLC model checking of EntryList.tla (all interleavings of the atomic operations of concurrent push / iter) and TLC trace validation of the real list under the deterministic scheduler (sequential orders decide C12; concurrent executions are validated and reported as beyond the property)",
         "TLC compares registry dumps and runs of generated crates with the declarative program semantics", "5 C12"),
 "C13": ("Runner.tla / Filters.tla / RunnerTrace.tla", "TLC trace validation: for every generated program x filter set (positional / --skip / --exact, regex subset with explicit AST) the set of printed nodes and of invoked cases is compared with Runner.tla's declarative selection on full display paths (per argument case; parents iff a selected case lies below); FilterSet::is_match in-crate against Filters.tla",
         "TLC evaluates the declarative pipeline over generated programs executed by the real runner", "5 C13"),
 "C14": ("Runner.tla / RunnerTrace.tla", "TLC trace validation: under --list, --list --format terse (NEXTEST=1) and Divan::list_benches no invoke/call event may occur; the set of terse lines must equal Runner.tla's would-run set (filters, ignore flags, inherited/overridden ignore); every listed path is fed back as the only --exact filter of a run that must execute exactly that case",
         "TLC evaluates the declarative would-run set; round trips generated from the real listing", "5 C14"),
 "C15": ("Runner.tla / Options.tla / RunnerTrace.tla", "TLC trace validation: effective options per benchmark (Options.tla: run time over benchmark over innermost group, per field, counters per kind) are compared with what the real loop saw (loop_begin event: size, remaining samples, min/max/skip, threads), call counts s*T*ceil(n/T), thread-count branches, counter rows and (ignored) marks; options set by CLI flag, DIVAN_* variable, builder call before/after parsing, attribute and up to three nested groups",
         "TLC evaluates the declarative option resolution", "5 C15"),
 "C16": ("Runner.tla / Names.tla / RunnerTrace.tla", "TLC trace validation: every adjacent pair of printed siblings (groups, benchmarks, generic instances, argument rows, thread-count rows) must be in a permitted non-descending order of Names.tla/Runner.tla's documented comparison for --sort/--sortr kind|name|location; comparator functions in-crate against Names.tla; MC_Names checks the order laws of the specification operators",
         "TLC evaluates the documented order (set-valued where the statement leaves ties open)", "5 C16"),
 "C17": ("Args.tla / MC_Args / Runner.tla / RunnerTrace.tla", "TLC: MC_Args (shared argument cell, every display list, lookup by identity, per-instantiation function; three shortcuts are expected-to-fail variants); trace validation: the k-th executed case must be the benchmark instance, argument, const and type the k-th runnable printed row names (after filtering, sorting, reversal), and an argument list is evaluated at most once per process and shared by the generic instances",
         "identity of (label, received value) pairs logged by generated benchmark bodies", "5 C17"),
 "C20": ("Runner.tla / Painter.tla / Columns.tla / RunnerTrace.tla", "TLC: MC_Painter (glyph state machine over all forests) and MC_Columns (padding state machine over all painting plans with thread-count rows: cells stay under the headings iff the initial span covers every label; the span of the pinned code is the expected-to-fail variant, defect F11); trace validation: the printed tree is parsed back from glyph groups alone (depth, branch/corner vs. later siblings, vertical bars vs. ancestors), must contain each selected group/benchmark/argument/thread-count row exactly once in sorted depth-first order, (ignored) marks only on ignored benchmarks, samples/iters cells equal to the statistics the runner computed, continuation rows attached to a benchmark, every cell-carrying line starts its cells under the first heading and keeps the column separators under those of the heading line while no value is wider than its column",
         "parse-back and comparison done by TLC on lexed lines", "5 C20"),
 "C18": ("BigNat.tla / Fmt.tla / MC_Fmt / NumTrace.tla", "TLC: MC_Fmt checks parse-back bound, digit budget, no exponent / trailing zeros of Fmt.tla over every value 0..12000 ps and all unit / 10^k boundary neighbourhoods up to 2^128-1; every Display string of FineDuration (default, precisions, widths), format_bytes and DisplayThroughput on generated inputs is compared with Fmt.tla (durations exactly; sizes and throughputs within the +-2^-50 relative interval the statement grants)",
         "model checking of the format's theorems + TLC as exact evaluator over recorded calls", "5 C18"),
 "C19": ("Loop.tla / LoopTrace.tla / MC_Loop", "TLC: MC_Loop (SizesArePowersOfTwo, ThresholdRule, EarlierSamplesDiscarded, BudgetCoversTuning); trace validation of tuned runs: every tuning step recomputed from the logged readings and the scripted precision, no sample counted against sample_count while tuning, only the time budget may end a run that is still tuning",
         "model checking + trace validation", "5 C19"),
}

NOT_YET = "check under construction in this session; not yet claimed"


def main():
    props = [json.loads(l)["id"] for l in open(os.path.join(ROOT, "properties.jsonl"))]
    commits = subprocess.run(["git", "-C", "/repo", "log", "--format=%h %s", "4224f35..HEAD"],
                             stdout=subprocess.PIPE, text=True).stdout.strip().splitlines()
    hooks = [c.split()[0] for c in commits if c.split(" ", 1)[1].startswith("verif:")]
    checks = []
    for pid in props:
        if pid not in CHECKS:
            continue
        engine, technique, text, ref = CHECKS[pid]
        checks.append({
            "property_id": pid,
            "quick_cmd": f"bin/check {pid} --tier quick",
            "thorough_cmd": f"bin/check {pid} --tier thorough",
            "evidence_file": f"evidence/{pid}.json",
            "replay_cmd_template": f"bin/check {pid} --replay {{path}}",
            "engine": engine,
            "level_claimed": {"category": "model_checking", "text": text, "design_ref": "DESIGN.md section " + ref},
            "level_note": "bounded model checking (constants in evidence) + executions explored by seeded random and preemption-bounded DFS schedules; trusted: TLC, the std shim/scheduler in src/verif (guarded by PrimitivesSound), the harness's instrumented types",
            "technique": technique,
        })
    m = {
        "version": 1,
        "setup_cmd": "bin/check --setup",
        "hooks": {
            "guard": "cargo feature divan_verif",
            "enable": "the harness's path dependency: divan = { path = \"/repo\", default-features = false, features = [\"divan_verif\"] } (built by every check through cargo, so edits under /repo are picked up)",
            "baseline_off_cmd": "cd /repo && cargo nextest run --workspace --no-fail-fast --tool-config-file pb:/w/lib/nextest.toml --profile pb --test-threads 8 --offline || cargo test --workspace --no-fail-fast --offline",
            "source_commits": hooks,
            "add_only": True,
        },
        "engines": [
            {"name": "TLC", "path": "/usr/local/bin/tlc", "serves_properties": sorted(CHECKS), "kind_free_text": "explicit-state model checker: exhaustive MC of spec/mc/*, trace validation of spec/trace/*"},
            {"name": "driver", "path": "harness/driver", "serves_properties": sorted(CHECKS), "kind_free_text": "Rust harness driving the real code (feature divan_verif) under a deterministic scheduler and a virtual clock; emits ndjson traces"},
        ],
        "checks": checks,
        "notes": "bin/check is the single entry point; python only orchestrates (scenario scripts, projection of events by layer, lexing TLC's verdict). KNOWN-FINDING / fixed entries: known_findings.json.",
        "not_applicable": [{"property_id": p, "reason": NOT_YET} for p in props if p not in CHECKS],
    }
    json.dump(m, open(os.path.join(ROOT, "MANIFEST.json"), "w"), indent=1)


if __name__ == "__main__":
    main()
