"""C12 (run-time part), C13, C14, C15, C16, C17, C20: the runner pipeline on
generated programs (Runner.tla, RunnerTrace.tla; back-end R = harness/runprog)."""
import copy
import json
import os
import random

import progs
import vcheck as V

PROPS = ["C12", "C13", "C14", "C15", "C16", "C17", "C20"]


def display_paths(prog):
    out = []
    for b in prog["benches"]:
        out.append("::".join(progs.strip_raw(m) for m in b["mods"]) + "::" + b["name"])
        for a in b.get("args", [])[:2]:
            out.append(out[-1] + "::" + a)
    for g in prog["groups"]:
        if "generic" in g:
            out.append("::".join(progs.strip_raw(m) for m in g["mods"]) + "::" + g["name"])
    return out


def emphasis(prop, rnd):
    """Which actions / generator knobs a property cares most about."""
    if prop == "C14":
        return rnd.choice(["list_terse", "list_terse", "list", "test"])
    if prop == "C20":
        return rnd.choice(["bench", "bench", "bench", "test", "list"])
    if prop == "C15":
        return rnd.choice(["bench", "bench", "test", "list"])
    if prop == "C17":
        return rnd.choice(["bench", "test", "test"])
    return None


def gen_runs(prop, tier, seed):
    rnd = random.Random(seed * 9973 + PROPS.index(prop))
    n_prog = {"quick": 120, "thorough": 1500}[tier]
    runs = []
    for k in range(n_prog):
        prog = progs.gen_program(rnd, f"p{k}", roots=2 if rnd.random() < 0.15 else 1)
        paths = display_paths(prog)
        for a in range(3):
            cfg = progs.gen_config(rnd, prog, action=emphasis(prop, rnd), paths=paths)
            if prop == "C13" and rnd.random() < 0.6 and len(cfg["filters"]) < 2:
                cfg2 = progs.gen_config(rnd, prog, action=cfg["action"], paths=paths)
                extra = [f for f in cfg2["filters"] if f["kind"] == ("exact" if "--exact" in cfg["argv"] else "regex")]
                for f in extra:
                    cfg["filters"].append(f)
                    cfg["argv"] += [f["text"]] if f["inclusive"] else ["--skip", f["text"]]
            runs.append((prog, cfg, f"{prop}-p{k}c{a}"))
    return runs


def c13_overlap_runs(tier, seed):
    """Filter sets in which positive and skip filters OVERLAP: a broad positive
    filter (crate, module, benchmark name) together with skip filters on some of
    the cases it selects, several of each, regex and --exact.  Skip must win for
    exactly the overlapping cases whatever was decided for the cases visited
    before them."""
    rnd = random.Random(seed + 1313)
    runs = []
    for k in range(100 if tier == "quick" else 1500):
        prog = progs.gen_program(rnd, f"ov{k}")
        paths = [p for p in display_paths(prog) if all(c in progs.SAFE for c in p)]
        if len(paths) < 2:
            continue
        cfg = progs.gen_config(rnd, prog, action=rnd.choice(["test", "test", "list", "list_terse", "bench"]),
                               paths=[], nf=0)
        segs = lambda p: [x for x in p.split("::") if x and not x.startswith("-")]
        if rnd.random() < 0.3:
            cfg["argv"].append("--exact")
            chosen = rnd.sample(paths, min(len(paths), rnd.randint(2, 4)))
            for p in chosen:
                progs.add_filter(cfg, True, "exact", p)
            for p in rnd.sample(chosen, rnd.randint(1, 2)) + ([rnd.choice(paths)] if rnd.random() < 0.4 else []):
                progs.add_filter(cfg, False, "exact", p)
        else:
            victim_pool = [p for p in paths if len(segs(p)) >= 2]
            if not victim_pool:
                continue
            for _ in range(rnd.randint(1, 3)):
                v = rnd.choice(victim_pool)
                sg = segs(v)
                broad = rnd.choice(sg[:-1])                    # selects v and its neighbours
                narrow = sg[-1]                                 # rejects v (and whatever else carries that text)
                if not any(f["text"] == broad and f["inclusive"] for f in cfg["filters"]):
                    progs.add_filter(cfg, True, "regex", broad)
                text, ast = rnd.choice([
                    (narrow, None),
                    (narrow + "$", {"alts": [[{"t": "lit", "cp": progs.cp(narrow)}, {"t": "eol"}]]}),
                ])
                if len(cfg["filters"]) < 8:
                    progs.add_filter(cfg, False, "regex", text, ast)
            if rnd.random() < 0.3:
                progs.add_filter(cfg, True, "regex", "nomatch")
        runs.append((prog, cfg, f"C13-ov{k}"))
    return runs


def c16_collision_runs(tier, seed):
    """A module (group) and a benchmark with the same display name as siblings,
    declared in both orders, so that the tie-breakers behind each --sort key
    (kind / name / location in the documented order) decide."""
    rnd = random.Random(seed + 1616)
    runs = []
    n = 100 if tier == "quick" else 1500
    for k in range(n):
        line = [0]
        def loc():
            line[0] += rnd.randint(2, 9)
            return {"file": rnd.choice(["src/a.rs", "src/a.rs", "src/b.rs"]), "line": line[0], "col": rnd.choice([1, 5])}
        names = rnd.sample(["alpha", "beta", "a1", "zz", "m10", "m2"], rnd.choice([2, 3]))
        items = []
        for nm in names:
            items.append(("mod", nm))
            items.append(("bench", nm))
        if rnd.random() < 0.6:
            items.append(("bench", "gamma"))
        rnd.shuffle(items)
        benches, groups = [], []
        for kind, nm in items:
            if kind == "mod":
                custom = rnd.random() < 0.3
                raw = nm if not custom else nm + "_raw"
                if rnd.random() < 0.6:
                    groups.append({"mods": ["prog"], "raw": raw, "name": nm, **loc(), "opts": {}, "has_opts": rnd.random() < 0.5})
                    if custom is False:
                        pass
                else:
                    raw = nm
                for j in range(rnd.choice([1, 2])):
                    benches.append({"mods": ["prog", raw], "raw": f"inner{j}", "name": f"inner{j}", **loc(), "kind": "plain",
                                    "opts": {"sample_count": 1, "sample_size": 1}, "has_opts": True, "cost": 100})
            else:
                custom = rnd.random() < 0.4
                benches.append({"mods": ["prog"], "raw": nm if not custom else f"fn_{nm}", "name": nm, **loc(), "kind": "plain",
                                "opts": {"sample_count": 1, "sample_size": 1}, "has_opts": True, "cost": 100})
        push = [["b", i] for i in range(len(benches))] + [["g", i] for i in range(len(groups))]
        rnd.shuffle(push)
        prog = {"id": f"c16c{k}", "crate": "prog", "clock": {"start": 1000, "read_step": 0, "precision": 1},
                "benches": benches, "groups": groups, "ginst": [], "push": push, "builder": [], "entry": "main"}
        attr = rnd.choice(["name", "name", "kind", "location"])
        rev = rnd.random() < 0.4
        action = rnd.choice(["list", "list", "test"])
        argv = (["--list"] if action == "list" else ["--test"]) + (["--sortr", attr] if rev else ["--sort", attr])
        cfg = {"action": action, "sort": attr, "reverse": rev, "run_ignored": "no", "filters": [],
               "argv": argv, "env": {}, "builder": [], "entry": "main",
               "src_after": {}, "src_cli": {}, "src_env": {}, "src_before": {}}
        runs.append((prog, cfg, f"C16-col{k}"))
    return runs


def c15_matrix_runs(tier, seed):
    """Every option, one at a time, set at several levels at once (run time by
    CLI flag / DIVAN_* variable / builder call, the benchmark, the inner and the
    outer group) with values that include the falsy ones (false, 0, [1])."""
    rnd = random.Random(seed + 1515)
    values = {
        "sample_count": [1, 2, 3], "sample_size": [1, 2, 3],
        "threads": [[1], [2], [1, 2], [0, 1], [0, progs.parallelism()], [2, 0, 2]],
        "min_time_ns": [0, 1, 2], "max_time_ns": [50, 100, 1000], "skip_ext_time": [False, True],
        "c0": [7, 8], "c1": [7, 8], "c2": [7, 8], "c3": [7, 8],
    }
    flags = {"sample_count": "sample-count", "sample_size": "sample-size", "threads": "threads",
             "min_time_ns": "min-time", "max_time_ns": "max-time", "skip_ext_time": "skip-ext-time"}
    runs = []
    n = 240 if tier == "quick" else 4000
    for k in range(n):
        field = rnd.choice(list(values))
        def pick():
            return rnd.choice([None] + values[field] + values[field])
        levels = {"runner": pick(), "bench": pick(), "inner": pick(), "outer": pick()}
        def as_opts(v):
            if v is None:
                return {}
            if field.startswith("c"):
                return {"counters": [[int(field[1]), v]]}
            return {field: v}
        base = {"sample_count": 2, "sample_size": 1}
        bench_opts = dict(as_opts(levels["bench"]))
        outer_opts = dict(base) if field not in base else {k2: v for k2, v in base.items() if k2 != field}
        outer_opts.update(as_opts(levels["outer"]))
        if field in base and levels["outer"] is None and levels["inner"] is None and levels["bench"] is None and levels["runner"] is None:
            outer_opts[field] = base[field]
        prog = {"id": f"c15m{k}", "crate": "prog", "clock": {"start": 1000, "read_step": 0, "precision": 1},
                "benches": [
                    {"mods": ["prog", "outer", "inner"], "raw": "target", "name": "target", "file": "src/a.rs", "line": 30,
                     "col": 1, "kind": "plain", "opts": bench_opts, "has_opts": bool(bench_opts) or rnd.random() < 0.5, "cost": 500},
                    {"mods": ["prog", "outer"], "raw": "plain", "name": "plain", "file": "src/a.rs", "line": 40,
                     "col": 1, "kind": "plain", "opts": {}, "has_opts": False, "cost": 300}],
                "groups": [
                    {"mods": ["prog"], "raw": "outer", "name": "outer", "file": "src/a.rs", "line": 1, "col": 1,
                     "opts": outer_opts, "has_opts": True},
                    {"mods": ["prog", "outer"], "raw": "inner", "name": "inner", "file": "src/a.rs", "line": 10, "col": 1,
                     "opts": as_opts(levels["inner"]), "has_opts": True}],
                "ginst": [], "push": [["b", 0], ["g", 1], ["b", 1], ["g", 0]], "builder": [], "entry": "main"}
        rnd.shuffle(prog["push"])
        action = rnd.choice(["bench", "bench", "test"])
        cfg = {"action": action, "sort": "kind", "reverse": False, "run_ignored": "no", "filters": [],
               "argv": ["--bench"] if action == "bench" else ["--test"], "env": {}, "builder": [], "entry": "main",
               "src_after": {}, "src_cli": {}, "src_env": {}, "src_before": {}}
        cfg["argv"] += ["--timer", "tsc"]
        v = levels["runner"]
        if v is not None:
            how = rnd.choice(["cli", "cli", "env", "env", "before", "after"])
            ro = as_opts(v)
            if field.startswith("c"):
                name = ["bytes", "chars", "cycles", "items"][int(field[1])]
                if how == "cli":
                    cfg["argv"] += [f"--{name}-count", str(v)]
                elif how == "env":
                    cfg["env"][f"DIVAN_{name.upper()}_COUNT"] = str(v)
                else:
                    how = "after"
                    cfg["builder"].append([f"{name}_count", v, "after"])
            else:
                if field in ("min_time_ns", "max_time_ns"):
                    text = f"{v / 1e9:.9f}"
                elif field == "threads":
                    text = ",".join(str(x) for x in v)
                elif field == "skip_ext_time":
                    text = "true" if v else "false"
                else:
                    text = str(v)
                if how == "cli":
                    if field == "skip_ext_time" and rnd.random() < 0.5:
                        cfg["argv"] += [f"--skip-ext-time={text}"] if not (v and rnd.random() < 0.5) else ["--skip-ext-time"]
                    else:
                        cfg["argv"] += [f"--{flags[field]}", text]
                elif how == "env":
                    cfg["env"]["DIVAN_" + flags[field].upper().replace("-", "_")] = text
                else:
                    cfg["builder"].append([field, v, how])
            cfg[{"cli": "src_cli", "env": "src_env", "before": "src_before", "after": "src_after"}[how]] = ro
        runs.append((prog, cfg, f"C15-m{k}"))
    return runs


def shape_runs(tier, seed):
    """spec -> impl for the painter: every forest of Painter.tla's exhaustive
    instance (depth <= 3, fan-out <= 2; depth <= 2, fan-out <= 3) becomes a
    program of that shape, listed / tested / benchmarked by the real runner."""
    rnd = random.Random(seed + 4242)
    shapes = progs.forests(3, 2) + progs.forests(2, 3)
    if tier == "quick":
        shapes = rnd.sample(shapes, 60)
    runs = []
    for k, forest in enumerate(shapes):
        prog = progs.program_from_shape(forest, f"shape{k}")
        action = rnd.choice(["list", "test", "bench"])
        argv = {"list": ["--list"], "test": ["--test"], "bench": ["--bench", "--timer", "tsc"]}[action]
        cfg = {"action": action, "sort": "kind", "reverse": False, "run_ignored": "no", "filters": [],
               "argv": argv, "env": {}, "builder": [], "entry": "main",
               "src_after": {}, "src_cli": {}, "src_env": {}, "src_before": {}}
        runs.append((prog, cfg, f"C20-shape{k}"))
    return runs


def exact_roundtrip_runs(records, by_name, rnd, limit):
    """C14: feed listed paths back as the only --exact filter of a test run."""
    out = []
    for rec in records:
        if rec["config"]["action"] != "list_terse" or not rec["terse"]:
            continue
        prog, _cfg = by_name[rec["id"]]
        for t in rnd.sample(rec["terse"], min(2, len(rec["terse"]))):
            text = t["text"]
            if not text.endswith(": benchmark"):
                continue
            path = text[: -len(": benchmark")]
            cfg = {"action": "test", "sort": "kind", "reverse": False, "run_ignored": "yes", "filters": [
                {"inclusive": True, "kind": "exact", "text": path, "text_cp": progs.cp(path), "ast": {"alts": []}}],
                "argv": ["--test", "--exact", "--include-ignored", path], "env": {}, "builder": [], "entry": "main",
                "src_after": {}, "src_cli": {}, "src_env": {}, "src_before": {}}
            out.append((prog, cfg, f"{rec['id']}-exact{len(out)}"))
            if len(out) >= limit:
                return out
    return out


def execute(runs, label):
    path = os.path.join(V.WORK, f"{label}.runs.ndjson")
    recs = []
    with open(path, "w") as f:
        for prog, cfg, name in runs:
            rec = progs.run_program(prog, cfg, name)
            recs.append(rec)
            f.write(json.dumps(rec) + "\n")
    return path, recs


def make_replay_factory(by_name):
    def make_replay(lines, start, end, line_no, r):
        rec = lines[line_no - 1] if 0 < line_no <= len(lines) else {}
        prog, cfg = by_name.get(rec.get("id"), (None, None))
        return {"kind": "runner-run", "id": rec.get("id"), "program": prog, "config": cfg,
                "printed": ["".join(chr(c) for c in ln.get("raw_cp", [])) for ln in rec.get("lines", [])],
                "terse": [t["text"] for t in rec.get("terse", [])],
                "invokes": [{k: v for k, v in i.items() if k not in ("stats", "arg_cp")} for i in rec.get("invokes", [])],
                "invariant": r.get("violated")}
    return make_replay


def validate_runs(res, prop, path, label, by_name, is_known=None, max_rounds=8):
    """One `run` record per TLC state; an offending record is removed and the
    rest examined (records are independent)."""
    lines = V.read_trace(path)
    found = 0
    cur = path
    make_replay = make_replay_factory(by_name)
    for attempt in range(max_rounds):
        if not lines:
            break
        r = V.tlc_trace("RunnerTrace", f"RunnerTrace_{prop}", cur)
        res.add_trace(label, r, len(lines), sum(len(x.get("lines", [])) + len(x.get("invokes", [])) + len(x.get("terse", [])) for x in lines))
        if r["accepted"]:
            return found
        if not r.get("violated"):
            raise V.ToolError("RunnerTrace rejected a record: " + r["raw_tail"][-600:])
        idx = r["last_l"] - 2
        rules = [x for x in V.bad_rules(r["out"]) if x.startswith(prop + ":") or x.startswith("ALL:")
                 or (prop == "C12" and x[:4] in ("C13:", "C20:", "C15:"))]
        obj = make_replay(lines, idx, idx + 1, idx + 1, r)
        obj["rules"] = rules
        known = is_known(obj) if is_known else None
        if known:
            res.known_finding(known)
        else:
            res.violation(f"{r['violated']}: {', '.join(rules)} ({label}, run {lines[idx].get('id')})", obj)
            found += 1
        lines = lines[:idx] + lines[idx + 1:]
        cur = path + f".rest{attempt}"
        with open(cur, "w") as f:
            for x in lines:
                f.write(json.dumps(x) + "\n")
    else:
        res.notes.append(f"{label}: stopped after {max_rounds} offending runs")
    return found


def corrupt(prop, recs):
    """Negative control: one field of one recorded run changed (first candidate)."""
    return next(corrupt_candidates(prop, recs), None)


def corrupt_candidates(prop, recs):
    for rec in recs:
        r = _corrupt_one(prop, [rec])
        if r is not None:
            yield r


def _corrupt_one(prop, recs):
    for rec in recs:
        r = copy.deepcopy(rec)
        rows = [i for i, ln in enumerate(r["lines"]) if ln.get("t") == "row"]
        if prop in ("C13", "C12"):
            if len(rows) >= 3:
                del r["lines"][rows[-1]]
                # keep the glyphs consistent enough: the rule under test is the row set
                return r
        elif prop == "C14":
            if r["config"]["action"] == "list_terse" and r["terse"]:
                r["terse"] = r["terse"][1:]
                return r
        elif prop == "C15":
            inv = [i for i in r["invokes"] if i.get("has_loop")]
            if inv:
                inv[0]["loop"]["threads"] += 1
                return r
        elif prop == "C16":
            # swap two adjacent sibling rows that are strictly ordered by name
            for a, b in zip(rows, rows[1:]):
                la, lb = r["lines"][a], r["lines"][b]
                after = r["lines"][b + 1] if b + 1 < len(r["lines"]) else None
                leaf_pair = b == a + 1 and (after is None or after.get("t") != "row"
                                            or len(after["prefix"]) <= len(lb["prefix"]))
                if la["prefix"] == lb["prefix"] and la["branch"] == "tee" and lb["branch"] in ("tee", "corner") \
                        and la["name"].isalpha() and lb["name"].isalpha() \
                        and la["name"].lower() != lb["name"].lower() and leaf_pair \
                        and r["config"]["sort_key"] == "name":
                    la["name"], lb["name"] = lb["name"], la["name"]
                    la["name_cp"], lb["name_cp"] = lb["name_cp"], la["name_cp"]
                    return r
        elif prop == "C17":
            inv = [i for i in r["invokes"] if i.get("has_arg")]
            if inv:
                inv[0]["arg_cp"] = inv[0]["arg_cp"] + [120]
                return r
        elif prop == "C20":
            for i in rows:
                ln = r["lines"][i]
                if ln["prefix"]:
                    ln["prefix"][0] = "bar" if ln["prefix"][0] == "blank" else "blank"
                    return r
    return None


def run(prop, tier, seed):
    res = V.Result(prop, tier, seed)
    res.assumptions = [
        "programs are registered at run time through divan::__private exactly as the attribute macros expand (back-end R); macro expansion itself is covered by the generated crates of C12/C17 (back-end M)",
        "regular expressions are restricted to the subset Filters.tla gives semantics to; names contain no box-drawing characters and no runs of two blanks",
        "ties the statement leaves open (equal-valued digit runs, equal positions of distinct items) are accepted in any order",
        "virtual timestamp counter; sequentially consistent, deterministic schedule",
    ]
    # pure-function level of the same property (in-crate functions against Names/Filters/Options.tla)
    try:
        import check_pure
        if prop in ("C13", "C15", "C16") and os.path.exists(os.path.join(V.ROOT, "lib", "PURE_READY")):
            check_pure.run_pure_level(res, prop, tier, seed)
    except ImportError:
        res.notes.append("pure-function level not available")

    runs = gen_runs(prop, tier, seed)
    by_name = {name: (prog, cfg) for prog, cfg, name in runs}
    path, recs = execute(runs, f"{prop}.impl")
    res.extra["programs"] = len({id(p) for p, _, _ in runs})
    res.extra["runs"] = len(runs)
    res.extra["actions"] = {a: sum(1 for r in recs if r["config"]["action"] == a) for a in ("bench", "test", "list", "list_terse")}
    res.samples = [{"argv": recs[0]["config"]["argv"], "env": recs[0]["config"]["env"],
                    "printed": ["".join(chr(c) for c in ln.get("raw_cp", [])) for ln in recs[0]["lines"]][:12]}]
    bad_rc = [r["id"] for r in recs if r["rc"] not in (0,) and not r["panicked"]]
    if bad_rc:
        res.notes.append(f"runs with non-zero exit and no recorded panic: {bad_rc[:5]}")
    validate_runs(res, prop, path, "impl->spec", by_name)

    # macro level of the same property (generated crates using the real attribute macros, back-end M)
    if prop in ("C17", "C15") and os.path.exists(os.path.join(V.ROOT, "lib", "MACRO_READY")):
        import check_macro
        check_macro.run_macro_level(res, prop, tier, seed)

    if prop == "C17":
        # the argument pipeline of one function (Args.tla): one evaluation shared by all generic
        # instantiations, every display list (any sub-sequence in any order) mapped back by
        # identity; three shortcuts (two of them proposed by seeding sub-agents) must fail
        r = V.tlc_mc("MC_Args", "Args_q" if tier == "quick" else "Args_t", workers=4)
        res.add_mc("Args", r)
        if not r.get("ok"):
            raise V.ToolError(f"MC_Args: {r.get('violated') or r.get('error')}")
        for cfg, want in (("Args_v_by_label", "RowMeasuresItsArgument"),
                          ("Args_v_display_position", "RowMeasuresItsArgument"),
                          ("Args_v_fn_in_cell", "RowRunsItsInstance")):
            r = V.tlc_mc("MC_Args", cfg, workers=1, coverage=False)
            res.extra.setdefault("necessity_variants", []).append({"config": cfg, "expected": [want], "got": r.get("violated")})
            if r.get("violated") != want:
                raise V.ToolError(f"{cfg}: expected {want} to fail, got {r.get('violated') or r.get('error')}")

    if prop == "C20":
        for cfg in (["Painter_q", "Painter_q2"] if tier == "quick" else ["Painter_q", "Painter_q2", "Painter_t"]):
            r = V.tlc_mc("MC_Painter", cfg, workers=8)
            res.add_mc(cfg, r)
            if not r.get("ok"):
                raise V.ToolError(f"MC_Painter {cfg}: {r.get('violated') or r.get('error')}")
        # the padding side of the painter (Columns.tla): with a span that covers every label the
        # cells of every row stay under the headings; the span of the pinned code (defect F11:
        # `t=N` labels not counted) is the expected-to-fail variant
        r = V.tlc_mc("MC_Columns", "Columns_q" if tier == "quick" else "Columns_t", workers=8)
        res.add_mc("Columns", r)
        if not r.get("ok"):
            raise V.ToolError(f"MC_Columns: {r.get('violated') or r.get('error')}")
        r = V.tlc_mc("MC_Columns", "Columns_v_labels_of_the_tree", workers=1, coverage=False)
        res.extra.setdefault("necessity_variants", []).append(
            {"config": "Columns_v_labels_of_the_tree", "expected": ["NameColumnAligned"], "got": r.get("violated")})
        if r.get("ok") or "NameColumnAligned" not in str(r.get("violated")):
            raise V.ToolError(f"MC_Columns variant did not fail as expected: {r.get('violated') or r.get('error')}")
        sr = shape_runs(tier, seed)
        by_name.update({name: (prog, cfg) for prog, cfg, name in sr})
        p3, recs3 = execute(sr, f"{prop}.shapes")
        res.extra["painter_shapes_replayed"] = len(sr)
        validate_runs(res, prop, p3, "spec->impl:painter-shapes", by_name)

    if prop == "C13":
        ov = c13_overlap_runs(tier, seed)
        by_name.update({name: (prog, cfg) for prog, cfg, name in ov})
        p6, recs6 = execute(ov, f"{prop}.overlap")
        res.extra["overlapping_filter_runs"] = len(ov)
        validate_runs(res, prop, p6, "impl->spec:overlapping-positive-and-skip-filters", by_name)

    if prop == "C16":
        cr = c16_collision_runs(tier, seed)
        by_name.update({name: (prog, cfg) for prog, cfg, name in cr})
        p5, recs5 = execute(cr, f"{prop}.collisions")
        res.extra["name_collision_runs"] = len(cr)
        validate_runs(res, prop, p5, "impl->spec:same-name-group-and-benchmark", by_name)

    if prop == "C15":
        mr = c15_matrix_runs(tier, seed)
        by_name.update({name: (prog, cfg) for prog, cfg, name in mr})
        p4, recs4 = execute(mr, f"{prop}.matrix")
        res.extra["option_matrix_runs"] = len(mr)
        validate_runs(res, prop, p4, "impl->spec:option-matrix", by_name)

    if prop == "C14" and not res.violations:
        rnd = random.Random(seed + 77)
        rt = exact_roundtrip_runs(recs, by_name, rnd, 60 if tier == "quick" else 1000)
        by_name.update({name: (prog, cfg) for prog, cfg, name in rt})
        if rt:
            p2, recs2 = execute(rt, f"{prop}.exact")
            res.extra["exact_roundtrips"] = len(rt)
            # the fed-back path must select that case and no other: C13's rule under an exact filter,
            # evaluated by the C14 configuration of the trace spec (all rule prefixes that concern it)
            validate_runs(res, "C13", p2, "impl->spec:exact-roundtrip", by_name)
            # re-attribute
            res.prop = prop

    if not res.violations:
        # one corrupted field of a recorded run must be reported by the same TLC command; the
        # corruption is syntactic, so a candidate may happen to be another permitted output
        # (e.g. two rows the order leaves open): a few candidates are tried
        p = os.path.join(V.WORK, f"{prop}.negctl.ndjson")
        tried, r = 0, {}
        for bad in corrupt_candidates(prop, recs):
            tried += 1
            with open(p, "w") as f:
                f.write(json.dumps(bad) + "\n")
            r = V.tlc_trace("RunnerTrace", f"RunnerTrace_{prop}", p)
            if r.get("violated") == f"{prop}Holds" or tried >= 6:
                break
        if tried == 0:
            raise V.ToolError("negative control: no suitable run")
        res.extra["negative_control"] = {"got": r.get("violated"), "rules": V.bad_rules(r["out"]), "candidates_tried": tried}
        if r.get("violated") != f"{prop}Holds":
            raise V.ToolError(f"negative control not caught ({r.get('violated')})")
    return res.finish()


def replay(prop, path):
    obj = json.load(open(path))
    if (obj.get("program") or {}).get("backend") == "M":
        import check_macro
        return check_macro.replay(prop, path)
    res = V.Result(prop, "quick", 0)
    rec = progs.run_program(obj["program"], obj["config"], "replay")
    p = os.path.join(V.WORK, f"{prop}.replay.ndjson")
    with open(p, "w") as f:
        f.write(json.dumps(rec) + "\n")
    n = validate_runs(res, prop, p, "replay", {"replay": (obj["program"], obj["config"])})
    if n == 0:
        print("replay: no violation reproduced")
    return res.finish()
