//! Back-end R: benchmark *programs* registered at run time through
//! `divan::__private` — exactly what the attribute macros expand to — and
//! executed by the real runner (`Divan::from_args().main()` etc.).
//!
//!   VERIF_PROGRAM=<program.json> VERIF_LOG=<events.ndjson> runprog <divan args…>
//!
//! stdout carries what divan prints; the event log carries one `invoke`
//! record per benchmark body invocation, `call` records per benchmarked
//! call, `leaf_stats` records and a final `exit` record.

use std::{
    sync::{LazyLock, OnceLock},
    time::Duration,
};

use divan::{
    __private::{
        BenchArgs, BenchEntry, BenchEntryRunner, BenchOptions, EntryConst, EntryList, EntryLocation,
        EntryMeta, EntryType, GenericBenchEntry, GroupEntry, BENCH_ENTRIES, GROUP_ENTRIES,
    },
    counter::{BytesCount, CharsCount, CyclesCount, ItemsCount},
    verif::{clock, event, sched, Ev},
    Bencher, Divan,
};
use serde_json::Value;

/// Like a user's benchmark binary, the process allocator is `AllocProfiler`; what the scheduler,
/// the hooks and this harness allocate for their own bookkeeping goes straight to `System`.
struct Gate;

static PROFILED: divan::AllocProfiler = divan::AllocProfiler::system();

unsafe impl std::alloc::GlobalAlloc for Gate {
    unsafe fn alloc(&self, layout: std::alloc::Layout) -> *mut u8 {
        if divan::verif::in_harness() {
            std::alloc::System.alloc(layout)
        } else {
            PROFILED.alloc(layout)
        }
    }
    unsafe fn alloc_zeroed(&self, layout: std::alloc::Layout) -> *mut u8 {
        if divan::verif::in_harness() {
            std::alloc::System.alloc_zeroed(layout)
        } else {
            PROFILED.alloc_zeroed(layout)
        }
    }
    unsafe fn realloc(&self, ptr: *mut u8, layout: std::alloc::Layout, new_size: usize) -> *mut u8 {
        if divan::verif::in_harness() {
            std::alloc::System.realloc(ptr, layout, new_size)
        } else {
            PROFILED.realloc(ptr, layout, new_size)
        }
    }
    unsafe fn dealloc(&self, ptr: *mut u8, layout: std::alloc::Layout) {
        if divan::verif::in_harness() {
            std::alloc::System.dealloc(ptr, layout)
        } else {
            PROFILED.dealloc(ptr, layout)
        }
    }
}

#[global_allocator]
static GLOBAL: Gate = Gate;

static PROGRAM: OnceLock<Value> = OnceLock::new();

fn program() -> &'static Value {
    PROGRAM.get().expect("program loaded")
}

fn leak_str(s: &str) -> &'static str {
    Box::leak(s.to_owned().into_boxed_str())
}

// ------------------------------------------------------------------ bodies

/// `what`: "b" plain bench, "g" generic instance.
fn spec_of(what: &str, id: usize) -> &'static Value {
    let p = program();
    if what == "b" {
        &p["benches"][id]
    } else {
        &p["ginst"][id]
    }
}

fn run_case(bencher: Bencher, what: &'static str, id: usize, arg: Option<String>) {
    let spec = spec_of(what, id);
    let cost = spec["cost"].as_u64().unwrap_or(1000);
    // calls of one case differ in cost, so that fastest / slowest / median / mean differ
    let cost_var = spec["cost_var"].as_u64().unwrap_or(0);
    let nth = std::sync::atomic::AtomicU64::new(0);
    let arg_s = arg.clone().unwrap_or_default();
    event(
        Ev::new("invoke")
            .s("what", what)
            .u("id", id as u128)
            .b("has_arg", arg.is_some())
            .s("arg", &arg_s),
    );
    // a counter given to the Bencher replaces only the inherited counter of its kind
    let bencher = match spec["bencher_counter"].as_array() {
        Some(c) if c.len() == 2 => {
            let v = c[1].as_u64().unwrap_or(0);
            match c[0].as_u64().unwrap_or(3) {
                0 => bencher.counter(BytesCount::new(v)),
                1 => bencher.counter(CharsCount::new(v)),
                2 => bencher.counter(CyclesCount::new(v)),
                _ => bencher.counter(ItemsCount::new(v)),
            }
        }
        _ => bencher,
    };
    if spec["no_bench"].as_bool() == Some(true) {
        // a body that never uses its Bencher ("No benchmark function registered")
        drop(bencher);
        return;
    }
    // scripted allocator activity of each call: allocate these block sizes, then free them all;
    // optionally the call first frees an input buffer that was allocated outside the timed section
    let mut blocks = [0usize; 6];
    let mut nblocks = 0;
    for b in spec["alloc_blocks"].as_array().map(|a| a.as_slice()).unwrap_or(&[]).iter().take(6) {
        blocks[nblocks] = b.as_u64().unwrap_or(1).max(1) as usize;
        nblocks += 1;
    }
    let body = |nth: &std::sync::atomic::AtomicU64| {
        let k = nth.fetch_add(1, std::sync::atomic::Ordering::Relaxed);
        divan::verif::untracked(|| {
            event(Ev::new("call").s("what", what).u("id", id as u128).s("arg", &arg_s))
        });
        let mut held = [(std::ptr::null_mut::<u8>(), 0usize); 6];
        for i in 0..nblocks {
            let layout = std::alloc::Layout::from_size_align(blocks[i], 1).unwrap();
            held[i] = (unsafe { std::alloc::alloc(layout) }, blocks[i]);
        }
        for i in 0..nblocks {
            let layout = std::alloc::Layout::from_size_align(held[i].1, 1).unwrap();
            unsafe { std::alloc::dealloc(held[i].0, layout) };
        }
        clock::advance(cost + ((k * k + k / 3) % 7) * cost_var);
    };
    match spec["free_input"].as_u64() {
        Some(n) if n > 0 => bencher
            .with_inputs(move || Vec::<u8>::with_capacity(n as usize))
            .bench_values(|v| {
                drop(v);
                body(&nth)
            }),
        _ => bencher.bench(|| body(&nth)),
    }
}

fn plain_body<const ID: usize>(bencher: Bencher) {
    run_case(bencher, "b", ID, None)
}

fn ginst_body<const ID: usize>(bencher: Bencher) {
    run_case(bencher, "g", ID, None)
}

fn arg_list(what: &str, id: usize) -> Vec<String> {
    let spec = spec_of(what, id);
    let shared = if what == "g" { &program()["groups"][spec["group"].as_u64().unwrap() as usize]["generic"] } else { spec };
    event(Ev::new("args_eval").s("what", what).u("id", id as u128));
    shared["args"].as_array().map(|a| a.iter().map(|x| x.as_str().unwrap_or("").to_owned()).collect()).unwrap_or_default()
}

fn is_int_args(what: &str, id: usize) -> bool {
    let spec = spec_of(what, id);
    let shared = if what == "g" { &program()["groups"][spec["group"].as_u64().unwrap() as usize]["generic"] } else { spec };
    shared["arg_kind"].as_str() == Some("int")
}

const N: usize = 48;

// One `BenchArgs` per plain bench; generic instances of one function share
// the `BenchArgs` of their group (like the macro's `__DIVAN_ARGS`).
static BENCH_ARGS_INT: [BenchArgs; N] = [const { BenchArgs::new() }; N];
static BENCH_ARGS_STR: [BenchArgs; N] = [const { BenchArgs::new() }; N];
static GROUP_ARGS_INT: [BenchArgs; N] = [const { BenchArgs::new() }; N];
static GROUP_ARGS_STR: [BenchArgs; N] = [const { BenchArgs::new() }; N];

fn plain_args_runner<const ID: usize>() -> BenchEntryRunner {
    if is_int_args("b", ID) {
        BenchEntryRunner::Args(|| {
            BENCH_ARGS_INT[ID].runner(
                || arg_list("b", ID).into_iter().map(|s| s.parse::<i64>().unwrap()).collect::<Vec<i64>>(),
                |a| a.to_string(),
                |bencher, a| run_case(bencher, "b", ID, Some(a.to_string())),
            )
        })
    } else {
        BenchEntryRunner::Args(|| {
            BENCH_ARGS_STR[ID].runner(
                || arg_list("b", ID),
                |a| a.to_string(),
                |bencher, a| run_case(bencher, "b", ID, Some(a.clone())),
            )
        })
    }
}

fn group_of_ginst(id: usize) -> usize {
    program()["ginst"][id]["group"].as_u64().unwrap() as usize
}

fn ginst_args_runner<const ID: usize>() -> BenchEntryRunner {
    if is_int_args("g", ID) {
        BenchEntryRunner::Args(|| {
            GROUP_ARGS_INT[group_of_ginst(ID)].runner(
                || arg_list("g", ID).into_iter().map(|s| s.parse::<i64>().unwrap()).collect::<Vec<i64>>(),
                |a| a.to_string(),
                |bencher, a| run_case(bencher, "g", ID, Some(a.to_string())),
            )
        })
    } else {
        BenchEntryRunner::Args(|| {
            GROUP_ARGS_STR[group_of_ginst(ID)].runner(
                || arg_list("g", ID),
                |a| a.to_string(),
                |bencher, a| run_case(bencher, "g", ID, Some(a.clone())),
            )
        })
    }
}

macro_rules! table {
    ($f:ident, $ty:ty; $($i:literal)*) => { [$($f::<$i> as $ty),*] };
}

macro_rules! ids48 {
    ($m:ident, $f:ident, $ty:ty) => {
        $m!($f, $ty; 0 1 2 3 4 5 6 7 8 9 10 11 12 13 14 15 16 17 18 19 20 21 22 23 24 25 26 27 28 29 30 31 32 33 34 35 36 37 38 39 40 41 42 43 44 45 46 47)
    };
}

static PLAIN_BODIES: [fn(Bencher); N] = ids48!(table, plain_body, fn(Bencher));
static GINST_BODIES: [fn(Bencher); N] = ids48!(table, ginst_body, fn(Bencher));
static PLAIN_ARGS: [fn() -> BenchEntryRunner; N] = ids48!(table, plain_args_runner, fn() -> BenchEntryRunner);
static GINST_ARGS: [fn() -> BenchEntryRunner; N] = ids48!(table, ginst_args_runner, fn() -> BenchEntryRunner);

// ----------------------------------------------------------------- options

fn options_of(o: &Value) -> BenchOptions<'static> {
    let mut r = BenchOptions::default();
    r.sample_count = o["sample_count"].as_u64().map(|v| v as u32);
    r.sample_size = o["sample_size"].as_u64().map(|v| v as u32);
    r.threads = o["threads"].as_array().map(|a| {
        std::borrow::Cow::Owned(a.iter().filter_map(|x| x.as_u64()).map(|x| x as usize).collect::<Vec<_>>())
    });
    r.min_time = o["min_time_ns"].as_u64().map(Duration::from_nanos);
    r.max_time = o["max_time_ns"].as_u64().map(Duration::from_nanos);
    r.skip_ext_time = o["skip_ext_time"].as_bool();
    r.ignore = o["ignore"].as_bool();
    let mut cs = divan::__private::new_counter_set();
    for c in o["counters"].as_array().cloned().unwrap_or_default() {
        let v = c[1].as_u64().unwrap_or(0);
        cs = match c[0].as_u64().unwrap_or(3) {
            0 => cs.with(BytesCount::new(v)),
            1 => cs.with(CharsCount::new(v)),
            2 => cs.with(CyclesCount::new(v)),
            _ => cs.with(ItemsCount::new(v)),
        };
    }
    r.counters = cs;
    r
}

fn bench_opts<const ID: usize>() -> BenchOptions<'static> {
    options_of(&program()["benches"][ID]["opts"])
}

fn group_opts<const ID: usize>() -> BenchOptions<'static> {
    options_of(&program()["groups"][ID]["opts"])
}

static BENCH_OPTS: [fn() -> BenchOptions<'static>; N] = ids48!(table, bench_opts, fn() -> BenchOptions<'static>);
static GROUP_OPTS: [fn() -> BenchOptions<'static>; N] = ids48!(table, group_opts, fn() -> BenchOptions<'static>);

fn meta_of(spec: &Value, opts: fn() -> BenchOptions<'static>) -> EntryMeta {
    EntryMeta {
        display_name: leak_str(spec["name"].as_str().unwrap_or("?")),
        raw_name: leak_str(spec["raw"].as_str().unwrap_or("?")),
        module_path: leak_str(spec["module_path"].as_str().unwrap_or("prog")),
        location: EntryLocation {
            file: leak_str(spec["file"].as_str().unwrap_or("src/lib.rs")),
            line: spec["line"].as_u64().unwrap_or(1) as u32,
            col: spec["col"].as_u64().unwrap_or(1) as u32,
        },
        bench_options: if spec["has_opts"].as_bool().unwrap_or(false) {
            Some(LazyLock::new(opts))
        } else {
            None
        },
    }
}

// ------------------------------------------------------------------- types

pub struct T0;
pub struct T1;
pub mod deep {
    pub struct T2;
    pub mod er {
        pub struct T3;
    }
}

fn entry_type(i: u64) -> EntryType {
    match i {
        0 => EntryType::new::<T0>(),
        1 => EntryType::new::<T1>(),
        2 => EntryType::new::<deep::T2>(),
        3 => EntryType::new::<deep::er::T3>(),
        4 => EntryType::new::<Vec<T0>>(),
        5 => EntryType::new::<u8>(),
        6 => EntryType::new::<Option<deep::T2>>(),
        _ => EntryType::new::<String>(),
    }
}

pub fn type_display(i: u64) -> &'static str {
    ["T0", "T1", "T2", "T3", "Vec<verif_runprog::T0>", "u8", "Option<verif_runprog::deep::T2>", "String"][i.min(7) as usize]
}

// ------------------------------------------------------------ registration

fn register() {
    let p = program();
    let benches = p["benches"].as_array().cloned().unwrap_or_default();
    let groups = p["groups"].as_array().cloned().unwrap_or_default();
    let ginst = p["ginst"].as_array().cloned().unwrap_or_default();
    assert!(benches.len() <= N && groups.len() <= N && ginst.len() <= N, "program too large");

    // Leak every group first (generic instances point at their group).
    let group_entries: Vec<&'static GroupEntry> = groups
        .iter()
        .enumerate()
        .map(|(g, spec)| {
            let entry: &'static mut GroupEntry =
                Box::leak(Box::new(GroupEntry { meta: meta_of(spec, GROUP_OPTS[g]), generic_benches: None }));
            &*entry
        })
        .collect();

    // Generic instances, grouped per group and per type row like the macro
    // emits them: `&[&[entries of type 0…], &[entries of type 1…]]`.
    for (g, spec) in groups.iter().enumerate() {
        let Some(rows) = spec["generic"]["rows"].as_array() else { continue };
        let mut leaked_rows: Vec<&'static [GenericBenchEntry]> = Vec::new();
        for row in rows {
            let mut entries = Vec::new();
            for gi in row.as_array().cloned().unwrap_or_default() {
                let gi = gi.as_u64().unwrap() as usize;
                let ispec = &ginst[gi];
                let bench = if spec["generic"]["kind"].as_str() == Some("args") {
                    GINST_ARGS[gi]()
                } else {
                    BenchEntryRunner::Plain(GINST_BODIES[gi])
                };
                entries.push(GenericBenchEntry {
                    group: group_entries[g],
                    bench,
                    ty: ispec["type"].as_u64().filter(|_| ispec["has_type"].as_bool() != Some(false)).map(entry_type),
                    const_value: ispec["const"].as_i64().filter(|_| ispec["has_const"].as_bool() != Some(false)).map(|c| {
                        let leaked: &'static i64 = Box::leak(Box::new(c));
                        EntryConst::new(leaked)
                    }),
                });
            }
            leaked_rows.push(Box::leak(entries.into_boxed_slice()));
        }
        let rows: &'static [&'static [GenericBenchEntry]] = Box::leak(leaked_rows.into_boxed_slice());
        // SAFETY: not yet shared with any other thread; mirrors the macro's
        // static initialiser, which refers to its own group.
        unsafe {
            let ptr = group_entries[g] as *const GroupEntry as *mut GroupEntry;
            (*ptr).generic_benches = Some(rows);
        }
    }

    let bench_entries: Vec<&'static BenchEntry> = benches
        .iter()
        .enumerate()
        .map(|(b, spec)| {
            let bench = if spec["kind"].as_str() == Some("args") {
                PLAIN_ARGS[b]()
            } else {
                BenchEntryRunner::Plain(PLAIN_BODIES[b])
            };
            &*Box::leak(Box::new(BenchEntry { meta: meta_of(spec, BENCH_OPTS[b]), bench }))
        })
        .collect();

    // Link / constructor order is not under the program's control: push in
    // the order the scenario dictates.
    for item in p["push"].as_array().cloned().unwrap_or_default() {
        let id = item[1].as_u64().unwrap() as usize;
        if item[0].as_str() == Some("b") {
            BENCH_ENTRIES.push(Box::leak(Box::new(EntryList::new(bench_entries[id]))));
        } else {
            GROUP_ENTRIES.push(Box::leak(Box::new(EntryList::new(group_entries[id]))));
        }
    }
}

fn apply_builder(mut d: Divan, calls: &[Value]) -> Divan {
    for c in calls {
        let v = &c[1];
        d = match c[0].as_str().unwrap_or("") {
            "sample_count" => d.sample_count(v.as_u64().unwrap_or(0) as u32),
            "sample_size" => d.sample_size(v.as_u64().unwrap_or(0) as u32),
            "threads" => d.threads(v.as_array().cloned().unwrap_or_default().iter().filter_map(|x| x.as_u64()).map(|x| x as usize).collect::<Vec<_>>()),
            "min_time_ns" => d.min_time(Duration::from_nanos(v.as_u64().unwrap_or(0))),
            "max_time_ns" => d.max_time(Duration::from_nanos(v.as_u64().unwrap_or(0))),
            "skip_ext_time" => d.skip_ext_time(v.as_bool().unwrap_or(true)),
            "run_ignored" => d.run_ignored(),
            "run_only_ignored" => d.run_only_ignored(),
            "skip_exact" => d.skip_exact(v.as_str().unwrap_or("")),
            "skip_regex" => d.skip_regex(v.as_str().unwrap_or("")),
            "items_count" => d.items_count(v.as_u64().unwrap_or(0)),
            "bytes_count" => d.bytes_count(v.as_u64().unwrap_or(0)),
            "chars_count" => d.chars_count(v.as_u64().unwrap_or(0)),
            "cycles_count" => d.cycles_count(v.as_u64().unwrap_or(0)),
            _ => d,
        };
    }
    d
}

fn main() {
    std::panic::set_hook(Box::new(|_| {}));
    let path = std::env::var("VERIF_PROGRAM").expect("VERIF_PROGRAM");
    let log_path = std::env::var("VERIF_LOG").expect("VERIF_LOG");
    let text = std::fs::read_to_string(&path).expect("read program");
    PROGRAM.set(serde_json::from_str(&text).expect("program json")).unwrap();
    register();

    let p = program();
    let clock_spec = &p["clock"];
    let cfg = sched::Config {
        clock: Some(sched::ClockModel {
            now: clock_spec["start"].as_u64().unwrap_or(1000),
            freq: 1_000_000_000_000,
            read_step: clock_spec["read_step"].as_u64().unwrap_or(0),
            precision_override: Some(clock_spec["precision"].as_u64().unwrap_or(1) as u128),
            overheads: [0; 4],
            ..clock_default()
        }),
        step_bound: 5_000_000,
        wall_timeout: Duration::from_secs(60),
        ..Default::default()
    };

    let res = sched::run(cfg, move || {
        let p = program();
        let calls = p["builder"].as_array().cloned().unwrap_or_default();
        let before: Vec<Value> = calls.iter().filter(|c| c[2].as_str() != Some("after")).cloned().collect();
        let after: Vec<Value> = calls.iter().filter(|c| c[2].as_str() == Some("after")).cloned().collect();
        let r = std::panic::catch_unwind(|| {
            let d = apply_builder(Divan::default(), &before);
            let d = if p["no_args"].as_bool() == Some(true) { d } else { d.config_with_args() };
            let d = apply_builder(d, &after);
            match p["entry"].as_str().unwrap_or("main") {
                "list_benches" => d.list_benches(),
                "test_benches" => d.test_benches(),
                "run_benches" => d.run_benches(),
                _ => d.main(),
            }
        });
        match r {
            Ok(()) => event(Ev::new("exit").b("panicked", false).s("msg", "")),
            Err(e) => event(Ev::new("exit").b("panicked", true).s("msg", &sched::panic_message(&*e))),
        }
    });

    use std::io::Write;
    let _ = std::io::stdout().flush();
    let mut out = String::new();
    for l in &res.log {
        out.push_str(l);
        out.push('\n');
    }
    std::fs::write(&log_path, out).expect("write log");
    std::process::exit(if res.outcome == sched::Outcome::Completed { 0 } else { 3 });
}

fn clock_default() -> sched::ClockModel {
    sched::ClockModel { now: 0, freq: 1, read_step: 0, precision_override: None, overheads: [0; 4], quantum: 0, overhead_measure_cost: 0 }
}
