//! C09, whole-process view: the process's global allocator is
//! `Outer<AllocProfiler<Inner>>`. `Outer` and `Inner` log every request of
//! every thread into a pre-allocated lock-free ring (no allocation, no lazy
//! TLS), so that thread start-up, the first touch of the profiler's
//! thread-local tally and thread tear-down all appear as req / inner / ret
//! triples per OS thread.

use std::{
    alloc::{GlobalAlloc, Layout, System},
    cell::Cell,
    collections::HashMap,
    sync::atomic::{AtomicBool, AtomicU64, AtomicUsize, Ordering},
};

use divan::AllocProfiler;

const CAP: usize = 1 << 16;
const W: usize = 8;
static RING: [AtomicU64; CAP * W] = [const { AtomicU64::new(0) }; CAP * W];
static NEXT: AtomicUsize = AtomicUsize::new(0);
static RECORDING: AtomicBool = AtomicBool::new(false);
static NEXT_TID: AtomicU64 = AtomicU64::new(1);

thread_local! {
    // const-initialised, no destructor: reading it never allocates and it
    // stays readable during thread tear-down
    static TID: Cell<u64> = const { Cell::new(0) };
}

fn tid() -> u64 {
    TID.try_with(|t| {
        if t.get() == 0 {
            t.set(NEXT_TID.fetch_add(1, Ordering::Relaxed));
        }
        t.get()
    })
    .unwrap_or(u64::MAX)
}

const REQ: u64 = 1;
const INNER: u64 = 2;
const RET: u64 = 3;

fn log(kind: u64, op: u64, size: usize, align: usize, new: usize, ptr: usize, result: usize) {
    if !RECORDING.load(Ordering::Relaxed) {
        return;
    }
    let i = NEXT.fetch_add(1, Ordering::Relaxed);
    if i >= CAP {
        return;
    }
    let base = i * W;
    let vals = [kind, tid(), op, size as u64, align as u64, new as u64, ptr as u64, result as u64];
    for (k, v) in vals.iter().enumerate() {
        RING[base + k].store(*v, Ordering::Relaxed);
    }
}

struct Inner;
struct Outer<A>(A);

unsafe impl GlobalAlloc for Inner {
    unsafe fn alloc(&self, l: Layout) -> *mut u8 {
        let r = System.alloc(l);
        log(INNER, 1, l.size(), l.align(), 0, 0, r as usize);
        r
    }
    unsafe fn alloc_zeroed(&self, l: Layout) -> *mut u8 {
        let r = System.alloc_zeroed(l);
        log(INNER, 2, l.size(), l.align(), 0, 0, r as usize);
        r
    }
    unsafe fn dealloc(&self, p: *mut u8, l: Layout) {
        log(INNER, 3, l.size(), l.align(), 0, p as usize, 0);
        System.dealloc(p, l)
    }
    unsafe fn realloc(&self, p: *mut u8, l: Layout, n: usize) -> *mut u8 {
        let r = System.realloc(p, l, n);
        log(INNER, 4, l.size(), l.align(), n, p as usize, r as usize);
        r
    }
}

unsafe impl<A: GlobalAlloc> GlobalAlloc for Outer<A> {
    unsafe fn alloc(&self, l: Layout) -> *mut u8 {
        log(REQ, 1, l.size(), l.align(), 0, 0, 0);
        let r = self.0.alloc(l);
        log(RET, 1, 0, 0, 0, 0, r as usize);
        r
    }
    unsafe fn alloc_zeroed(&self, l: Layout) -> *mut u8 {
        log(REQ, 2, l.size(), l.align(), 0, 0, 0);
        let r = self.0.alloc_zeroed(l);
        log(RET, 2, 0, 0, 0, 0, r as usize);
        r
    }
    unsafe fn dealloc(&self, p: *mut u8, l: Layout) {
        log(REQ, 3, l.size(), l.align(), 0, p as usize, 0);
        self.0.dealloc(p, l);
        log(RET, 3, 0, 0, 0, 0, 0);
    }
    unsafe fn realloc(&self, p: *mut u8, l: Layout, n: usize) -> *mut u8 {
        log(REQ, 4, l.size(), l.align(), n, p as usize, 0);
        let r = self.0.realloc(p, l, n);
        log(RET, 4, 0, 0, 0, 0, r as usize);
        r
    }
}

#[global_allocator]
static ALLOC: Outer<AllocProfiler<Inner>> = Outer(AllocProfiler::new(Inner));

/// A thread-local whose destructor allocates during thread tear-down.
struct AllocOnDrop(Vec<u8>);
impl Drop for AllocOnDrop {
    fn drop(&mut self) {
        let v: Vec<u64> = (0..self.0.len() as u64 + 3).collect();
        std::hint::black_box(&v);
    }
}
thread_local! {
    static LATE: std::cell::RefCell<Option<AllocOnDrop>> = const { std::cell::RefCell::new(None) };
}

fn work(seed: u64, n: usize) {
    LATE.with(|l| *l.borrow_mut() = Some(AllocOnDrop(vec![1, 2, 3])));
    let mut x = seed | 1;
    let mut keep: Vec<Vec<u8>> = Vec::new();
    for _ in 0..n {
        x ^= x << 13;
        x ^= x >> 7;
        x ^= x << 17;
        match x % 5 {
            0 => keep.push(Vec::with_capacity((x % 300) as usize)),
            1 => {
                if let Some(v) = keep.last_mut() {
                    v.extend(std::iter::repeat(7u8).take((x % 500) as usize));
                }
            }
            2 => {
                if let Some(v) = keep.last_mut() {
                    v.truncate(1);
                    v.shrink_to_fit();
                }
            }
            3 => {
                keep.pop();
            }
            _ => keep.push(vec![0u8; (x % 64) as usize]),
        }
    }
    let s = format!("{seed}-{}", keep.len());
    std::hint::black_box(s);
}

fn main() {
    let args: Vec<String> = std::env::args().collect();
    let seed: u64 = args.get(1).and_then(|s| s.parse().ok()).unwrap_or(1);
    let threads: usize = args.get(2).and_then(|s| s.parse().ok()).unwrap_or(4);
    let ops: usize = args.get(3).and_then(|s| s.parse().ok()).unwrap_or(40);

    RECORDING.store(true, Ordering::SeqCst);
    work(seed, ops);
    let handles: Vec<_> = (0..threads)
        .map(|i| std::thread::spawn(move || work(seed.wrapping_mul(31).wrapping_add(i as u64), ops)))
        .collect();
    for h in handles {
        let _ = h.join();
    }
    RECORDING.store(false, Ordering::SeqCst);

    // dump: pointers are renamed to small ids (only equality matters)
    let n = NEXT.load(Ordering::SeqCst).min(CAP);
    let mut ids: HashMap<u64, u64> = HashMap::new();
    ids.insert(0, 0);
    let mut name = |p: u64, ids: &mut HashMap<u64, u64>| -> u64 {
        let next = ids.len() as u64;
        *ids.entry(p).or_insert(next)
    };
    let opname = |o: u64| match o {
        1 => "alloc",
        2 => "alloc_zeroed",
        3 => "dealloc",
        _ => "realloc",
    };
    println!("{{\"seq\":0,\"tid\":-1,\"ev\":\"reset\",\"scenario\":{{\"id\":\"galloc-{seed}\",\"kind\":\"galloc\",\"threads\":{threads},\"ops\":{ops},\"seed\":{seed}}}}}");
    for i in 0..n {
        let g = |k: usize| RING[i * W + k].load(Ordering::Relaxed);
        let (kind, tid, op, size, align, new, ptr, result) = (g(0), g(1), g(2), g(3), g(4), g(5), g(6), g(7));
        let ptr = name(ptr, &mut ids);
        let result = name(result, &mut ids);
        let tid = if tid == u64::MAX { 9999 } else { tid };
        match kind {
            REQ => println!(
                "{{\"seq\":{i},\"tid\":{tid},\"ev\":\"req\",\"op\":\"{}\",\"size\":{size},\"align\":{align},\"new\":{new},\"ptr\":{ptr}}}",
                opname(op)
            ),
            INNER => println!(
                "{{\"seq\":{i},\"tid\":{tid},\"ev\":\"inner\",\"op\":\"{}\",\"size\":{size},\"align\":{align},\"new\":{new},\"ptr\":{ptr},\"result\":{result}}}",
                opname(op)
            ),
            _ => println!("{{\"seq\":{i},\"tid\":{tid},\"ev\":\"ret\",\"result\":{result}}}"),
        }
    }
    if NEXT.load(Ordering::SeqCst) > CAP {
        eprintln!("ring overflow");
        std::process::exit(2);
    }
}
