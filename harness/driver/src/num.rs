//! Scenario kind "num": the stateless numeric stages (properties C11, C18).
//!
//! One scenario = one call of the real code.  The driver only calls the
//! crate-private function through `divan::verif::api` and logs what went in
//! and what came out; judging is done by spec/trace/NumTrace.tla.
//!
//! Wide numbers arrive as decimal strings and are logged as little-endian
//! base-10^4 limb arrays (the BigNat layout); texts are logged as arrays of
//! Unicode code points (plus the string itself for human readers).

use std::{
    panic::{catch_unwind, AssertUnwindSafe},
    sync::{Arc, Mutex},
    time::Duration,
};

use divan::verif::{
    api,
    sched::{self, ClockModel, Config, Source},
};
use serde_json::{json, Map, Value};

use crate::common::{b, u, Out, RunStats};

fn limbs(mut x: u128) -> Value {
    let mut v = Vec::new();
    while x != 0 {
        v.push(json!((x % 10_000) as u64));
        x /= 10_000;
    }
    Value::Array(v)
}

fn cps(s: &str) -> Value {
    Value::Array(s.chars().map(|c| json!(c as u32)).collect())
}

/// Wide numbers: decimal string (any width up to 128 bits) or a JSON number.
fn wide(sc: &Value, key: &str) -> u128 {
    match sc.get(key) {
        Some(Value::String(s)) => s.parse::<u128>().unwrap_or_else(|_| bad(&format!("{key}: {s:?}"))),
        Some(Value::Number(n)) => n.as_u64().unwrap_or_else(|| bad(key)) as u128,
        _ => bad(key),
    }
}

fn wide64(sc: &Value, key: &str) -> u64 {
    u64::try_from(wide(sc, key)).unwrap_or_else(|_| bad(key))
}

fn bad(what: &str) -> ! {
    eprintln!("num scenario: bad or missing field {what}");
    std::process::exit(2);
}

fn opt_usize(sc: &Value, key: &str) -> Option<usize> {
    sc.get(key).and_then(|x| x.as_u64()).map(|x| x as usize)
}

fn panic_text(p: Box<dyn std::any::Any + Send>) -> String {
    sched::panic_message(&*p)
}

/// The double as the exact ratio m * 2^e (m < 2^53); `None` for inf / NaN.
fn decode_f64(x: f64) -> Option<(u64, i32)> {
    if !x.is_finite() || x < 0.0 {
        return None;
    }
    let bits = x.to_bits();
    let exp = ((bits >> 52) & 0x7ff) as i32;
    let frac = bits & ((1u64 << 52) - 1);
    let (mut m, mut e) = if exp == 0 { (frac, -1074) } else { (frac | (1u64 << 52), exp - 1075) };
    if m == 0 {
        return Some((0, 0));
    }
    while m % 2 == 0 {
        m /= 2;
        e += 1;
    }
    Some((m, e))
}

/// The double a scenario names: raw `bits`, or `num` / `den` (each converted
/// to f64, then divided, as the crate does for means).
fn f64_of(sc: &Value) -> f64 {
    if sc.get("bits").is_some() {
        f64::from_bits(wide64(sc, "bits"))
    } else {
        let num = wide(sc, "num") as f64;
        match sc.get("den") {
            Some(_) => num / wide(sc, "den") as f64,
            None => num,
        }
    }
}

fn put_text(rec: &mut Map<String, Value>, r: Result<String, String>) {
    match r {
        Ok(s) => {
            rec.insert("out_cp".into(), cps(&s));
            rec.insert("out_s".into(), json!(s));
        }
        Err(p) => {
            rec.insert("panic".into(), json!(p));
        }
    }
}

fn put_f64(rec: &mut Map<String, Value>, x: f64) -> bool {
    match decode_f64(x) {
        Some((m, e)) => {
            rec.insert("m".into(), limbs(m as u128));
            rec.insert("e".into(), json!(e));
            true
        }
        None => false,
    }
}

fn precision(sc: &Value, rec: &mut Map<String, Value>) {
    let freq = wide64(sc, "freq");
    let step = u(sc, "step", 1);
    let quantum = u(sc, "quantum", 0);
    let start = u(sc, "start", 1000);
    if step == 0 || freq == 0 {
        bad("step / freq must be non-zero");
    }
    rec.insert("freq".into(), limbs(freq as u128));
    rec.insert("step".into(), json!(step));
    rec.insert("quantum".into(), json!(quantum));
    rec.insert("start".into(), json!(start));

    let slot: Arc<Mutex<Option<u128>>> = Arc::new(Mutex::new(None));
    let slot2 = slot.clone();
    let cfg = Config {
        source: Source::Tape { choices: Vec::new() },
        step_bound: u(sc, "step_bound", 200_000),
        spurious: 0,
        clock: Some(ClockModel {
            now: start,
            freq,
            read_step: step,
            precision_override: None,
            overheads: [0; 4],
            quantum,
            overhead_measure_cost: 0,
        }),
        wall_timeout: Duration::from_secs(u(sc, "wall_timeout", 20)),
        stream: None,
    };
    let res = sched::run(cfg, move || {
        let p = api::timer_precision(freq);
        *slot2.lock().unwrap() = Some(p);
    });
    let reads: Vec<u64> = res
        .log
        .iter()
        .filter(|l| l.contains("\"ev\":\"ts\""))
        .filter_map(|l| serde_json::from_str::<Value>(l).ok())
        .filter_map(|v| v.get("value").and_then(|x| x.as_u64()))
        .collect();
    rec.insert("nreads".into(), json!(reads.len()));
    if b(sc, "log_reads", false) && reads.iter().all(|r| *r < (1 << 31)) {
        rec.insert("reads".into(), json!(reads));
    }
    let got = *slot.lock().unwrap();
    match got {
        Some(p) => {
            rec.insert("out".into(), limbs(p));
            rec.insert("out_s".into(), json!(p.to_string()));
        }
        None => {
            let why = res
                .log
                .iter()
                .rev()
                .find(|l| l.contains("\"panic\""))
                .cloned()
                .unwrap_or_default();
            rec.insert(
                "panic".into(),
                json!(format!("no result, outcome {} {}", res.outcome.name(), why)),
            );
        }
    }
}

pub fn run(sc: &Value, out: &mut Out, stats: &mut RunStats) {
    let op = sc["op"].as_str().unwrap_or_else(|| bad("op")).to_owned();
    if let Some(p) = &stats.progress {
        if op == "precision" || stats.scenario_index % 256 == 0 {
            let _ = std::fs::write(
                p,
                json!({"scenario_index": stats.scenario_index, "run": 0,
                       "schedule": {"source": "tape", "choices": []}})
                .to_string(),
            );
        }
    }

    let mut rec = Map::new();
    rec.insert("ev".into(), json!(op));

    match op.as_str() {
        "conv" => {
            let (a, bb, f) = (wide64(sc, "a"), wide64(sc, "b"), wide64(sc, "f"));
            rec.insert("a".into(), limbs(a as u128));
            rec.insert("b".into(), limbs(bb as u128));
            rec.insert("f".into(), limbs(f as u128));
            // `a` is the earlier reading, `b` the later one.
            match catch_unwind(|| api::tsc_duration_since(bb, a, f)) {
                Ok(p) => {
                    rec.insert("out".into(), limbs(p));
                    rec.insert("out_s".into(), json!(p.to_string()));
                }
                Err(p) => {
                    rec.insert("panic".into(), json!(panic_text(p)));
                }
            }
        }
        "dur" => {
            let secs = wide64(sc, "secs");
            let nanos = u(sc, "nanos", 0) as u32;
            rec.insert("secs".into(), limbs(secs as u128));
            rec.insert("nanos".into(), json!(nanos));
            match catch_unwind(|| api::fine_from_duration(Duration::new(secs, nanos))) {
                Ok(Ok(p)) => {
                    rec.insert("out".into(), limbs(p));
                    rec.insert("out_s".into(), json!(p.to_string()));
                }
                Ok(Err(msg)) => {
                    rec.insert("panic".into(), json!(msg));
                }
                Err(p) => {
                    rec.insert("panic".into(), json!(panic_text(p)));
                }
            }
        }
        "precision" => precision(sc, &mut rec),
        "fmt_dur" => {
            let picos = wide(sc, "picos");
            let prec = opt_usize(sc, "prec");
            let width = opt_usize(sc, "width");
            rec.insert("picos".into(), limbs(picos));
            if let Some(p) = prec {
                rec.insert("prec".into(), json!(p));
            }
            if let Some(w) = width {
                rec.insert("width".into(), json!(w));
            }
            let r = catch_unwind(|| match (prec, width) {
                (None, None) => api::fmt_duration(picos),
                _ => api::fmt_duration_with(picos, prec, width),
            })
            .map_err(panic_text);
            put_text(&mut rec, r);
        }
        "fmt_bytes" | "fmt_f64" => {
            let x = f64_of(sc);
            let binary = b(sc, "binary", false);
            if !put_f64(&mut rec, x) {
                bad("finite non-negative double expected");
            }
            rec.insert("binary".into(), json!(binary));
            rec.insert("val_s".into(), json!(format!("{x:e}")));
            let r = catch_unwind(AssertUnwindSafe(|| {
                if op == "fmt_bytes" {
                    api::fmt_bytes(x, 4, binary)
                } else {
                    api::fmt_f64(x, 4)
                }
            }))
            .map_err(panic_text);
            put_text(&mut rec, r);
        }
        "fmt_tput" => {
            let kind = u(sc, "ckind", 0) as usize;
            let count = wide64(sc, "count");
            let picos = wide(sc, "picos");
            let binary = b(sc, "binary", false);
            if kind > 3 {
                bad("ckind");
            }
            rec.insert("kind".into(), json!(kind));
            rec.insert("count".into(), limbs(count as u128));
            rec.insert("picos".into(), limbs(picos));
            rec.insert("binary".into(), json!(binary));
            let r = catch_unwind(|| api::fmt_throughput(kind, count, picos, binary))
                .map_err(panic_text);
            put_text(&mut rec, r);
        }
        other => bad(&format!("op {other:?}")),
    }

    let panicked = rec.contains_key("panic");
    out.value(&json!({"ev": "reset", "scenario": sc}));
    out.value(&Value::Object(rec));
    out.runs += 1;
    stats.runs += 1;
    let key = if panicked { "panicked" } else { "completed" };
    *stats.outcomes.entry(key.to_owned()).or_default() += 1;
}
