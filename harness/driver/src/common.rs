//! Shared plumbing: scenario files in, ndjson traces out, schedule sources.

use std::{
    io::{BufRead, Write},
    sync::Arc,
    time::Duration,
};

use divan::verif::sched::{self, ClockModel, Config, Decision, Outcome, RunResult, Source};
use serde_json::{json, Value};

pub struct Out {
    w: std::io::BufWriter<Box<dyn Write>>,
    pub runs: u64,
    pub events: u64,
}

impl Out {
    pub fn open(path: Option<&str>) -> Self {
        let w: Box<dyn Write> = match path {
            Some(p) => Box::new(std::fs::File::create(p).expect("create output")),
            None => Box::new(std::io::stdout()),
        };
        Self { w: std::io::BufWriter::new(w), runs: 0, events: 0 }
    }

    pub fn line(&mut self, s: &str) {
        self.w.write_all(s.as_bytes()).unwrap();
        self.w.write_all(b"\n").unwrap();
        self.events += 1;
    }

    pub fn value(&mut self, v: &Value) {
        let s = serde_json::to_string(v).unwrap();
        self.line(&s);
    }

    pub fn flush(&mut self) {
        self.w.flush().unwrap();
    }
}

pub fn read_scenarios(path: &str) -> Vec<Value> {
    let f = std::fs::File::open(path).expect("open scenarios");
    std::io::BufReader::new(f)
        .lines()
        .map(|l| l.unwrap())
        .filter(|l| !l.trim().is_empty())
        .map(|l| serde_json::from_str(&l).expect("scenario json"))
        .collect()
}

pub fn u(v: &Value, key: &str, default: u64) -> u64 {
    v.get(key).and_then(|x| x.as_u64()).unwrap_or(default)
}

pub fn s<'a>(v: &'a Value, key: &str, default: &'a str) -> &'a str {
    v.get(key).and_then(|x| x.as_str()).unwrap_or(default)
}

pub fn b(v: &Value, key: &str, default: bool) -> bool {
    v.get(key).and_then(|x| x.as_bool()).unwrap_or(default)
}

pub fn clock_of(sc: &Value) -> Option<ClockModel> {
    let c = sc.get("clock")?;
    if c.is_null() {
        return None;
    }
    let ov = c.get("overheads").and_then(|o| o.as_array()).map(|a| {
        let mut r = [0u128; 4];
        for (i, x) in a.iter().take(4).enumerate() {
            r[i] = x.as_u64().unwrap_or(0) as u128;
        }
        r
    });
    Some(ClockModel {
        now: u(c, "start", 1000),
        freq: u(c, "freq", 1_000_000_000_000),
        read_step: u(c, "read_step", 0),
        precision_override: c.get("precision").and_then(|p| p.as_u64()).map(|p| p as u128),
        overheads: ov.unwrap_or([0; 4]),
        quantum: u(c, "quantum", 0),
        overhead_measure_cost: u(c, "overhead_measure_cost", 0),
    })
}

fn next_tape(decisions: &[Decision], bound: u32) -> Option<Vec<u32>> {
    for pos in (0..decisions.len()).rev() {
        let d = decisions[pos];
        if d.chosen + 1 < d.options {
            let used = decisions[..pos]
                .iter()
                .filter(|d| d.current_enabled && d.chosen != 0)
                .count() as u32;
            let cost = if d.current_enabled { 1 } else { 0 };
            if used + cost <= bound {
                let mut tape: Vec<u32> = decisions[..pos].iter().map(|d| d.chosen).collect();
                tape.push(d.chosen + 1);
                return Some(tape);
            }
        }
    }
    None
}

pub struct RunStats {
    /// Progress file: which scenario / run / tape is executing right now.
    pub progress: Option<String>,
    /// Stream mode: write events unbuffered to this file as they happen.
    pub stream: Option<String>,
    pub scenario_index: usize,
    pub runs: u64,
    pub outcomes: std::collections::BTreeMap<String, u64>,
    pub dfs_exhausted: bool,
}

/// Runs one scenario (possibly many schedules) and writes its trace(s).
///
/// `body` is executed as managed thread 0.
pub fn run_scenario<F>(sc: &Value, out: &mut Out, stats: &mut RunStats, body: F)
where
    F: Fn(Arc<Value>) + Send + Sync + Clone + 'static,
{
    let sched_spec = sc.get("schedule").cloned().unwrap_or(json!({"source": "tape"}));
    let source = s(&sched_spec, "source", "tape").to_owned();
    let step_bound = u(sc, "step_bound", 50_000);
    let spurious = u(sc, "spurious", 0) as u32;
    let sc = Arc::new(sc.clone());

    let run_once = |src: Source, out: &mut Out, stats: &mut RunStats, run_idx: u64| -> RunResult {
        if let Some(p) = &stats.progress {
            let tape = match &src {
                Source::Tape { choices } => json!({"source": "tape", "choices": choices}),
                Source::Replay { tids } => json!({"source": "replay", "tids": tids}),
                Source::Random { seed, switch_permille } => {
                    json!({"source": "random", "seed": seed, "switch": switch_permille})
                }
            };
            let _ = std::fs::write(
                p,
                json!({"scenario_index": stats.scenario_index, "run": run_idx, "schedule": tape})
                    .to_string(),
            );
        }
        let stream: Option<Box<dyn Write + Send>> = stats.stream.as_ref().map(|p| {
            let mut f = std::fs::OpenOptions::new().create(true).append(true).open(p).expect("stream file");
            let reset = json!({"seq": 0, "tid": -1, "ev": "reset", "scenario": &*sc, "run": run_idx});
            let _ = writeln!(f, "{reset}");
            Box::new(f) as Box<dyn Write + Send>
        });
        let cfg = Config {
            source: src,
            step_bound,
            spurious,
            clock: clock_of(&sc),
            wall_timeout: Duration::from_secs(u(&sc, "wall_timeout", 20)),
            stream,
        };
        let body = body.clone();
        let sc2 = sc.clone();
        let res = sched::run(cfg, move || body(sc2));
        let reset = json!({
            "seq": 0, "tid": -1, "ev": "reset",
            "scenario": &*sc, "run": run_idx,
            "tids": &res.schedule,
        });
        out.value(&reset);
        for l in &res.log {
            out.line(l);
        }
        if res.outcome == Outcome::WallTimeout {
            // No sched_end was logged by the scheduler itself.
            out.line("{\"seq\":0,\"tid\":-1,\"ev\":\"sched_end\",\"outcome\":\"wall_timeout\"}");
        }
        out.runs += 1;
        stats.runs += 1;
        *stats.outcomes.entry(res.outcome.name().to_owned()).or_default() += 1;
        if res.outcome == Outcome::WallTimeout {
            // The process state is suspect (a thread is stuck outside the
            // scheduler): stop here, the orchestrator carries on.
            out.flush();
            eprintln!("DRIVER-WALL-TIMEOUT scenario_index={}", stats.scenario_index);
            std::process::exit(3);
        }
        res
    };

    match source.as_str() {
        "random" => {
            let src = Source::Random {
                seed: u(&sched_spec, "seed", 1),
                switch_permille: u(&sched_spec, "switch", 300) as u32,
            };
            run_once(src, out, stats, 0);
        }
        "replay" => {
            let tids = sched_spec
                .get("tids")
                .and_then(|t| t.as_array())
                .map(|a| a.iter().map(|x| x.as_u64().unwrap_or(0) as u32).collect())
                .unwrap_or_default();
            run_once(Source::Replay { tids }, out, stats, 0);
        }
        "dfs" => {
            let bound = u(&sched_spec, "bound", 2) as u32;
            let max_runs = u(&sched_spec, "max_runs", 1000);
            let mut tape: Vec<u32> = Vec::new();
            let mut i = 0;
            loop {
                let res = run_once(Source::Tape { choices: tape.clone() }, out, stats, i);
                i += 1;
                match next_tape(&res.decisions, bound) {
                    Some(t) if i < max_runs => tape = t,
                    Some(_) => break,
                    None => {
                        stats.dfs_exhausted = true;
                        break;
                    }
                }
            }
        }
        _ => {
            let choices = sched_spec
                .get("choices")
                .and_then(|t| t.as_array())
                .map(|a| a.iter().map(|x| x.as_u64().unwrap_or(0) as u32).collect())
                .unwrap_or_default();
            run_once(Source::Tape { choices }, out, stats, 0);
        }
    }
}
