//! Entry-list scenarios (C12, EntryList.tla): threads push leaked nodes to a
//! fresh root of the real `EntryList` while readers iterate; every atomic
//! pointer operation is a scheduling point and an event.

use std::sync::Arc;

use divan::{
    __private::EntryList,
    verif::{api, event, vstd, Ev},
};
use serde_json::Value;

type List = EntryList<u32>;

fn ids(v: &[u32]) -> String {
    format!("[{}]", v.iter().map(|x| x.to_string()).collect::<Vec<_>>().join(","))
}

fn read(root: &'static List) {
    event(Ev::new("el_iter_begin"));
    let got: Vec<u32> = root.iter().copied().collect();
    event(Ev::new("el_iter").raw("entries", &ids(&got)));
}

pub fn body(sc: Arc<Value>) {
    let size = std::mem::size_of::<List>();
    let root: &'static List = api::entry_list_root::<u32>();
    api::ptr_register(root as *const List as usize, size, 1);

    // Nodes are named by the number their entry carries.
    let plan: Vec<Vec<u32>> = sc["pushers"]
        .as_array()
        .map(|a| {
            a.iter()
                .map(|t| t.as_array().map(|n| n.iter().filter_map(|x| x.as_u64()).map(|x| x as u32).collect()).unwrap_or_default())
                .collect()
        })
        .unwrap_or_default();
    let readers = sc["readers"].as_u64().unwrap_or(0) as usize;

    let mut nodes: Vec<Vec<&'static List>> = Vec::new();
    for t in &plan {
        let mut v = Vec::new();
        for &id in t {
            let entry: &'static u32 = Box::leak(Box::new(id));
            let node: &'static List = Box::leak(Box::new(List::new(entry)));
            api::ptr_register(node as *const List as usize, size, id);
            v.push(node);
        }
        nodes.push(v);
    }

    let plan_json = format!("[{}]", plan.iter().map(|t| ids(t)).collect::<Vec<_>>().join(","));
    event(Ev::new("el_setup").raw("pushers", &plan_json).u("readers", readers as u128));

    // `inline`: the scenario's main thread pushes everything itself in the
    // listed order (what pre-main constructors do).
    if sc["inline"].as_bool().unwrap_or(false) {
        for (t, ns) in nodes.iter().enumerate() {
            for (j, node) in ns.iter().enumerate() {
                event(Ev::new("el_push_begin").u("node", plan[t][j] as u128).u("as", t as u128 + 1));
                root.push(node);
                event(Ev::new("el_push_end").u("node", plan[t][j] as u128).u("as", t as u128 + 1));
                if sc["read_between"].as_bool().unwrap_or(false) {
                    read(root);
                }
            }
        }
        read(root);
        event(Ev::new("el_done"));
        return;
    }

    let mut handles = Vec::new();
    for (t, ns) in nodes.into_iter().enumerate() {
        let ids = plan[t].clone();
        handles.push(vstd::thread::spawn(move || {
            for (j, node) in ns.into_iter().enumerate() {
                event(Ev::new("el_push_begin").u("node", ids[j] as u128).u("as", t as u128 + 1));
                root.push(node);
                event(Ev::new("el_push_end").u("node", ids[j] as u128).u("as", t as u128 + 1));
            }
        }));
    }
    for _ in 0..readers {
        handles.push(vstd::thread::spawn(move || read(root)));
    }
    for h in handles {
        let _ = h.join();
    }
    // After every push has returned (what `main` sees).
    read(root);
    event(Ev::new("el_done"));
}
