//! Sample-loop / round-loop scenarios (C01–C05, C08, C19): the real
//! `Bencher` entry points over instrumented input/output types, a scripted
//! virtual clock, scripted allocator operations and scripted panics.

use std::{
    alloc::{GlobalAlloc, Layout},
    sync::{
        atomic::{AtomicU64, Ordering},
        Arc, Mutex,
    },
    time::Duration,
};

use divan::{
    counter::{BytesCount, CharsCount, CyclesCount, ItemsCount},
    verif::{api, clock, event, sched, untracked, Ev},
    AllocProfiler, Bencher,
};
use serde_json::Value;

// ------------------------------------------------------------ mock allocator

/// Inner allocator that never touches memory: scripted operations reach the
/// thread's tally through the real `AllocProfiler` and nothing else does.
pub struct Mock;

unsafe impl GlobalAlloc for Mock {
    unsafe fn alloc(&self, _: Layout) -> *mut u8 {
        std::ptr::NonNull::<u64>::dangling().as_ptr().cast()
    }
    unsafe fn dealloc(&self, _: *mut u8, _: Layout) {}
    unsafe fn realloc(&self, p: *mut u8, _: Layout, _: usize) -> *mut u8 {
        p
    }
    unsafe fn alloc_zeroed(&self, _: Layout) -> *mut u8 {
        std::ptr::NonNull::<u64>::dangling().as_ptr().cast()
    }
}

pub static PROFILER: AllocProfiler<Mock> = AllocProfiler::new(Mock);

#[derive(Clone, Debug)]
pub struct AllocOp {
    pub op: String,
    pub size: usize,
    pub new_size: usize,
}

pub fn parse_ops(v: Option<&Value>) -> Vec<AllocOp> {
    v.and_then(|v| v.as_array())
        .map(|a| {
            a.iter()
                .map(|o| AllocOp {
                    op: o["op"].as_str().unwrap_or("alloc").to_owned(),
                    size: o["size"].as_u64().unwrap_or(0) as usize,
                    new_size: o["new"].as_u64().unwrap_or(0) as usize,
                })
                .collect()
        })
        .unwrap_or_default()
}

pub fn do_ops(site: &'static str, ops: &[AllocOp]) {
    for o in ops {
        let layout = Layout::from_size_align(o.size, 1).unwrap();
        let p = std::ptr::NonNull::<u64>::dangling().as_ptr().cast::<u8>();
        unsafe {
            match o.op.as_str() {
                "alloc" => {
                    PROFILER.alloc(layout);
                }
                "alloc_zeroed" => {
                    PROFILER.alloc_zeroed(layout);
                }
                "dealloc" => PROFILER.dealloc(p, layout),
                "realloc" => {
                    PROFILER.realloc(p, layout, o.new_size);
                }
                _ => {}
            }
        }
        untracked(|| {
            event(
                Ev::new("alloc_op")
                    .s("site", site)
                    .s("op", &o.op)
                    .u("size", o.size as u128)
                    .u("new", o.new_size as u128),
            )
        });
    }
}

// ------------------------------------------------------------------- script

pub struct Script {
    pub gen_cost: u64,
    pub count_cost: u64,
    pub call_base: u64,
    pub call_per_tid: Vec<u64>,
    pub call_inc: u64,
    pub call_noise: Vec<u64>,
    pub drop_out_cost: u64,
    pub drop_in_cost: u64,
    pub ops_gen: Vec<AllocOp>,
    pub ops_count: Vec<AllocOp>,
    pub ops_call: Vec<AllocOp>,
    pub call_ops_from: u64,
    pub call_ops_until: u64,
    /// If set, only these (scheduler) threads perform the call-site operations.
    pub call_ops_tids: Option<Vec<u64>>,
    pub ops_drop_out: Vec<AllocOp>,
    pub ops_drop_in: Vec<AllocOp>,
    pub panic_where: String,
    pub panic_tid: i64,
    pub panic_nth: u64,
    pub count_values: Vec<u64>,
    next_id: AtomicU64,
    site_counts: Mutex<std::collections::HashMap<(String, usize), u64>>,
}

impl Script {
    pub fn of(sc: &Value) -> Self {
        let c = &sc["costs"];
        let a = &sc["alloc_script"];
        let p = &sc["panic"];
        let arr = |v: &Value| -> Vec<u64> {
            v.as_array().map(|a| a.iter().filter_map(|x| x.as_u64()).collect()).unwrap_or_default()
        };
        Self {
            gen_cost: c["gen"].as_u64().unwrap_or(0),
            count_cost: c["count"].as_u64().unwrap_or(0),
            call_base: c["call"].as_u64().unwrap_or(0),
            call_per_tid: arr(&c["call_per_tid"]),
            call_inc: c["call_inc"].as_u64().unwrap_or(0),
            call_noise: arr(&c["call_noise"]),
            drop_out_cost: c["drop_out"].as_u64().unwrap_or(0),
            drop_in_cost: c["drop_in"].as_u64().unwrap_or(0),
            ops_gen: parse_ops(a.get("gen")),
            ops_count: parse_ops(a.get("count")),
            ops_call: parse_ops(a.get("call")),
            call_ops_from: a["call_from"].as_u64().unwrap_or(0),
            call_ops_until: a["call_until"].as_u64().unwrap_or(u64::MAX),
            call_ops_tids: a["call_tids"].as_array().map(|v| v.iter().filter_map(|x| x.as_u64()).collect()),
            ops_drop_out: parse_ops(a.get("drop_out")),
            ops_drop_in: parse_ops(a.get("drop_in")),
            panic_where: p["where"].as_str().unwrap_or("").to_owned(),
            panic_tid: p["tid"].as_i64().unwrap_or(-1),
            panic_nth: p["nth"].as_u64().unwrap_or(0),
            count_values: arr(&sc["count_values"]),
            next_id: AtomicU64::new(1),
            site_counts: Mutex::new(Default::default()),
        }
    }

    fn fresh(&self) -> u64 {
        self.next_id.fetch_add(1, Ordering::Relaxed)
    }

    /// Returns the 0-based occurrence number of `site` on this thread and
    /// panics if the script says so.
    fn visit(&self, site: &str) -> u64 {
        let tid = sched::current_tid().unwrap_or(0);
        let n = {
            let mut m = self.site_counts.lock().unwrap();
            let e = m.entry((site.to_owned(), tid)).or_insert(0);
            let n = *e;
            *e += 1;
            n
        };
        if self.panic_where == site
            && (self.panic_tid < 0 || self.panic_tid as usize == tid)
            && self.panic_nth == n
        {
            event(Ev::new("user_panic").s("site", site).u("nth", n as u128));
            panic!("scripted panic in {site} #{n} on thread {tid}");
        }
        n
    }

    fn call_cost(&self, nth: u64) -> u64 {
        let tid = sched::current_tid().unwrap_or(0);
        let per_tid = self.call_per_tid.get(tid).copied().unwrap_or(0);
        let noise = if self.call_noise.is_empty() {
            0
        } else {
            self.call_noise[(nth as usize) % self.call_noise.len()]
        };
        self.call_base + per_tid + self.call_inc * nth + noise
    }
}

static GLOBAL_SCRIPT: Mutex<Option<Arc<Script>>> = Mutex::new(None);

fn script() -> Arc<Script> {
    // Drop impls have no context argument; the script is process-global for
    // the duration of one scenario (scenarios run one at a time).
    GLOBAL_SCRIPT.lock().unwrap().clone().expect("script installed")
}

// ----------------------------------------------------------- value shapes

pub trait InShape: Sized + Send + Sync + 'static {
    const NAME: &'static str;
    fn make(id: u64) -> Self;
    /// 0 for zero-sized shapes.
    fn id(&self) -> u64;
}

pub trait OutShape: Sized + Send + Sync + 'static {
    const NAME: &'static str;
    fn make(id: u64) -> Self;
}

pub struct InZ;
pub struct InZD;
pub struct InS(u64);
pub struct InSD(u64);
pub struct OutZ;
pub struct OutZD;
pub struct OutS(#[allow(dead_code)] u64);
pub struct OutSD(u64);

impl InShape for InZ {
    const NAME: &'static str = "zst";
    fn make(_: u64) -> Self {
        InZ
    }
    fn id(&self) -> u64 {
        0
    }
}
impl InShape for InZD {
    const NAME: &'static str = "zst_drop";
    fn make(_: u64) -> Self {
        InZD
    }
    fn id(&self) -> u64 {
        0
    }
}
impl InShape for InS {
    const NAME: &'static str = "sized";
    fn make(id: u64) -> Self {
        InS(id)
    }
    fn id(&self) -> u64 {
        self.0
    }
}
impl InShape for InSD {
    const NAME: &'static str = "sized_drop";
    fn make(id: u64) -> Self {
        InSD(id)
    }
    fn id(&self) -> u64 {
        self.0
    }
}

impl Drop for InZD {
    fn drop(&mut self) {
        let s = script();
        untracked(|| s.visit("drop_in"));
        do_ops("drop_in", &s.ops_drop_in);
        untracked(|| sched::event_advancing(Ev::new("drop_in").u("id", 0), s.drop_in_cost));
    }
}
impl Drop for InSD {
    fn drop(&mut self) {
        let s = script();
        untracked(|| s.visit("drop_in"));
        do_ops("drop_in", &s.ops_drop_in);
        untracked(|| sched::event_advancing(Ev::new("drop_in").u("id", self.0 as u128), s.drop_in_cost));
    }
}

impl OutShape for OutZ {
    const NAME: &'static str = "zst";
    fn make(_: u64) -> Self {
        OutZ
    }
}
impl OutShape for OutZD {
    const NAME: &'static str = "zst_drop";
    fn make(_: u64) -> Self {
        OutZD
    }
}
impl OutShape for OutS {
    const NAME: &'static str = "sized";
    fn make(id: u64) -> Self {
        OutS(id)
    }
}
impl OutShape for OutSD {
    const NAME: &'static str = "sized_drop";
    fn make(id: u64) -> Self {
        OutSD(id)
    }
}

impl Drop for OutZD {
    fn drop(&mut self) {
        let s = script();
        untracked(|| s.visit("drop_out"));
        do_ops("drop_out", &s.ops_drop_out);
        untracked(|| sched::event_advancing(Ev::new("drop_out").u("id", 0), s.drop_out_cost));
    }
}
impl Drop for OutSD {
    fn drop(&mut self) {
        let s = script();
        untracked(|| s.visit("drop_out"));
        do_ops("drop_out", &s.ops_drop_out);
        untracked(|| sched::event_advancing(Ev::new("drop_out").u("id", self.0 as u128), s.drop_out_cost));
    }
}

// ----------------------------------------------------------- user closures

fn gen<I: InShape>() -> I {
    let s = script();
    untracked(|| s.visit("gen"));
    do_ops("gen", &s.ops_gen);
    let id = if std::mem::size_of::<I>() == 0 { 0 } else { s.fresh() };
    untracked(|| sched::event_advancing(Ev::new("gen").u("id", id as u128), s.gen_cost));
    I::make(id)
}

fn count_value(s: &Script, id: u64, nth: u64) -> u64 {
    if s.count_values.is_empty() {
        (id % 7) + 1
    } else {
        s.count_values[(nth as usize) % s.count_values.len()]
    }
}

fn count<I: InShape>(kind: usize, input: &I) -> u64 {
    let s = script();
    let nth = untracked(|| s.visit("count"));
    do_ops("count", &s.ops_count);
    let value = count_value(&s, input.id(), nth);
    untracked(|| {
        sched::event_advancing(
            Ev::new("count").u("id", input.id() as u128).u("kind", kind as u128).u("value", value as u128),
            s.count_cost,
        )
    });
    value
}

/// The benchmarked function over an input identity.
fn call<O: OutShape>(in_id: u64) -> O {
    let s = script();
    let nth = untracked(|| s.visit("call"));
    let out_id = if std::mem::size_of::<O>() == 0 { 0 } else { s.fresh() };
    untracked(|| event(Ev::new("call").u("in", in_id as u128).u("out", out_id as u128)));
    // Allocator activity may be limited to a window of a thread's calls
    // (warm-up allocations, late allocations).
    let tid = sched::current_tid().unwrap_or(0) as u64;
    if nth >= s.call_ops_from
        && nth < s.call_ops_until
        && s.call_ops_tids.as_ref().map_or(true, |t| t.contains(&tid))
    {
        do_ops("call", &s.ops_call);
    }
    untracked(|| {
        clock::advance(s.call_cost(nth));
        event(Ev::new("call_end").u("in", in_id as u128))
    });
    O::make(out_id)
}


macro_rules! add_input_counters {
    ($b:ident, $I:ty, $kinds:expr) => {{
        let mut b = $b;
        for &k in $kinds.iter() {
            b = match k {
                0 => b.input_counter(|i: &$I| BytesCount::new(count(0, i))),
                1 => b.input_counter(|i: &$I| CharsCount::new(count(1, i))),
                2 => b.input_counter(|i: &$I| CyclesCount::new(count(2, i))),
                _ => b.input_counter(|i: &$I| ItemsCount::new(count(3, i))),
            };
        }
        b
    }};
}

macro_rules! add_counters {
    ($b:ident, $vals:expr) => {{
        let mut b = $b;
        for (k, v) in $vals.iter() {
            b = match k {
                0 => b.counter(BytesCount::new(*v)),
                1 => b.counter(CharsCount::new(*v)),
                2 => b.counter(CyclesCount::new(*v)),
                _ => b.counter(ItemsCount::new(*v)),
            };
        }
        b
    }};
}

fn run_entry<I: InShape, O: OutShape>(
    entry: &str,
    bencher: Bencher<'_, '_>,
    input_counters: &[u64],
    bencher_counters: &[(u64, u64)],
    // constant counters given to the Bencher AFTER its input counters
    late_counters: &[(u64, u64)],
) {
    match entry {
        "bench" => {
            let b = add_counters!(bencher, bencher_counters);
            b.bench(|| call::<O>(0))
        }
        "bench_local" => {
            let b = add_counters!(bencher, bencher_counters);
            b.bench_local(|| call::<O>(0))
        }
        "bench_values" => {
            let b = bencher.with_inputs(gen::<I>);
            let b = add_counters!(b, bencher_counters);
            let b = add_input_counters!(b, I, input_counters);
            let b = add_counters!(b, late_counters);
            b.bench_values(|i: I| {
                let id = i.id();
                // Ownership went to the benchmarked function; it keeps it.
                std::mem::forget(i);
                call::<O>(id)
            })
        }
        "bench_local_values" => {
            let b = bencher.with_inputs(gen::<I>);
            let b = add_counters!(b, bencher_counters);
            let b = add_input_counters!(b, I, input_counters);
            let b = add_counters!(b, late_counters);
            b.bench_local_values(|i: I| {
                let id = i.id();
                std::mem::forget(i);
                call::<O>(id)
            })
        }
        "bench_refs" => {
            let b = bencher.with_inputs(gen::<I>);
            let b = add_counters!(b, bencher_counters);
            let b = add_input_counters!(b, I, input_counters);
            let b = add_counters!(b, late_counters);
            b.bench_refs(|i: &mut I| call::<O>(i.id()))
        }
        "bench_local_refs" => {
            let b = bencher.with_inputs(gen::<I>);
            let b = add_counters!(b, bencher_counters);
            let b = add_input_counters!(b, I, input_counters);
            let b = add_counters!(b, late_counters);
            b.bench_local_refs(|i: &mut I| call::<O>(i.id()))
        }
        other => panic!("unknown entry {other}"),
    }
}

fn dispatch(
    in_shape: &str,
    out_shape: &str,
    entry: &str,
    bencher: Bencher<'_, '_>,
    input_counters: &[u64],
    bencher_counters: &[(u64, u64)],
    late_counters: &[(u64, u64)],
) {
    macro_rules! go {
        ($I:ty) => {
            match out_shape {
                "zst" => run_entry::<$I, OutZ>(entry, bencher, input_counters, bencher_counters, late_counters),
                "zst_drop" => run_entry::<$I, OutZD>(entry, bencher, input_counters, bencher_counters, late_counters),
                "sized" => run_entry::<$I, OutS>(entry, bencher, input_counters, bencher_counters, late_counters),
                _ => run_entry::<$I, OutSD>(entry, bencher, input_counters, bencher_counters, late_counters),
            }
        };
    }
    match in_shape {
        "zst" => go!(InZ),
        "zst_drop" => go!(InZD),
        "sized" => go!(InS),
        _ => go!(InSD),
    }
}

fn milli(v: f64) -> i64 {
    if v.is_finite() {
        (v * 1000.0).round() as i64
    } else {
        -999_999
    }
}

fn set_f(s: &api::Set<f64>) -> String {
    format!("[{},{},{},{}]", milli(s.fastest), milli(s.slowest), milli(s.median), milli(s.mean))
}

fn clamp(v: u128) -> i128 {
    if v > 2_000_000_000 {
        -1
    } else {
        v as i128
    }
}

pub fn stats_json(st: &api::StatsData) -> String {
    let counts: Vec<String> = st
        .counts
        .iter()
        .map(|c| match c {
            Some(s) => format!("[{},{},{},{}]", s.fastest, s.slowest, s.median, s.mean),
            None => "[]".to_owned(),
        })
        .collect();
    format!(
        "{{\"sample_count\":{},\"iter_count\":{},\"time\":[{},{},{},{}],\"max_alloc_count\":{},\"max_alloc_size\":{},\"tally_count\":[{},{},{},{}],\"tally_size\":[{},{},{},{}],\"counts\":[{}]}}",
        st.sample_count,
        st.iter_count,
        clamp(st.time.fastest),
        clamp(st.time.slowest),
        clamp(st.time.median),
        clamp(st.time.mean),
        set_f(&st.max_alloc_count),
        set_f(&st.max_alloc_size),
        set_f(&st.tally_count[0]),
        set_f(&st.tally_count[1]),
        set_f(&st.tally_count[2]),
        set_f(&st.tally_count[3]),
        set_f(&st.tally_size[0]),
        set_f(&st.tally_size[1]),
        set_f(&st.tally_size[2]),
        set_f(&st.tally_size[3]),
        counts.join(","),
    )
}

pub fn report_event(name: &str, r: &api::BenchReport) -> Ev {
    let durations: Vec<String> = r.durations.iter().map(|d| clamp(*d).to_string()).collect();
    let allocs: Vec<String> =
        r.allocs.iter().map(|(i, t)| format!("{{\"index\":{},\"info\":{}}}", i, t.json())).collect();
    let counts: Vec<String> = r
        .counts
        .iter()
        .map(|c| format!("[{}]", c.iter().map(|x| x.to_string()).collect::<Vec<_>>().join(",")))
        .collect();
    let input_counted: Vec<String> = r.input_counted.iter().map(|b| b.to_string()).collect();
    let ev = Ev::new(name)
        .b("did_run", r.did_run)
        .u("threads", r.thread_count as u128)
        .u("sample_size", r.sample_size as u128)
        .raw("durations", &format!("[{}]", durations.join(",")))
        .raw("allocs", &format!("[{}]", allocs.join(",")))
        .raw("counts", &format!("[{}]", counts.join(",")))
        .raw("input_counted", &format!("[{}]", input_counted.join(",")));
    match &r.stats {
        None => ev.s("stats_status", "none"),
        Some(Ok(st)) => ev.s("stats_status", "ok").raw("stats", &stats_json(st)),
        Some(Err(msg)) => ev.s("stats_status", "panic").s("stats_panic", msg),
    }
}

pub fn body(sc: Arc<Value>) {
    let script = Arc::new(Script::of(&sc));
    *GLOBAL_SCRIPT.lock().unwrap() = Some(script.clone());

    let o = &sc["options"];
    let mut options = divan::__private::BenchOptions::default();
    options.sample_count = o["sample_count"].as_u64().map(|v| v as u32);
    options.sample_size = o["sample_size"].as_u64().map(|v| v as u32);
    options.min_time = o["min_time_ns"].as_u64().map(Duration::from_nanos);
    options.max_time = o["max_time_ns"].as_u64().map(Duration::from_nanos);
    if o["max_time_max"].as_bool() == Some(true) {
        options.max_time = Some(Duration::MAX);
    }
    options.skip_ext_time = o["skip_ext_time"].as_bool();
    let pairs = |v: &Value| -> Vec<(u64, u64)> {
        v.as_array()
            .map(|a| {
                a.iter()
                    .filter_map(|p| Some((p.get(0)?.as_u64()?, p.get(1)?.as_u64()?)))
                    .collect()
            })
            .unwrap_or_default()
    };
    let mut cs = divan::__private::new_counter_set();
    for (k, v) in pairs(&sc["option_counters"]) {
        cs = match k {
            0 => cs.with(BytesCount::new(v)),
            1 => cs.with(CharsCount::new(v)),
            2 => cs.with(CyclesCount::new(v)),
            _ => cs.with(ItemsCount::new(v)),
        };
    }
    options.counters = cs;

    let action = if sc["action"].as_str() == Some("test") {
        api::BenchAction::Test
    } else {
        api::BenchAction::Bench
    };
    let timer = api::BenchTimer::Tsc { frequency: clock::frequency().unwrap_or(1_000_000_000_000) };
    let threads = sc["threads"].as_u64().unwrap_or(1) as usize;
    let entry = sc["entry"].as_str().unwrap_or("bench").to_owned();
    let in_shape = sc["in_shape"].as_str().unwrap_or("zst").to_owned();
    let out_shape = sc["out_shape"].as_str().unwrap_or("zst").to_owned();
    let input_counters: Vec<u64> =
        sc["input_counters"].as_array().map(|a| a.iter().filter_map(|x| x.as_u64()).collect()).unwrap_or_default();
    let bencher_counters = pairs(&sc["bencher_counters"]);
    let late_counters = pairs(&sc["late_counters"]);
    let want_stats = action == api::BenchAction::Bench;

    // Make sure this thread's tally exists and starts from a known state.
    api::tally_clear();

    let outer = std::panic::catch_unwind(std::panic::AssertUnwindSafe(|| {
        api::with_bencher(action, timer, &options, threads, want_stats, |bencher| {
            event(Ev::new("bench_call").s("entry", &entry));
            let r = std::panic::catch_unwind(std::panic::AssertUnwindSafe(|| {
                dispatch(&in_shape, &out_shape, &entry, bencher, &input_counters, &bencher_counters, &late_counters)
            }));
            match r {
                Ok(()) => event(Ev::new("bench_return").b("panicked", false)),
                Err(p) => event(
                    Ev::new("bench_return").b("panicked", true).s("msg", &sched::panic_message(&*p)),
                ),
            }
        })
    }));

    match outer {
        Ok(report) => event(report_event("report", &report)),
        Err(p) => event(Ev::new("report_failed").s("msg", &sched::panic_message(&*p))),
    }
    *GLOBAL_SCRIPT.lock().unwrap() = None;
}
