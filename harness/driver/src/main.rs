mod alloc;
mod bench;
mod common;
mod entrylist;
mod num;
mod pool;
mod pure;
mod stats;

use common::{Out, RunStats};

/// The process allocator is the real `AllocProfiler`, so that allocations divan
/// makes itself (slot buffers, sample vectors) reach the thread tallies like
/// they do in a user's benchmark binary. Requests made while the thread is
/// doing scheduler, hook or harness bookkeeping (`divan::verif::untracked`,
/// scheduling points) go straight to the system allocator instead, so they
/// leave no trace in any tally.
struct Gate;

static PROFILED: divan::AllocProfiler = divan::AllocProfiler::system();

unsafe impl std::alloc::GlobalAlloc for Gate {
    unsafe fn alloc(&self, layout: std::alloc::Layout) -> *mut u8 {
        if divan::verif::in_harness() {
            std::alloc::System.alloc(layout)
        } else {
            PROFILED.alloc(layout)
        }
    }
    unsafe fn alloc_zeroed(&self, layout: std::alloc::Layout) -> *mut u8 {
        if divan::verif::in_harness() {
            std::alloc::System.alloc_zeroed(layout)
        } else {
            PROFILED.alloc_zeroed(layout)
        }
    }
    unsafe fn realloc(&self, ptr: *mut u8, layout: std::alloc::Layout, new_size: usize) -> *mut u8 {
        if divan::verif::in_harness() {
            std::alloc::System.realloc(ptr, layout, new_size)
        } else {
            PROFILED.realloc(ptr, layout, new_size)
        }
    }
    unsafe fn dealloc(&self, ptr: *mut u8, layout: std::alloc::Layout) {
        if divan::verif::in_harness() {
            std::alloc::System.dealloc(ptr, layout)
        } else {
            PROFILED.dealloc(ptr, layout)
        }
    }
}

#[global_allocator]
static GLOBAL: Gate = Gate;
use serde_json::json;

fn main() {
    // Panics of code under test are data in the trace; keep stderr quiet.
    std::panic::set_hook(Box::new(|_| {}));

    let args: Vec<String> = std::env::args().collect();
    let get = |name: &str| -> Option<String> {
        args.iter().position(|a| a == name).and_then(|i| args.get(i + 1).cloned())
    };
    let cmd = args.get(1).cloned().unwrap_or_default();
    let scenarios = get("--scenarios");
    let out_path = get("--out");
    let mut out = Out::open(out_path.as_deref());
    let mut stats = RunStats {
        progress: get("--progress"),
        stream: get("--stream"),
        scenario_index: 0,
        runs: 0,
        outcomes: Default::default(),
        dfs_exhausted: false,
    };
    let skip: usize = get("--skip").and_then(|s| s.parse().ok()).unwrap_or(0);

    match cmd.as_str() {
        "run" => {
            for (i, sc) in common::read_scenarios(&scenarios.expect("--scenarios")).into_iter().enumerate() {
                if i < skip {
                    continue;
                }
                stats.scenario_index = i;
                match sc["kind"].as_str().unwrap_or("") {
                    "pool" => common::run_scenario(&sc, &mut out, &mut stats, pool::body),
                    "bench" => common::run_scenario(&sc, &mut out, &mut stats, bench::body),
                    "num" => num::run(&sc, &mut out, &mut stats),
                    "pure" => pure::run(&sc, &mut out, &mut stats),
                    "stats" => stats::run(&sc, &mut out),
                    "alloc" => common::run_scenario(&sc, &mut out, &mut stats, alloc::body),
                    "entrylist" => common::run_scenario(&sc, &mut out, &mut stats, entrylist::body),
                    "fwd" => common::run_scenario(&sc, &mut out, &mut stats, alloc::fwd_body),
                    other => {
                        eprintln!("unknown scenario kind {other:?}");
                        std::process::exit(2);
                    }
                }
            }
        }
        _ => {
            eprintln!("usage: driver run --scenarios FILE [--out FILE]");
            std::process::exit(2);
        }
    }

    out.flush();
    let summary = json!({
        "runs": stats.runs,
        "events": out.events,
        "outcomes": stats.outcomes,
        "dfs_exhausted": stats.dfs_exhausted,
    });
    eprintln!("DRIVER-SUMMARY {summary}");
    // Leaked threads of abandoned scenarios must not keep the process alive.
    std::process::exit(0);
}
