use divan::verif::{api, sched, Ev};

fn main() {
    std::panic::set_hook(Box::new(|_| {}));
    let seed: u64 = std::env::args().nth(1).and_then(|s| s.parse().ok()).unwrap_or(1);
    let cfg = sched::Config {
        source: sched::Source::Random { seed, switch_permille: 300 },
        spurious: 1,
        ..Default::default()
    };
    let res = sched::run(cfg, || {
        let pool = api::Pool::new();
        for (n, panics) in [(2usize, vec![1usize]), (1, vec![])] {
            divan::verif::event(Ev::new("bcast_call").u("n", n as u128));
            let mut v: Vec<Option<usize>> = Vec::new();
            pool.par_extend(&mut v, n, |i| {
                divan::verif::event(Ev::new("task_begin").u("index", i as u128));
                if panics.contains(&i) {
                    divan::verif::event(Ev::new("task_panic").u("index", i as u128));
                    panic!("boom");
                }
                divan::verif::event(Ev::new("task_end").u("index", i as u128));
                i
            });
            divan::verif::event(Ev::new("bcast_return").raw("slots", &format!("{:?}", v.iter().map(|x| x.is_some() as u8).collect::<Vec<_>>())));
        }
        divan::verif::event(Ev::new("pool_drop"));
        drop(pool);
    });
    for l in &res.log { println!("{l}"); }
    eprintln!("outcome={:?} steps={} threads={}", res.outcome, res.steps, res.threads);
}
