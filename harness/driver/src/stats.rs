//! Injected sample collections for the statistics code (C05).

use divan::verif::api::{self, Tally};
use serde_json::{json, Value};

use crate::{bench, common::Out};

fn tally_of(v: &Value) -> Tally {
    let pair = |k: &str| -> [u64; 2] {
        [v[k][0].as_u64().unwrap_or(0), v[k][1].as_u64().unwrap_or(0)]
    };
    Tally {
        ops: [pair("grow"), pair("shrink"), pair("alloc"), pair("dealloc")],
        current_count: v["cur_count"].as_i64().unwrap_or(0),
        max_count: v["max_count"].as_i64().unwrap_or(0),
        current_size: v["cur_size"].as_i64().unwrap_or(0),
        max_size: v["max_size"].as_i64().unwrap_or(0),
    }
}

pub fn run(sc: &Value, out: &mut Out) {
    let sample_size = sc["sample_size"].as_u64().unwrap_or(1) as u32;
    let durations: Vec<u128> = sc["durations"]
        .as_array()
        .map(|a| a.iter().filter_map(|x| x.as_u64()).map(|x| x as u128).collect())
        .unwrap_or_default();
    let allocs: Vec<(u32, Tally)> = sc["allocs"]
        .as_array()
        .map(|a| {
            a.iter().map(|e| (e["index"].as_u64().unwrap_or(0) as u32, tally_of(&e["info"]))).collect()
        })
        .unwrap_or_default();
    let mut counts: [Vec<u64>; 4] = Default::default();
    let mut input_counted = [false; 4];
    for k in 0..4 {
        counts[k] = sc["counts"][k]
            .as_array()
            .map(|a| a.iter().filter_map(|x| x.as_u64()).collect())
            .unwrap_or_default();
        input_counted[k] = sc["input_counted"][k].as_bool().unwrap_or(false);
    }

    let stats = api::compute_stats_injected(sample_size, &durations, &allocs, &counts, input_counted);

    let report = api::BenchReport {
        did_run: true,
        thread_count: 1,
        sample_size,
        durations,
        allocs,
        counts,
        input_counted,
        stats: Some(stats),
    };
    out.value(&json!({"seq": 0, "tid": -1, "ev": "reset", "scenario": sc}));
    let ev = bench::report_event("stats_rec", &report);
    out.line(&format!("{{\"seq\":1,\"tid\":0,{}}}", ev.body()));
    out.runs += 1;
}
