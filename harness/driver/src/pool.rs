//! Pool scenarios (C06, C07): sequences of broadcasts over the real
//! `ThreadPool`, every shared-memory operation a scheduling point.

use std::sync::{
    atomic::{AtomicU8, Ordering},
    Arc,
};

use divan::verif::{api, event, Ev};
use serde_json::Value;

/// A panic payload whose destructor panics as well (the pool documents how it
/// treats those: the caller's is dropped only after all workers finished).
struct Bomb;

impl Drop for Bomb {
    fn drop(&mut self) {
        if !std::thread::panicking() {
            panic!("scripted panic while dropping a panic payload");
        }
    }
}

fn task(i: usize, panics: &[u64], bomb0: bool) -> usize {
    event(Ev::new("task_begin").u("index", i as u128));
    if panics.contains(&(i as u64)) {
        event(Ev::new("task_panic").u("index", i as u128));
        if bomb0 && i == 0 {
            std::panic::panic_any(Bomb);
        }
        panic!("scripted panic in task {i}");
    }
    event(Ev::new("task_end").u("index", i as u128));
    i
}

pub fn body(sc: Arc<Value>) {
    let pool = api::Pool::new();
    let use_broadcast = sc.get("use").and_then(|u| u.as_str()) == Some("broadcast");
    // Like the benchmark loop: one result buffer, cleared and refilled by
    // every broadcast.
    let reuse = sc.get("reuse_vec").and_then(|u| u.as_bool()).unwrap_or(false);
    // Extend.tla's other use: the buffer is NOT cleared, par_extend appends
    // (per broadcast: `"append": true`); the entries that were there before
    // must stay as they were and only the new tail is reported.
    let mut shared: Vec<Option<usize>> = Vec::new();

    for bc in sc["history"].as_array().cloned().unwrap_or_default() {
        let n = bc["n"].as_u64().unwrap_or(0) as usize;
        let panics: Vec<u64> = bc["panics"]
            .as_array()
            .map(|a| a.iter().filter_map(|x| x.as_u64()).collect())
            .unwrap_or_default();

        let bomb0 = bc["bomb0"].as_bool().unwrap_or(false);
        event(Ev::new("bcast_call").u("n", n as u128));

        // The broadcast itself may unwind (the caller's panic payload is
        // dropped by the pool after the wait and its destructor may panic).
        let attempt = std::panic::catch_unwind(std::panic::AssertUnwindSafe(|| -> Vec<u8> {
        if use_broadcast {
            let flags: Vec<AtomicU8> = (0..=n).map(|_| AtomicU8::new(0)).collect();
            let flags_ref = &flags;
            pool.broadcast(n, |i| {
                let r = task(i, &panics, bomb0);
                flags_ref[r].store(1, Ordering::Relaxed);
            });
            flags.iter().map(|f| f.load(Ordering::Relaxed)).collect()
        } else {
            let mut fresh: Vec<Option<usize>> = Vec::new();
            let append = bc["append"].as_bool().unwrap_or(false);
            let v: &mut Vec<Option<usize>> = if reuse {
                if !append {
                    shared.clear();
                }
                &mut shared
            } else {
                &mut fresh
            };
            let before: Vec<Option<usize>> = v.clone();
            pool.par_extend(v, n, |i| task(i, &panics, bomb0));
            let earlier_kept = v.len() == before.len() + n + 1 && v[..before.len()] == before[..];
            v.iter()
                .skip(if earlier_kept { before.len() } else { 0 })
                .enumerate()
                .map(|(i, x)| match x {
                    _ if !earlier_kept => 2,
                    Some(r) if *r == i => 1,
                    Some(_) => 2,
                    None => 0,
                })
                .collect()
        }
        }));

        match attempt {
            Ok(slots) => {
                let slots = slots.iter().map(|x| x.to_string()).collect::<Vec<_>>().join(",");
                event(Ev::new("bcast_return").raw("slots", &format!("[{slots}]")));
            }
            Err(_) => event(Ev::new("bcast_unwound")),
        }
    }

    if sc.get("drop_pool").and_then(|d| d.as_bool()).unwrap_or(true) {
        event(Ev::new("pool_drop"));
        drop(pool);
    } else {
        std::mem::forget(pool);
    }
}
