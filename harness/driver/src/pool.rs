//! Pool scenarios (C06, C07): sequences of broadcasts over the real
//! `ThreadPool`, every shared-memory operation a scheduling point.

use std::sync::{
    atomic::{AtomicU8, Ordering},
    Arc,
};

use divan::verif::{api, event, Ev};
use serde_json::Value;

fn task(i: usize, panics: &[u64]) -> usize {
    event(Ev::new("task_begin").u("index", i as u128));
    if panics.contains(&(i as u64)) {
        event(Ev::new("task_panic").u("index", i as u128));
        panic!("scripted panic in task {i}");
    }
    event(Ev::new("task_end").u("index", i as u128));
    i
}

pub fn body(sc: Arc<Value>) {
    let pool = api::Pool::new();
    let use_broadcast = sc.get("use").and_then(|u| u.as_str()) == Some("broadcast");
    // Like the benchmark loop: one result buffer, cleared and refilled by
    // every broadcast.
    let reuse = sc.get("reuse_vec").and_then(|u| u.as_bool()).unwrap_or(false);
    let mut shared: Vec<Option<usize>> = Vec::new();

    for bc in sc["history"].as_array().cloned().unwrap_or_default() {
        let n = bc["n"].as_u64().unwrap_or(0) as usize;
        let panics: Vec<u64> = bc["panics"]
            .as_array()
            .map(|a| a.iter().filter_map(|x| x.as_u64()).collect())
            .unwrap_or_default();

        event(Ev::new("bcast_call").u("n", n as u128));

        let slots: Vec<u8> = if use_broadcast {
            let flags: Vec<AtomicU8> = (0..=n).map(|_| AtomicU8::new(0)).collect();
            pool.broadcast(n, |i| {
                let r = task(i, &panics);
                flags[r].store(1, Ordering::Relaxed);
            });
            flags.iter().map(|f| f.load(Ordering::Relaxed)).collect()
        } else {
            let mut fresh: Vec<Option<usize>> = Vec::new();
            let v: &mut Vec<Option<usize>> = if reuse {
                shared.clear();
                &mut shared
            } else {
                &mut fresh
            };
            pool.par_extend(v, n, |i| task(i, &panics));
            v.iter()
                .enumerate()
                .map(|(i, x)| match x {
                    Some(r) if *r == i => 1,
                    Some(_) => 2,
                    None => 0,
                })
                .collect()
        };

        let slots = slots.iter().map(|x| x.to_string()).collect::<Vec<_>>().join(",");
        event(Ev::new("bcast_return").raw("slots", &format!("[{slots}]")));
    }

    if sc.get("drop_pool").and_then(|d| d.as_bool()).unwrap_or(true) {
        event(Ev::new("pool_drop"));
        drop(pool);
    } else {
        std::mem::forget(pool);
    }
}
