//! Allocation tallies (C10) and forwarding (C09) through the real
//! `AllocProfiler`.

use std::{
    alloc::{GlobalAlloc, Layout},
    sync::{Arc, Mutex},
};

use divan::{
    verif::{api, event, untracked, vstd, Ev},
    AllocProfiler,
};
use serde_json::Value;

use crate::bench::PROFILER;

/// Sizes of a script may be given in units of `unit` bytes (e.g. 2^20): the
/// real operations use size * unit, the logged sizes and tallies are divided
/// by the unit again (exactly - the tally arithmetic is linear in the sizes),
/// so that byte counts far beyond 2^31 stay within TLC's integers.
fn scaled(t: api::Tally, unit: u64) -> Option<api::Tally> {
    if unit <= 1 {
        return Some(t);
    }
    let u = unit as i64;
    let mut r = t;
    for op in r.ops.iter_mut() {
        if op[1] % unit != 0 {
            return None;
        }
        op[1] /= unit;
    }
    if r.current_size % u != 0 || r.max_size % u != 0 {
        return None;
    }
    r.current_size /= u;
    r.max_size /= u;
    Some(r)
}

fn tally_json(t: api::Tally, unit: u64) -> String {
    match scaled(t, unit) {
        Some(t) => t.json(),
        // not a multiple of the unit: cannot be what the specification expects
        None => api::Tally { max_size: -777, ..Default::default() }.json(),
    }
}

fn run_script(ops: &[Value], unit: u64) {
    api::tally_clear();
    let t = api::tally_current(true).unwrap_or_default();
    untracked(|| event(Ev::new("alloc_clear").raw("tally", &tally_json(t, unit))));
    let p = std::ptr::NonNull::<u64>::dangling().as_ptr().cast::<u8>();
    for o in ops {
        let op = o["op"].as_str().unwrap_or("alloc");
        let size_units = o["size"].as_u64().unwrap_or(0) as usize;
        let new_units = o["new"].as_u64().unwrap_or(0) as usize;
        let size = size_units * unit.max(1) as usize;
        let new = new_units * unit.max(1) as usize;
        let layout = Layout::from_size_align(size, 1).unwrap();
        match op {
            "clear" => {
                api::tally_clear();
                let t = api::tally_current(false).unwrap_or_default();
                untracked(|| event(Ev::new("alloc_clear").raw("tally", &tally_json(t, unit))));
                continue;
            }
            "peek" => {
                let t = api::tally_current(false).unwrap_or_default();
                untracked(|| event(Ev::new("alloc_peek").raw("tally", &tally_json(t, unit))));
                continue;
            }
            "alloc" => unsafe {
                PROFILER.alloc(layout);
            },
            "alloc_zeroed" => unsafe {
                PROFILER.alloc_zeroed(layout);
            },
            "dealloc" => unsafe { PROFILER.dealloc(p, layout) },
            "realloc" => unsafe {
                PROFILER.realloc(p, layout, new);
            },
            _ => continue,
        }
        let t = api::tally_current(false).unwrap_or_default();
        untracked(|| {
            event(
                Ev::new("alloc_step")
                    .s("op", op)
                    .u("size", size_units as u128)
                    .u("new", new_units as u128)
                    .raw("tally", &tally_json(t, unit)),
            )
        });
    }
}

/// kind "alloc": one script per thread, threads interleaved by the scheduler.
pub fn body(sc: Arc<Value>) {
    let scripts: Vec<Vec<Value>> = sc["scripts"]
        .as_array()
        .map(|a| a.iter().map(|s| s.as_array().cloned().unwrap_or_default()).collect())
        .unwrap_or_default();
    let unit = sc["unit"].as_u64().unwrap_or(1);
    let mut handles = Vec::new();
    for script in scripts.iter().skip(1).cloned() {
        handles.push(vstd::thread::spawn(move || run_script(&script, unit)));
    }
    if let Some(first) = scripts.first() {
        run_script(first, unit);
    }
    for h in handles {
        let _ = h.join();
    }
}

// ------------------------------------------------------------------- C09

/// Inner allocator that logs what reaches it and returns scripted values.
pub struct LogMock;

static RESULTS: Mutex<Vec<usize>> = Mutex::new(Vec::new());

fn next_result() -> usize {
    let mut r = RESULTS.lock().unwrap();
    if r.is_empty() {
        0
    } else {
        r.remove(0)
    }
}

fn inner_event(op: &str, layout: Layout, new: usize, ptr: usize, result: usize) {
    event(
        Ev::new("inner")
            .s("op", op)
            .u("size", layout.size() as u128)
            .u("align", layout.align() as u128)
            .u("new", new as u128)
            .u("ptr", ptr as u128)
            .u("result", result as u128),
    );
}

unsafe impl GlobalAlloc for LogMock {
    unsafe fn alloc(&self, layout: Layout) -> *mut u8 {
        let r = next_result();
        inner_event("alloc", layout, 0, 0, r);
        r as *mut u8
    }
    unsafe fn alloc_zeroed(&self, layout: Layout) -> *mut u8 {
        let r = next_result();
        inner_event("alloc_zeroed", layout, 0, 0, r);
        r as *mut u8
    }
    unsafe fn dealloc(&self, ptr: *mut u8, layout: Layout) {
        inner_event("dealloc", layout, 0, ptr as usize, 0);
    }
    unsafe fn realloc(&self, ptr: *mut u8, layout: Layout, new_size: usize) -> *mut u8 {
        let r = next_result();
        inner_event("realloc", layout, new_size, ptr as usize, r);
        r as *mut u8
    }
}

static FWD: AllocProfiler<LogMock> = AllocProfiler::new(LogMock);

fn fwd_script(ops: &[Value]) {
    for o in ops {
        let op = o["op"].as_str().unwrap_or("alloc");
        let size = o["size"].as_u64().unwrap_or(0) as usize;
        let align = o["align"].as_u64().unwrap_or(1) as usize;
        let new = o["new"].as_u64().unwrap_or(0) as usize;
        let ptr = o["ptr"].as_u64().unwrap_or(0) as usize;
        let result = o["result"].as_u64().unwrap_or(0) as usize;
        let Ok(layout) = Layout::from_size_align(size, align) else { continue };
        RESULTS.lock().unwrap().push(result);
        event(
            Ev::new("req")
                .s("op", op)
                .u("size", size as u128)
                .u("align", align as u128)
                .u("new", if op == "realloc" { new as u128 } else { 0 })
                .u("ptr", if op == "realloc" || op == "dealloc" { ptr as u128 } else { 0 }),
        );
        let got: usize = unsafe {
            match op {
                "alloc" => FWD.alloc(layout) as usize,
                "alloc_zeroed" => FWD.alloc_zeroed(layout) as usize,
                "dealloc" => {
                    FWD.dealloc(ptr as *mut u8, layout);
                    RESULTS.lock().unwrap().clear();
                    0
                }
                _ => FWD.realloc(ptr as *mut u8, layout, new) as usize,
            }
        };
        event(Ev::new("ret").u("result", got as u128));
    }
}

/// kind "fwd": request scripts against `AllocProfiler<LogMock>`; with
/// `fresh_threads` every script runs on a thread that has never used the
/// profiler before (its first request initialises the thread-local tally).
pub fn fwd_body(sc: Arc<Value>) {
    let scripts: Vec<Vec<Value>> = sc["scripts"]
        .as_array()
        .map(|a| a.iter().map(|s| s.as_array().cloned().unwrap_or_default()).collect())
        .unwrap_or_default();
    // one at a time: the scripted-result queue is shared
    for (i, script) in scripts.iter().enumerate() {
        if i == 0 {
            fwd_script(script);
        } else {
            let script = script.clone();
            let _ = vstd::thread::spawn(move || fwd_script(&script)).join();
        }
    }
}
