//! Pure-function scenarios (C13, C15, C16): one call of a crate-private
//! function per scenario, logged as ONE record `{inputs..., out}`.
//!
//! Nothing is judged here.  Every string the specification must take apart is
//! logged a second time as the array of its Unicode code points (computed from
//! the very `&str` that was handed to the code under test).  Panics of the
//! code under test are data (`"panic": message`).
//!
//! Records carry `"ev":"reset"` because each of them is a complete run of its
//! own (that is how the orchestrator delimits runs).

use std::{
    borrow::Cow,
    cmp::Ordering,
    io::Write,
    panic::{catch_unwind, AssertUnwindSafe},
    time::Duration,
};

use divan::{
    __private::BenchOptions,
    counter::{BytesCount, CharsCount, CyclesCount, ItemsCount},
    verif::api,
};
use serde_json::{json, Map, Value};

use crate::common::{Out, RunStats};

fn cps(s: &str) -> Value {
    Value::Array(s.chars().map(|c| json!(c as u32)).collect())
}

fn ord(o: Ordering) -> i64 {
    match o {
        Ordering::Less => -1,
        Ordering::Equal => 0,
        Ordering::Greater => 1,
    }
}

fn panic_text(p: Box<dyn std::any::Any + Send>) -> String {
    if let Some(s) = p.downcast_ref::<&str>() {
        (*s).to_owned()
    } else if let Some(s) = p.downcast_ref::<String>() {
        s.clone()
    } else {
        "<non-string panic payload>".to_owned()
    }
}

fn strings(v: &Value) -> Vec<String> {
    v.as_array()
        .map(|a| a.iter().map(|x| x.as_str().unwrap_or("").to_owned()).collect())
        .unwrap_or_default()
}

fn attr_index(attr: &str) -> usize {
    match attr {
        "kind" => 0,
        "name" => 1,
        "location" => 2,
        other => {
            eprintln!("unknown sorting attribute {other:?}");
            std::process::exit(2);
        }
    }
}

// ------------------------------------------------------------------ options

const SCALARS: [&str; 7] =
    ["sample_count", "sample_size", "threads", "min_time", "max_time", "skip_ext_time", "ignore"];
const COUNTERS: [&str; 4] = ["bytes", "chars", "cycles", "items"];

/// `[]` = unset, `[v]` = set; durations are `[secs, nanos]`.
fn opt(v: &Value, key: &str) -> Option<Value> {
    v.get(key).and_then(|x| x.as_array()).and_then(|a| a.first().cloned())
}

fn duration_of(v: &Value) -> Duration {
    Duration::new(v[0].as_u64().unwrap_or(0), v[1].as_u64().unwrap_or(0) as u32)
}

fn options_of(v: &Value) -> BenchOptions<'static> {
    let mut o = BenchOptions::default();
    o.sample_count = opt(v, "sample_count").map(|x| x.as_u64().unwrap() as u32);
    o.sample_size = opt(v, "sample_size").map(|x| x.as_u64().unwrap() as u32);
    o.threads = opt(v, "threads").map(|x| {
        Cow::Owned(x.as_array().unwrap().iter().map(|t| t.as_u64().unwrap() as usize).collect())
    });
    o.min_time = opt(v, "min_time").map(|x| duration_of(&x));
    o.max_time = opt(v, "max_time").map(|x| duration_of(&x));
    o.skip_ext_time = opt(v, "skip_ext_time").map(|x| x.as_bool().unwrap());
    o.ignore = opt(v, "ignore").map(|x| x.as_bool().unwrap());
    let mut cs = divan::__private::new_counter_set();
    for (k, key) in COUNTERS.iter().enumerate() {
        if let Some(x) = opt(v, key) {
            let n = x.as_u64().unwrap();
            cs = match k {
                0 => cs.with(BytesCount::new(n)),
                1 => cs.with(CharsCount::new(n)),
                2 => cs.with(CyclesCount::new(n)),
                _ => cs.with(ItemsCount::new(n)),
            };
        }
    }
    o.counters = cs;
    o
}

fn some(v: Option<Value>) -> Value {
    match v {
        Some(x) => json!([x]),
        None => json!([]),
    }
}

fn options_json(o: &BenchOptions<'_>) -> Value {
    let dur = |d: Duration| json!([d.as_secs(), d.subsec_nanos()]);
    let mut m = Map::new();
    m.insert(SCALARS[0].into(), some(o.sample_count.map(|x| json!(x))));
    m.insert(SCALARS[1].into(), some(o.sample_size.map(|x| json!(x))));
    m.insert(SCALARS[2].into(), some(o.threads.as_deref().map(|x| json!(x))));
    m.insert(SCALARS[3].into(), some(o.min_time.map(dur)));
    m.insert(SCALARS[4].into(), some(o.max_time.map(dur)));
    m.insert(SCALARS[5].into(), some(o.skip_ext_time.map(|x| json!(x))));
    m.insert(SCALARS[6].into(), some(o.ignore.map(|x| json!(x))));
    for (k, v) in api::counter_set_values(o).iter().enumerate() {
        m.insert(COUNTERS[k].into(), some(v.map(|x| json!(x))));
    }
    Value::Object(m)
}

// ---------------------------------------------------------------------- ops

/// Executes the operation; returns the fields to add to the record.
fn execute(sc: &Value) -> Map<String, Value> {
    let mut r = Map::new();
    let op = sc["op"].as_str().unwrap_or("");
    match op {
        "cmp_nat" => {
            let a = sc["a"].as_str().unwrap_or("");
            let b = sc["b"].as_str().unwrap_or("");
            r.insert("a_cp".into(), cps(a));
            r.insert("b_cp".into(), cps(b));
            r.insert("out".into(), json!(ord(api::natural_cmp(a, b))));
        }
        "cmp_arg" => {
            let owned = strings(&sc["names"]);
            let names: Vec<&str> = owned.iter().map(|s| s.as_str()).collect();
            let i = sc["i"].as_u64().unwrap_or(0) as usize;
            let j = sc["j"].as_u64().unwrap_or(0) as usize;
            let attr = attr_index(sc["attr"].as_str().unwrap_or(""));
            r.insert("names_cp".into(), names.iter().map(|s| cps(s)).collect());
            r.insert("out".into(), json!(ord(api::cmp_arg_names(attr, &names, i, j))));
        }
        "cmp_grid" => {
            // every ordered pair of `names`: attr "natural" = natural_cmp on
            // the two texts, otherwise cmp_bench_arg_names on the elements
            let owned = strings(&sc["names"]);
            let names: Vec<&str> = owned.iter().map(|s| s.as_str()).collect();
            let attr = sc["attr"].as_str().unwrap_or("");
            r.insert("names_cp".into(), names.iter().map(|s| cps(s)).collect());
            let n = names.len();
            let mut rows = Vec::with_capacity(n);
            for i in 0..n {
                let mut row = Vec::with_capacity(n);
                for j in 0..n {
                    let o = if attr == "natural" {
                        api::natural_cmp(names[i], names[j])
                    } else {
                        api::cmp_arg_names(attr_index(attr), &names, i, j)
                    };
                    row.push(json!(ord(o)));
                }
                rows.push(Value::Array(row));
            }
            r.insert("out".into(), Value::Array(rows));
        }
        "sort_args" => {
            let owned = strings(&sc["names"]);
            let names: Vec<&str> = owned.iter().map(|s| s.as_str()).collect();
            let attr = attr_index(sc["attr"].as_str().unwrap_or(""));
            let reverse = sc["reverse"].as_bool().unwrap_or(false);
            r.insert("names_cp".into(), names.iter().map(|s| cps(s)).collect());
            match api::sort_arg_names(attr, reverse, &names) {
                Ok(p) => r.insert("perm".into(), json!(p)),
                Err(m) => r.insert("panic".into(), json!(m)),
            };
            // the opposite direction over the same list ("--sortr shows
            // exactly the reverse")
            match api::sort_arg_names(attr, !reverse, &names) {
                Ok(p) => r.insert("perm_opposite".into(), json!(p)),
                Err(m) => r.insert("panic_opposite".into(), json!(m)),
            };
        }
        "is_match" => {
            let path = sc["path"].as_str().unwrap_or("");
            let calls = sc["calls"].as_array().cloned().unwrap_or_default();
            let specs: Vec<(bool, api::FilterSpec<'_>)> = calls
                .iter()
                .map(|c| {
                    let text = c["text"].as_str().unwrap_or("");
                    let spec = if c["kind"].as_str() == Some("exact") {
                        api::FilterSpec::Exact(text)
                    } else {
                        api::FilterSpec::Regex(text)
                    };
                    (c["inclusive"].as_bool().unwrap_or(true), spec)
                })
                .collect();
            let logged: Vec<Value> = calls
                .iter()
                .map(|c| {
                    let mut c = c.clone();
                    let t = cps(c["text"].as_str().unwrap_or(""));
                    c.as_object_mut().unwrap().insert("text_cp".into(), t);
                    c
                })
                .collect();
            r.insert("calls".into(), Value::Array(logged));
            r.insert("path_cp".into(), cps(path));
            // queries the same set answered before this one (their results are
            // the subject of other records)
            let earlier: Vec<&str> =
                sc["earlier"].as_array().map(|a| a.iter().filter_map(|x| x.as_str()).collect()).unwrap_or_default();
            r.insert("earlier_queries".into(), json!(earlier.len()));
            match api::filter_is_match_after(&specs, &earlier, path) {
                Ok(b) => r.insert("out".into(), json!(b)),
                Err(e) => r.insert("regex_error".into(), json!(e)),
            };
        }
        "overwrite" => {
            let a = options_of(&sc["self"]);
            let b = options_of(&sc["other"]);
            // what the code was given, as the code sees it
            r.insert("self".into(), options_json(&a));
            r.insert("other".into(), options_json(&b));
            r.insert("out".into(), options_json(&api::options_overwrite(&a, &b)));
        }
        "resolve" => {
            // levels = [runner, benchmark, innermost group, ..., outermost];
            // folded with the real `overwrite` in the order of the tree walk:
            // each child over what its parents accumulated, the runner last.
            let levels: Vec<BenchOptions<'static>> =
                sc["levels"].as_array().map(|a| a.iter().map(options_of).collect()).unwrap_or_default();
            r.insert("levels".into(), levels.iter().map(options_json).collect());
            let mut acc: Option<BenchOptions<'static>> = None;
            for level in levels.iter().skip(1).rev() {
                acc = Some(match &acc {
                    None => api::options_overwrite(level, &BenchOptions::default()),
                    Some(parent) => api::options_overwrite(level, parent),
                });
            }
            let out = match &acc {
                None => api::options_overwrite(&levels[0], &BenchOptions::default()),
                Some(entry) => api::options_overwrite(&levels[0], entry),
            };
            r.insert("out".into(), options_json(&out));
        }
        "should_run" => {
            let mode = match sc["run_ignored"].as_str().unwrap_or("no") {
                "no" => 0,
                "yes" => 1,
                _ => 2,
            };
            let ignored = sc["ignore"].as_bool().unwrap_or(false);
            r.insert("out".into(), json!(api::run_ignored_should_run(mode, ignored)));
        }
        "classify" => {
            // Calibration of the specification's reading of std (not of the
            // crate): what str::parse accepts.
            let s = sc["s"].as_str().unwrap_or("");
            r.insert("s_cp".into(), cps(s));
            r.insert("u128".into(), json!(s.parse::<u128>().is_ok()));
            r.insert("i128".into(), json!(s.parse::<i128>().is_ok()));
            let f = s.parse::<f64>();
            r.insert("f64".into(), json!(f.is_ok()));
            r.insert("nan".into(), json!(f.as_ref().map(|x| x.is_nan()).unwrap_or(false)));
            r.insert("inf".into(), json!(f.as_ref().map(|x| x.is_infinite()).unwrap_or(false)));
        }
        other => {
            eprintln!("unknown pure op {other:?}");
            std::process::exit(2);
        }
    }
    r
}

pub fn run(sc: &Value, out: &mut Out, stats: &mut RunStats) {
    if let Some(p) = &stats.progress {
        let _ = std::fs::write(
            p,
            json!({"scenario_index": stats.scenario_index, "run": 0,
                   "schedule": {"source": "tape", "choices": []}})
            .to_string(),
        );
    }
    // Stream mode (re-execution of a scenario that killed the process): the
    // intent is on disk before the code under test is entered.
    let mut stream = stats.stream.as_ref().map(|p| {
        std::fs::OpenOptions::new().create(true).append(true).open(p).expect("stream file")
    });
    let id = sc.get("id").cloned().unwrap_or(Value::Null);
    if let Some(f) = stream.as_mut() {
        let _ = writeln!(f, "{}", json!({"ev": "reset", "op": "begin", "scenario": {"id": id}, "of": sc}));
        let _ = f.flush();
    }

    let mut rec = sc.as_object().cloned().unwrap_or_default();
    rec.insert("ev".into(), json!("reset"));
    rec.insert("scenario".into(), json!({"id": id}));
    match catch_unwind(AssertUnwindSafe(|| execute(sc))) {
        Ok(fields) => rec.extend(fields),
        Err(p) => {
            rec.insert("panic".into(), json!(panic_text(p)));
        }
    }
    let rec = Value::Object(rec);
    out.value(&rec);
    if let Some(f) = stream.as_mut() {
        let _ = writeln!(f, "{rec}");
        let _ = writeln!(f, "{}", json!({"ev": "sched_end", "outcome": "finished"}));
    }
    out.runs += 1;
    stats.runs += 1;
    *stats.outcomes.entry("finished".to_owned()).or_default() += 1;
}
